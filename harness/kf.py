"""Known findings: committed list, class predicates, replays.  Never written at run time."""
import json, os
HERE = os.path.dirname(os.path.abspath(__file__))
VERIF = os.path.dirname(HERE)
import corr, canon as Cn
import impl as I
import monitors as Mn


# ----------------------------------------------------------------------------- known findings
def load_known_findings():
    p = os.path.join(VERIF, 'known_findings.json')
    if not os.path.exists(p):
        return []
    return [k for k in json.load(open(p)).get('findings', []) if k.get('status') == 'known']


def match_known(kf, prop, finding):
    for k in kf:
        if prop not in k.get('properties', [k.get('property')]):
            continue
        pred = KF_PREDICATES.get(k.get('class'))
        if pred and pred(finding):
            return k
    return None


def _events_of(finding):
    return [corr.ev_from_json(e) for e in finding.get('events', [])]


def kf_subscribe_in_multi(finding):
    """EXEC of a queue containing (P)SUBSCRIBE/(P)UNSUBSCRIBE: AssertionError escapes, connection dead"""
    evs = _events_of(finding)
    queued_sub = False
    for e in evs:
        if e[0] == 'cmd':
            n = Cn.name_of(e[2])
            if n in Mn.SUBFAMILY:
                queued_sub = True
    detail = json.dumps(finding, default=str)
    return queued_sub and ('AssertionError' in detail or 'StopIteration' in detail)


KF_PREDICATES = {'subscribe_in_multi': kf_subscribe_in_multi}


def replay_known(kf, prop):
    """re-run each listed finding of this property against the real code; print it if it still fails"""
    out = []
    for k in kf:
        if prop not in k.get('properties', [k.get('property')]):
            continue
        path = os.path.join(VERIF, k['replay'])
        try:
            rec = json.load(open(path))
            evs = [corr.ev_from_json(e) for e in rec['events']]
            im = I.Impl(version=rec.get('version', 7), seed=0)
            crash, last = None, None
            for e in evs:
                if e[0] == 'open':
                    im.open(e[1])
                elif e[0] == 'cmd':
                    o, c, _, _ = im.send(e[1], corr.encode_request(e[2]))
                    crash = crash or c
                    last = o.get(e[1], [])
            if rec.get('expect_kind') == 'last_reply_not_error':
                still = bool(last) and not isinstance(last[0], I.RawError)
            else:
                still = bool(crash)
            if still:
                out.append('KNOWN-FINDING: property=%s %s %s' % (prop, k['id'], k['what']))
        except Exception as ex:     # a broken replay file must not hide anything
            out.append('KNOWN-FINDING-REPLAY-ERROR: %s %r' % (k.get('id'), ex))
    return out


