#!/venv/bin/python
"""./check Cnn [--tier quick|thorough] [--replay path]

1. regenerate FR/Generated from /repo, rebuild the Lean development (model, driver, bridge, proofs)
2. obligations: property theorems present with allowed axioms, bridge theorems hold, no forbidden tokens
3. correspondence campaign + property monitors (corpus first)
4. known findings
Exit 0: property held on everything explored; exit 1 + `VIOLATION property=<id> replay=<path>`; exit 2: internal error."""
import argparse, json, os, random, sys, time, traceback
HERE = os.path.dirname(os.path.abspath(__file__))
VERIF = os.path.dirname(HERE)
sys.path.insert(0, HERE)
import build as B


def main():
    ap = argparse.ArgumentParser()
    ap.add_argument('prop')
    ap.add_argument('--tier', default=os.environ.get('VERIF_TIER') or 'quick')
    ap.add_argument('--replay')
    ap.add_argument('--no-build', action='store_true')
    args = ap.parse_args()
    tier = args.tier if args.tier in ('quick', 'thorough') else 'quick'
    try:
        seed = int(os.environ.get('VERIF_SEED', '0'))
    except ValueError:
        seed = 0
    t0 = time.time()
    from props import PROPS
    if args.prop not in PROPS:
        print('unknown property', args.prop)
        return 2
    cfg = PROPS[args.prop]
    theorems = ['FR.Props.%s.%s' % (args.prop, t) if not t.startswith('FR.') else t for t in cfg['theorems']]
    build = B.ensure_build(theorems, thorough=(tier == 'thorough'))
    if build.get('fatal'):
        print('INTERNAL: ' + build['fatal'])
        return 2
    done, bad = B.obligations_status(build, theorems, cfg['bridge'])

    import runner   # imports the harness (needs the driver binary)
    if args.replay:
        return runner.replay(args.prop, args.replay)
    res = runner.run(args.prop, tier, seed, bad)

    # ---- verdicts -------------------------------------------------------------------------
    kf = runner.load_known_findings()
    lines, violations = [], 0
    os.makedirs(os.path.join(VERIF, 'replays'), exist_ok=True)
    n = 0
    for k in res.known:
        lines.append('KNOWN-FINDING: property=%s %s %s' % (args.prop, k['id'], k['what']))
    for f in res.findings:
        n += 1
        path = os.path.join('replays', '%s-%s-%d-%d.json' % (args.prop, tier, seed, n))
        f = dict(f)
        f['property'] = args.prop
        f['tier'], f['check_seed'] = tier, seed
        f['replay_cmd'] = './check %s --replay %s' % (args.prop, path)
        found_input = f.get('verdict', 'violation') == 'violation'
        json.dump(f, open(os.path.join(VERIF, path), 'w'), indent=1, default=str)
        lines.append('VIOLATION property=%s replay=%s%s' % (args.prop, path, '' if found_input else ' no-failing-input-found'))
        violations += 1
    # obligations that no longer check and for which the focused search found no failing input
    if bad and violations == 0:
        path = os.path.join('replays', '%s-%s-%d-obligations.json' % (args.prop, tier, seed))
        json.dump({'property': args.prop, 'undischarged': bad, 'note': 'proof obligation(s) or bridge theorem(s) no longer check; '
                   'the focused search found no input on which the implementation violates the property',
                   'translator': build.get('translator'), 'build_log_tail': build.get('build_log_tail')},
                  open(os.path.join(VERIF, path), 'w'), indent=1)
        lines.append('VIOLATION property=%s replay=%s no-failing-input-found' % (args.prop, path))
        violations += 1
    for k in runner.replay_known(kf, args.prop):
        if k not in lines:
            lines.append(k)

    # ---- evidence --------------------------------------------------------------------------
    obligations = len(theorems) + len(cfg['bridge'])
    ev = {
        'property_id': args.prop, 'tier': tier, 'seed': seed, 'level': 'proof',
        'coverage': {
            'obligations': obligations, 'discharged': len(done),
            'checker_cmd': 'cd lean && lake build FR driver Bridge Props && lake env lean .lake/Audit.lean'
                           + (' && lake env leanchecker <Props modules>' if tier == 'thorough' else ''),
            'trusted_base': runner.TRUSTED_BASE,
            'theorems': theorems, 'bridge_theorems': cfg['bridge'], 'undischarged': bad,
            'axioms_used': sorted({a for t in theorems for a in build['axioms'].get(t, [])}),
            'leanchecker': build.get('leanchecker'),
            'evaluations': res.evaluations, 'distinct_nontrivial': len(res.cells),
            'rule': runner.RULES.get(args.prop, runner.RULES['default']),
            'histories': res.histories, 'traces_validated_against_impl': res.traces_validated,
            'reply_kinds': res.reply_kinds, 'commands_hit': len(res.cmd_hist),
            'samples': res.samples[:3] or [{'note': 'no history sampled'}],
            'exhaustive': bool(res.exhaustive), 'notes': res.notes[:20],
            'build_wall_s': build.get('wall_s'),
        },
        'assumptions': runner.ASSUMPTIONS.get(args.prop, []) + runner.ASSUMPTIONS['all'],
        'wall_s': round(time.time() - t0, 2), 'violations': violations,
    }
    os.makedirs(os.path.join(VERIF, 'evidence'), exist_ok=True)
    json.dump(ev, open(os.path.join(VERIF, 'evidence', args.prop + '.json'), 'w'), indent=1, default=str)
    for l in lines:
        print(l)
    print('%s %s seed=%d: obligations %d/%d, %d histories, %d events, %d cells, %d violation(s), %.1fs' % (
        args.prop, tier, seed, len(done), obligations, res.histories, res.evaluations, len(res.cells), violations, time.time() - t0))
    return 1 if violations else 0


if __name__ == '__main__':
    try:
        sys.exit(main())
    except SystemExit:
        raise
    except BaseException:
        traceback.print_exc()
        sys.exit(2)
