"""Step 1 and 2 of every check: regenerate FR/Generated from the repository, rebuild the Lean
development, find out which declarations failed, print the axioms of the property theorems."""
import fcntl, hashlib, json, os, re, subprocess, sys, time

VERIF = os.path.dirname(os.path.dirname(os.path.abspath(__file__)))
LEAN = os.path.join(VERIF, 'lean')
ALLOWED_AXIOMS = {'propext', 'Classical.choice', 'Quot.sound'}
FORBIDDEN = re.compile(r'\b(sorry|admit|native_decide|bv_decide|implemented_by)\b|^\s*axiom\s|\bunsafe\s|maxHeartbeats\s+0\b', re.M)


def sh(cmd, cwd=LEAN, timeout=3600):
    p = subprocess.run(cmd, cwd=cwd, stdout=subprocess.PIPE, stderr=subprocess.STDOUT, timeout=timeout)
    return p.returncode, p.stdout.decode('utf-8', 'replace')


def strip_comments(src):
    src = re.sub(r'/-.*?-/', lambda m: '\n' * m.group(0).count('\n'), src, flags=re.S)
    return re.sub(r'--.*', '', src)


def decl_at(path, line):
    """name of the theorem/def whose text contains `line` (nearest preceding declaration)"""
    try:
        lines = open(path).read().split('\n')
    except OSError:
        return None
    ns = []
    name = None
    for i, l in enumerate(lines[:line], 1):
        m = re.match(r'\s*namespace\s+(\S+)', l)
        if m:
            ns.append(m.group(1))
        if re.match(r'\s*end\s+\S+', l) and ns:
            ns.pop()
        m = re.match(r'\s*(?:private\s+)?(?:theorem|lemma|def|example|instance|abbrev)\s+([^\s:({\[]+)?', l)
        if m:
            name = '.'.join(ns + [m.group(1) or 'example'])
    return name


def lean_files(sub):
    out = []
    for root, _, files in os.walk(os.path.join(LEAN, sub)):
        for f in files:
            if f.endswith('.lean'):
                out.append(os.path.join(root, f))
    return sorted(out)


def source_hash():
    h = hashlib.sha256()
    for f in lean_files('FR') + [os.path.join(LEAN, 'Driver.lean'), os.path.join(LEAN, 'ClientDriver.lean'), os.path.join(LEAN, 'lakefile.toml')]:
        h.update(f.encode())
        h.update(open(f, 'rb').read())
    return h.hexdigest()


def ensure_build(theorems, thorough=False, log=print):
    """-> dict(ok, failed: {decl: message}, translator: str, axioms: {thm: [axioms]}, forbidden: [..], wall_s)"""
    t0 = time.time()
    os.makedirs(os.path.join(LEAN, '.lake'), exist_ok=True)
    lock = open(os.path.join(LEAN, '.lake', 'verif.lock'), 'w')
    fcntl.flock(lock, fcntl.LOCK_EX)
    res = {'ok': True, 'failed': {}, 'axioms': {}, 'forbidden': [], 'fatal': None}
    try:
        rc, out = sh(['/venv/bin/python', os.path.join(VERIF, 'tools', 'gen_lean.py')], cwd=VERIF)
        res['translator'] = out.strip()
        if rc != 0:
            res['fatal'] = 'translator crashed: ' + out[-2000:]
            return res
        rc, out = sh(['lake', 'build', 'FR', 'driver', 'clientdriver'])
        if rc != 0:
            res['fatal'] = 'model does not build: ' + out[-3000:]
            return res
        rc, out = sh(['lake', 'build', 'Bridge', 'Props'])
        res['build_log_tail'] = out[-1500:]
        for m in re.finditer(r'^error: (\S+?\.lean):(\d+):(\d+): (.*)$', out, re.M):
            path = os.path.join(LEAN, m.group(1)) if not os.path.isabs(m.group(1)) else m.group(1)
            d = decl_at(path, int(m.group(2))) or ('%s:%s' % (m.group(1), m.group(2)))
            res['failed'].setdefault(d, m.group(4)[:300])
        if rc != 0 and not res['failed']:
            res['failed']['<build>'] = out[-800:]
        # translator failures surface as missing Generated definitions; name them
        for part, status in re.findall(r"'(\w+\.lean)': '(unsupported[^']*)'", res['translator']):
            res['failed']['translator:' + part] = status
        # forbidden tokens
        for f in lean_files('FR') + [os.path.join(LEAN, 'Driver.lean'), os.path.join(LEAN, 'ClientDriver.lean')]:
            for m in FORBIDDEN.finditer(strip_comments(open(f).read())):
                res['forbidden'].append('%s: %s' % (os.path.relpath(f, LEAN), m.group(0).strip()))
        # axioms of the property theorems (cached on the source hash)
        props_ok = not any(k.startswith('FR.Props') or 'Proofs' in k for k in res['failed'])
        cache = os.path.join(LEAN, '.lake', 'axioms.json')
        key = source_hash() + '|' + ','.join(sorted(theorems))
        cached = None
        if os.path.exists(cache):
            try:
                cached = json.load(open(cache))
            except Exception:
                cached = None
        if cached and cached.get('key') == key:
            res['axioms'] = cached['axioms']
        elif theorems and rc == 0 or theorems and props_ok:
            mods = sorted({os.path.relpath(f, LEAN)[:-5].replace('/', '.') for f in lean_files('FR/Props')})
            audit = ''.join('import %s\n' % m for m in mods) + ''.join('#print axioms %s\n' % t for t in sorted(theorems))
            apath = os.path.join(LEAN, '.lake', 'Audit.lean')
            open(apath, 'w').write(audit)
            rc2, out2 = sh(['lake', 'env', 'lean', apath])
            for m in re.finditer(r"'(\S+)' depends on axioms: \[([^\]]*)\]", out2.replace('\n', ' ')):
                res['axioms'][m.group(1)] = [a.strip() for a in m.group(2).split(',') if a.strip()]
            for m in re.finditer(r"'(\S+)' does not depend on any axioms", out2):
                res['axioms'][m.group(1)] = []
            res['audit_errors'] = [l for l in out2.split('\n') if 'error' in l][:20]
            json.dump({'key': key, 'axioms': res['axioms']}, open(cache, 'w'))
        if thorough:
            mods = sorted({os.path.relpath(f, LEAN)[:-5].replace('/', '.') for f in lean_files('FR/Props')})
            rc3, out3 = sh(['lake', 'env', 'leanchecker'] + mods, timeout=3000)
            res['leanchecker'] = {'rc': rc3, 'tail': out3[-500:]}
        return res
    finally:
        res['wall_s'] = round(time.time() - t0, 2)
        fcntl.flock(lock, fcntl.LOCK_UN)
        lock.close()


def obligations_status(build, theorems, bridge):
    """-> (discharged list, undischarged dict name->reason)"""
    done, bad = [], {}
    for t in theorems:
        if t in build['failed']:
            bad[t] = 'proof fails: ' + build['failed'][t]
        elif t not in build['axioms']:
            bad[t] = 'not in the built environment'
        elif not set(build['axioms'][t]) <= ALLOWED_AXIOMS:
            bad[t] = 'uses axioms %s' % (sorted(set(build['axioms'][t]) - ALLOWED_AXIOMS),)
        else:
            done.append(t)
    failed_short = {k.split('.')[-1]: v for k, v in build['failed'].items()}
    for b in bridge:
        hit = [k for k in build['failed'] if k.endswith('.' + b) or k == b]
        tr = [k for k in build['failed'] if k.startswith('translator:')]
        if hit:
            bad['bridge:' + b] = build['failed'][hit[0]]
        elif tr and bridge_file(b) in ' '.join(tr):
            bad['bridge:' + b] = build['failed'][tr[0]]
        else:
            done.append('bridge:' + b)
    if build['forbidden']:
        bad['forbidden-tokens'] = '; '.join(build['forbidden'][:5])
    return done, bad


def bridge_file(b):
    if b.startswith('effects_'):
        return 'Effects.lean'
    if b.startswith('mech_'):
        return 'Mech.lean'
    if b.startswith('locks_'):
        return 'Locks.lean'
    if b.startswith('purity_'):
        return 'Purity.lean'
    if b.startswith('sig') or b.startswith('callArity'):
        return 'Sigs.lean'
    if b.startswith('msg_'):
        return 'Msgs.lean'
    if b.startswith('fix') or b.startswith('checkArity'):
        return 'Pure.lean'
    return 'Consts.lean'
