"""Per-property configuration: proof obligations (Lean theorem names), bridge theorems, scope."""
import gen

F = gen.FAMILY


def sigs(names):
    return ['sig_%s_eq' % n for n in names]


C01_CMDS = F['str'] + F['key'] + F['ttl']
C02_CMDS = F['list'] + F['hash'] + F['set'] + F['sort']
C03_CMDS = F['zset']

PROPS = {
 'C01': dict(scope=set(C01_CMDS), bridge=sigs(C01_CMDS) + ['fixRangeString_eq', 'const_MAX_STRING_SIZE_eq', 'msg_DECR_OVERFLOW_MSG_eq', 'msg_OVERFLOW_MSG_eq', 'msg_INVALID_INT_MSG_eq'],
             theorems=[]),
 'C02': dict(scope=set(C02_CMDS), bridge=sigs(C02_CMDS) + ['fixRange_eq', 'msg_HASH_NOT_INT_MSG_eq', 'msg_HASH_NOT_FLOAT_MSG_eq'], theorems=[]),
 'C03': dict(scope=set(C03_CMDS), bridge=sigs(C03_CMDS) + ['fixRange_eq', 'floatFormats_eq'], theorems=[]),
 'C04': dict(scope=None, bridge=['sigs_eq', 'sigs_same_names', 'checkArity_eq', 'callArity_ok', 'callArity_table',
                                 'msg_WRONG_ARGS_MSG_eq', 'msg_UNKNOWN_COMMAND_MSG_eq'], theorems=[]),
 'C05': dict(scope=None, bridge=sigs(F['tx']) + ['checkArity_eq', 'notQueued_eq', 'msg_EXECABORT_MSG_eq', 'msg_MULTI_NESTED_MSG_eq',
                                                 'msg_WITHOUT_MULTI_MSG_eq', 'msg_WATCH_INSIDE_MULTI_MSG_eq'], theorems=[]),
 'C06': dict(scope=None, bridge=sigs(['watch', 'unwatch', 'exec', 'multi', 'discard', 'move', 'swapdb', 'flushdb', 'flushall']),
             theorems=[]),
 'C07': dict(scope=None, bridge=sigs(F['ttl'] + ['set', 'setex', 'psetex', 'restore', 'getset', 'mset', 'rename', 'move']),
             theorems=[]),
 'C08': dict(scope=None, bridge=['sigs_eq', 'msg_WRONGTYPE_MSG_eq'], theorems=[]),
 'C09': dict(scope=None, bridge=sigs(['dbsize', 'keys', 'scan', 'exists', 'type']), theorems=[]),
 'C10': dict(scope=set(F['pubsub'] + ['ping']), bridge=sigs(F['pubsub']) + ['pubsubAllowed_eq', 'msg_BAD_COMMAND_IN_PUBSUB_MSG_eq'],
             theorems=[]),
 'C11': dict(scope=None, bridge=sigs(['blpop', 'brpop', 'brpoplpush', 'rpush', 'lpush', 'move', 'swapdb']) + ['const_Timeout_eq'], theorems=[]),
 'C12': dict(scope=None, bridge=['sigs_same_names'], theorems=[]),
 'C13': dict(scope=None, bridge=sigs(['select', 'move', 'swapdb', 'flushall', 'flushdb', 'dbsize', 'echo', 'ping', 'time', 'save',
                                      'bgsave', 'lastsave']) + ['const_DbIndex_eq'], theorems=[]),
 'C19': dict(scope=None, bridge=sigs(['eval', 'evalsha', 'script']) + ['msg_NO_MATCHING_SCRIPT_MSG_eq', 'msg_COMMAND_IN_SCRIPT_MSG_eq', 'msg_TOO_MANY_KEYS_MSG_eq', 'msg_NEGATIVE_KEYS_MSG_eq', 'msg_SCRIPT_ERROR_MSG_eq', 'msg_LUA_COMMAND_ARG_MSG_eq', 'msg_LUA_COMMAND_ARG_MSG6_eq', 'msg_GLOBAL_VARIABLE_MSG_eq', 'msg_LUA_WRONG_NUMBER_ARGS_MSG_eq'], theorems=[]),
 'C20': dict(scope=None, bridge=['msg_CONNECTION_ERROR_MSG_eq', 'sigs_same_names'], theorems=[]),
 'C14': dict(scope=None, bridge=sigs(['blpop', 'brpop', 'brpoplpush']) + ['sigs_eq'], theorems=[]),
 'C15': dict(scope=set(F['scan']), bridge=sigs(F['scan']) + ['scanDefaultCount_eq', 'msg_INVALID_CURSOR_MSG_eq',
                                                               'msg_SYNTAX_ERROR_MSG_eq'], theorems=[]),
 'C16': dict(scope=set(['keys', 'scan', 'sscan', 'hscan', 'zscan', 'psubscribe', 'publish']), bridge=sigs(['keys', 'psubscribe']),
             theorems=[]),
 'C17': dict(scope=None, bridge=['sigs_same_names'], theorems=[]),
 'C18': dict(scope=None, bridge=['const_Int_MIN_eq', 'const_Int_MAX_eq', 'const_Int_DECODE_ERROR_eq', 'const_Int_ENCODE_ERROR_eq',
                                 'const_DbIndex_eq', 'const_BitOffset_eq', 'const_BitValue_eq', 'const_Timeout_eq',
                                 'const_Float_DECODE_ERROR_eq', 'const_SortFloat_DECODE_ERROR_eq', 'floatFormats_eq',
                                 'const_MAX_STRING_SIZE_eq'], theorems=[]),
}

# ties of the generic mechanism and of the command classification to the source (Bridge/Mech, Bridge/Effects)
MECH = ['mech_setValue_eq', 'mech_setExpire_eq', 'mech_update_eq', 'mech_updated_eq', 'mech_writeback_eq']
PROPS['C06']['bridge'] += MECH + ['effects_read_commands_write_nothing', 'effects_nowrite_regular_is_read']
PROPS['C07']['bridge'] += MECH + ['mech_expired_eq', 'effects_inplace_keep_setters_away', 'effects_replacing_use_value_setter']
PROPS['C08']['bridge'] += ['mech_writeback_eq', 'effects_regular_bodies_are_pure']
PROPS['C09']['bridge'] += ['mech_writeback_eq', 'mech_truthy_eq']
PROPS['C13']['bridge'] += ['effects_cover_all_commands', 'effects_regular_bodies_are_pure', 'effects_special_bodies_touch_the_server']

# static lock discipline of the socket classes (Generated/Locks, Bridge/Locks; meaning: FR.Props.C12l.disciplined_sound)
PROPS['C12']['bridge'] += ['locks_sync_disciplined', 'locks_async_disciplined', 'locks_tables_meaningful']
PROPS['C14']['bridge'] += ['locks_async_disciplined']
PROPS['C20']['bridge'] += ['locks_sync_disciplined']

# validate-first discipline of the command bodies (Generated/Purity, Bridge/Purity): no body can raise after it changed something
PROPS['C08']['bridge'] += ['purity_bodies_validate_first', 'purity_covers_all_commands']

# commands refused at queue time inside MULTI (fix F37, was KF-1)
for _p in ('C04', 'C05', 'C10'):
    PROPS[_p]['bridge'] += ['notInMulti_eq', 'msg_COMMAND_IN_MULTI_MSG_eq']

# theorem lists are kept in a separate generated-by-hand table so that they can grow without touching the above
try:
    from obligations import OBLIGATIONS
    for k, v in OBLIGATIONS.items():
        if k in PROPS:
            PROPS[k]['theorems'] = list(v)
except ImportError:
    pass
