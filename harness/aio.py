"""C14: asyncio front-end campaigns."""
import random, time
import corr, gen, canon as Cn
import campaigns as Cp

LKEYS = [b'l0', b'l1']


def plan_async(length):
    """1-3 asyncio connections, each on its own database while it may block; producers on other connections;
    requests pipelined behind a blocking pop on at most one connection at a time"""
    def plan(s, rng):
        nc = rng.choice([1, 2, 3])
        consumers = list(range(1, nc + 1))
        producer = nc + 1
        for c in consumers + [producer]:
            yield ('open', c)
        for c in consumers:
            yield ('cmd', c, [b'select', str(c).encode()])
        g = Cp.make_gen(s, rng)
        tok = [0]

        def t():
            tok[0] += 1
            return b'e%d' % tok[0]
        for _ in range(length):
            socks = s.impl.socks
            parked = [c for c in consumers if socks[c]._paused]
            idle = [c for c in consumers if not socks[c]._paused]
            r = rng.random()
            if idle and r < 0.22:
                c = rng.choice(idle)
                k = rng.random()
                to = rng.choice([b'0', b'1', b'2', b'5'])
                if k < 0.6:
                    yield ('cmd', c, [rng.choice([b'blpop', b'brpop'])] + rng.sample(LKEYS, rng.choice([1, 2])) + [to])
                elif k < 0.8:
                    yield ('cmd', c, [b'brpoplpush', rng.choice(LKEYS), rng.choice(LKEYS + [b'dst']), to])
                else:
                    yield ('cmd', c, g.command(rng.choice(['get', 'set', 'lpush', 'llen', 'ping', 'multi', 'exec', 'incr'])))
            elif parked and r < 0.36 and not any(s.pending.get(x) for x in parked if x != parked[0]):
                # pipeline something behind the blocked connection
                c = parked[0]
                yield ('cmd', c, rng.choice([[b'ping'], [b'echo', b'x'], [b'llen', rng.choice(LKEYS)], [b'set', b'k', b'v'], [b'get', b'k'],
                                             [b'nosuch'], [b'lpush', rng.choice(LKEYS), t()]]))
            elif parked and r < 0.46:
                yield ('aadv', rng.choice([0.5, 1.0, 1.1, 2.5, 6.0]))
            else:
                db = rng.choice(consumers)
                k = rng.random()
                if k < 0.25:
                    yield ('cmd', producer, [b'select', str(db).encode()])
                elif k < 0.7:
                    yield ('cmd', producer, [rng.choice([b'rpush', b'lpush']), rng.choice(LKEYS)] + [t() for _ in range(rng.choice([1, 2]))])
                elif k < 0.78:
                    yield ('cmd', producer, [b'set', rng.choice(LKEYS + [b'dst']), b'str'])
                elif k < 0.84:
                    yield ('cmd', producer, [b'del', rng.choice(LKEYS + [b'dst'])])
                elif k < 0.9:
                    yield ('cmd', producer, rng.choice([[b'multi'], [b'exec'], [b'discard']]))
                else:
                    yield ('cmd', producer, g.command(rng.choice(['get', 'llen', 'lrange', 'dbsize', 'swapdb', 'flushdb', 'move', 'expire'])))
        for _ in range(3):
            if any(sk._paused for sk in s.impl.socks.values()):
                yield ('aadv', 10.0)
    return plan


def async_scenarios():
    """small scope, in full: a consumer parks; a producer writes in the SAME turn of the event loop (no slice in between) or one slice later; requests are
    pipelined behind the parked pop; it is then served or times out"""
    import itertools
    blockers = [[b'blpop', b'l0', b'0'], [b'brpop', b'l0', b'l1', b'2'], [b'brpoplpush', b'l0', b'dst', b'0'], [b'blpop', b'l1', b'l0', b'1']]
    behind = [[], [[b'ping']], [[b'llen', b'l0'], [b'lpush', b'l0', b'mine'], [b'get', b'k']], [[b'blpop', b'l1', b'1']], [[b'multi'], [b'incr', b'n'], [b'exec']]]
    feeds = [[[b'rpush', b'l0', b'a']], [[b'rpush', b'l0', b'a', b'b'], [b'rpush', b'l1', b'c']], [[b'rpush', b'l1', b'c']], [[b'multi'], [b'rpush', b'l0', b'a'], [b'exec']], []]
    for blk, bh, feed, same_turn in itertools.product(blockers, behind, feeds, (True, False)):
        def plan(s, rng, blk=blk, bh=bh, feed=feed, same_turn=same_turn):
            yield ('open', 1)
            yield ('open', 2)
            yield ('cmdq' if same_turn else 'cmd', 1, list(blk))
            for f in bh:
                yield ('cmdq' if same_turn else 'cmd', 1, list(f))
            for i, f in enumerate(feed):
                yield ('cmdq' if same_turn and i < len(feed) - 1 else 'cmd', 2, list(f))
            if not feed:
                yield ('aadv', 0.1)
            for _ in range(3):
                if any(sk._paused for sk in s.impl.socks.values()):
                    yield ('aadv', 3.0)
            yield ('cmd', 2, [b'lrange', b'l0', b'0', b'-1'])
            yield ('cmd', 2, [b'lrange', b'l1', b'0', b'-1'])
            if not s.impl.socks[1]._paused:
                yield ('cmd', 1, [b'ping'])
        yield plan


def async_extra_scenarios():
    """(a) writes to OTHER keys while a pop with a timeout waits: the timeout still counts from the moment the pop was sent; (b) a chain of two parked
    consumers: the element moved by the first one's wake-up (inside its task, not inside a command) wakes the second"""
    for blk, gap, n in (([b'blpop', b'l0', b'2'], 1.2, 2), ([b'brpop', b'l0', b'l1', b'1'], 0.4, 3), ([b'brpoplpush', b'l0', b'dst', b'3'], 1.0, 4), ([b'blpop', b'l0', b'1'], 0.6, 2)):
        for other in ([b'set', b'k', b'v'], [b'rpush', b'unrelated', b'x'], [b'del', b'nokey'], [b'incr', b'n']):
            def plan(s, rng, blk=blk, gap=gap, n=n, other=other):
                yield ('open', 1)
                yield ('open', 2)
                yield ('cmd', 1, list(blk))
                yield ('cmdq', 1, [b'ping'])
                for _ in range(n):
                    yield ('aadv', gap)
                    if s.impl.socks[1]._paused:
                        yield ('cmd', 2, list(other))
                yield ('aadv', 0.01)
                yield ('cmd', 2, [b'llen', b'l0'])
                if not s.impl.socks[1]._paused:
                    yield ('cmd', 1, [b'ping'])
            yield plan
    for first, second in (([b'brpoplpush', b'src', b'dst', b'0'], [b'blpop', b'dst', b'0']), ([b'brpoplpush', b'src', b'dst', b'5'], [b'brpop', b'other', b'dst', b'5']),
                          ([b'brpoplpush', b'src', b'mid', b'0'], [b'brpoplpush', b'mid', b'dst', b'0'])):
        for feed in ([[b'rpush', b'src', b'x']], [[b'multi'], [b'rpush', b'src', b'x', b'y'], [b'exec']], [[b'rpush', b'other2', b'z'], [b'lpush', b'src', b'x']]):
            def plan2(s, rng, first=first, second=second, feed=feed):
                for c in (1, 2, 3):
                    yield ('open', c)
                yield ('cmd', 1, list(first))
                yield ('cmd', 2, list(second))
                for f in feed:
                    yield ('cmd', 3, list(f))
                yield ('aadv', 0.01)
                for k in (b'src', b'mid', b'dst'):
                    yield ('cmd', 3, [b'lrange', k, b'0', b'-1'])
                for c in (1, 2):
                    if not s.impl.socks[c]._paused:
                        yield ('cmd', c, [b'ping'])
            yield plan2


def async_spoil_scenarios():
    """the wake-up re-check of a parked BRPOPLPUSH can itself fail (its destination became a non-list while it waited): the error is the one reply of the
    pop, as on the synchronous front-end; the element stays in the source; requests pipelined behind it are answered afterwards"""
    for blk in ([b'brpoplpush', b'l0', b'dst', b'0'], [b'brpoplpush', b'l0', b'dst', b'5']):
        for spoil in ([[b'set', b'dst', b'str']], [[b'sadd', b'dst', b'm']], [[b'multi'], [b'hset', b'dst', b'f', b'v'], [b'rpush', b'l0', b'early'], [b'exec']]):
            for behind in ([], [[b'ping']], [[b'llen', b'l0']]):
                def plan(s, rng, blk=blk, spoil=spoil, behind=behind):
                    yield ('open', 1)
                    yield ('open', 2)
                    yield ('cmd', 1, list(blk))
                    for b in behind:
                        yield ('cmdq', 1, list(b))
                    for f in spoil:
                        yield ('cmd', 2, list(f))
                    yield ('cmd', 2, [b'rpush', b'l0', b'a'])
                    yield ('aadv', 0.01)
                    yield ('cmd', 2, [b'lrange', b'l0', b'0', b'-1'])
                    yield ('cmd', 2, [b'type', b'dst'])
                    if not s.impl.socks[1]._paused:
                        yield ('cmd', 1, [b'ping'])
                yield plan


def async_tx_scenarios():
    """a blocking pop queued in MULTI never waits on the asyncio front-end either: EXEC answers at once (nil for an empty list), the connection is not
    paused, nothing stays registered: a later push stays in its list and requests sent afterwards are answered normally"""
    for blk in ([b'blpop', b'l0', b'0'], [b'brpop', b'l0', b'l1', b'1'], [b'brpoplpush', b'l0', b'dst', b'0'], [b'blpop', b'l1', b'l0', b'5']):
        for pre in ([], [[b'rpush', b'l0', b'x']], [[b'set', b'l0', b'str']], [[b'rpush', b'l1', b'y', b'z']]):
            for extra in ([], [[b'incr', b'n']], [list(blk)]):
                def plan(s, rng, blk=blk, pre=pre, extra=extra):
                    yield ('open', 1)
                    yield ('open', 2)
                    for f in pre:
                        yield ('cmd', 2, list(f))
                    yield ('cmd', 1, [b'multi'])
                    yield ('cmd', 1, list(blk))
                    for f in extra:
                        yield ('cmd', 1, list(f))
                    yield ('cmd', 1, [b'exec'])
                    yield ('cmd', 1, [b'ping'])
                    yield ('cmd', 2, [b'rpush', b'l0', b'later'])
                    yield ('aadv', 0.01)
                    yield ('cmd', 2, [b'lrange', b'l0', b'0', b'-1'])
                    yield ('cmd', 2, [b'lrange', b'dst', b'0', b'-1'])
                    if not s.impl.socks[1]._paused:
                        yield ('cmd', 1, [b'get', b'n'])
                    else:
                        yield ('aadv', 6.0)
                yield plan


def async_one_write_scenarios():
    """a non-transactional pipeline of the asyncio client is ONE write: if its blocking pop has to wait, everything behind it in that write waits too -
    no effect before the pop is answered, replies in request order - exactly as when the requests arrive one by one"""
    writes = [[[b'blpop', b'l0', b'0'], [b'set', b'k', b'v'], [b'ping']],
              [[b'incr', b'n'], [b'brpop', b'l0', b'l1', b'2'], [b'rpush', b'l0', b'mine'], [b'llen', b'l0']],
              [[b'brpoplpush', b'l0', b'dst', b'0'], [b'blpop', b'dst', b'0'], [b'get', b'k']],
              [[b'blpop', b'l0', b'1'], [b'multi'], [b'incr', b'n'], [b'exec']],
              [[b'get', b'k'], [b'set', b'k', b'w'], [b'get', b'k']]]
    feeds = [[[b'rpush', b'l0', b'a']], [[b'set', b'k', b'other'], [b'rpush', b'l0', b'a', b'b']], []]
    for w in writes:
        for feed in feeds:
            def plan(s, rng, w=w, feed=feed):
                yield ('open', 1)
                yield ('open', 2)
                yield ('cmdw', 1, [list(f) for f in w])
                yield ('cmd', 2, [b'get', b'k'])
                yield ('cmd', 2, [b'get', b'n'])
                yield ('cmd', 2, [b'lrange', b'l0', b'0', b'-1'])
                for f in feed:
                    yield ('cmd', 2, list(f))
                for _ in range(3):
                    if any(sk._paused for sk in s.impl.socks.values()):
                        yield ('aadv', 1.5)
                yield ('cmd', 2, [b'get', b'k'])
                yield ('cmd', 2, [b'lrange', b'l0', b'0', b'-1'])
                yield ('cmd', 2, [b'lrange', b'dst', b'0', b'-1'])
                if not s.impl.socks[1]._paused:
                    yield ('cmd', 1, [b'ping'])
            yield plan


def plan_async_tx(length):
    """MULTI/EXEC on the asyncio front-end, with blocking pops (which must not block) and errors inside the queue"""
    def plan(s, rng):
        for c in (1, 2):
            yield ('open', c)
        g = Cp.make_gen(s, rng)
        for _ in range(length):
            c = rng.choice([1, 2])
            if s.impl.socks[c]._paused:
                yield ('aadv', 10.0)
                continue
            r = rng.random()
            if r < 0.2:
                yield ('cmd', c, [b'multi'])
            elif r < 0.4:
                yield ('cmd', c, [b'exec'])
            elif r < 0.45:
                yield ('cmd', c, [b'discard'])
            elif r < 0.6 and s.impl.socks[c]._transaction is not None:
                yield ('cmd', c, rng.choice([[b'blpop', rng.choice(LKEYS), b'0'], [b'brpop', b'l0', b'l1', b'1'], [b'brpoplpush', b'l0', b'l1', b'0']]))
            elif r < 0.7:
                yield ('cmd', c, [b'watch', rng.choice(LKEYS)])
            else:
                f = g.command(rng.choice(['rpush', 'lpush', 'lpop', 'set', 'get', 'incr', 'llen', 'mset', 'hset', 'del', 'expire']))
                if rng.random() < 0.15:
                    f = g.mutate(f)
                yield ('cmd', c, f)
    return plan


def run_async_campaign(res, prop, plan, n_hist, seed, t_end, scope=None, observers=(), plans=None):
    plans = list(plans) if plans is not None else None
    for h in range(len(plans) if plans is not None else n_hist):
        if time.time() > t_end:
            res.notes.append('time budget reached')
            break
        hseed = (seed * 1000003 + h * 7919 + 14) & 0x7fffffff
        rng = random.Random(hseed)
        version = rng.choice([6, 7])
        if plans is not None:
            plan = plans[h]
        s = corr.Session(version, hseed, True, observers, aio=True)
        s.violations = []
        events, div = [], None
        try:
            for ev in plan(s, rng):
                events.append(ev)
                s.step(ev)
        except corr.Divergence as d:
            div = d
        finally:
            s.impl.shutdown()
        res.absorb(s)
        res.cells |= {('aio', e[0], Cn.name_of(e[2]) if e[0] == 'cmd' else '') for e in events}
        if len(res.samples) < 2:
            res.samples.append({'version': version, 'seed': hseed, 'front_end': 'asyncio', 'events': [corr.ev_json(e) for e in events[:25]]})
        if s.violations:
            v = s.violations[0]
            res.add({'kind': 'monitor', 'property': v.prop, 'clause': v.clause, 'detail': v.detail, 'version': version, 'seed': hseed,
                                 'aio': True, 'events': [corr.ev_json(e) for e in events[:v.index + 1]]})
            return
        if div is not None:
            verdict = Cp.judge(div, scope) if div.what in ('reply', 'state', 'crash') else 'violation'
            if verdict == 'out-of-scope':
                continue
            res.add({'kind': 'divergence', 'verdict': verdict, 'what': div.what, 'version': version, 'seed': hseed, 'aio': True,
                                 'events': [corr.ev_json(e) for e in events], 'impl': div.impl_side, 'model': div.model_side,
                                 'at': corr.ev_json(div.event)})
            return
