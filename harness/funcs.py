"""Function-level correspondences (no server state): glob matcher (C16), numeric converters and the
binary64 codec (C18), the request parser (C04/C17)."""
import itertools, math, os, random, re, struct, sys
sys.path.insert(0, os.path.dirname(os.path.abspath(__file__)))
import impl as I
import corr
from model import hx

C = I.C
H = I.H


def redis_glob(p, s):
    """independent Python port of Redis stringmatchlen (nocase=0), bytes compared unsigned"""
    return _sm(p, 0, s, 0)


def _sm(p, pi, s, si):
    plen, slen = len(p), len(s)
    while pi < plen and si < slen:
        c = p[pi]
        if c == 42:  # *
            while pi + 1 < plen and p[pi + 1] == 42:
                pi += 1
            if pi + 1 == plen:
                return True
            while si < slen:
                if _sm(p, pi + 1, s, si):
                    return True
                si += 1
            return False
        elif c == 63:
            si += 1
        elif c == 91:
            pi += 1
            neg = pi < plen and p[pi] == 94
            if neg:
                pi += 1
            match = False
            while True:
                if pi < plen and p[pi] == 92 and pi + 1 < plen:   # patternLen >= 2
                    pi += 1
                    if p[pi] == s[si]:
                        match = True
                elif pi < plen and p[pi] == 93:
                    break
                elif pi >= plen:
                    pi -= 1
                    break
                elif pi + 2 < plen and p[pi + 1] == 45:          # patternLen >= 3
                    a, b = p[pi], p[pi + 2]
                    if a > b:
                        a, b = b, a
                    pi += 2
                    if a <= s[si] <= b:
                        match = True
                else:
                    if p[pi] == s[si]:
                        match = True
                pi += 1
            if neg:
                match = not match
            if not match:
                return False
            si += 1
        elif c == 92:
            if pi + 1 < plen:
                pi += 1
            if p[pi] != s[si]:
                return False
            si += 1
        else:
            if p[pi] != s[si]:
                return False
            si += 1
        pi += 1
        if si == slen:
            while pi < plen and p[pi] == 42:
                pi += 1
            break
    return pi == plen and si == slen


def impl_glob(p, s):
    return H.compile_pattern(p).match(s) is not None


GLOB_PAT_ALPHA = [b'a', b'b', b'*', b'?', b'[', b']', b'^', b'-', b'\\']
GLOB_SUB_ALPHA = [b'a', b'b', b'-', b']', b'^', b'\\', b'*', b'[', b'\n']


def derive_subject(rng, p):
    """a subject that is likely to match: literals copied, `?` and `*` instantiated, a class replaced by one of its bytes"""
    out = bytearray()
    i = 0
    while i < len(p):
        c = p[i]
        i += 1
        if c == 42:
            out += bytes(rng.choice([97, 98, 0x80, 0xff, 10]) for _ in range(rng.choice([0, 0, 1, 2])))
        elif c == 63:
            out.append(rng.choice([97, 120, 0xe9, 10]))
        elif c == 92 and i < len(p):
            out.append(p[i])
            i += 1
        elif c == 91:
            j = i
            while j < len(p) and p[j] != 93:
                j += 2 if p[j] == 92 else 1
            body = [b for b in p[i:j] if b not in (94, 45, 92)] or [97]
            out.append(rng.choice(body))
            i = j + 1
        else:
            out.append(c)
    if rng.random() < 0.3 and out:
        k = rng.randrange(len(out))
        out[k] = rng.choice([out[k] ^ 1, 97, 0xff])
    return bytes(out)


def glob_cases_random(rng, n):
    for p, s0 in _glob_cases_random(rng, n):
        yield p, s0
        d = derive_subject(rng, p)
        if d:
            yield p, d


def _glob_cases_random(rng, n):
    for _ in range(n):
        k = rng.random()
        if k < 0.5:
            p = b''.join(rng.choice(GLOB_PAT_ALPHA) for _ in range(rng.randint(0, 8)))
            s = b''.join(rng.choice(GLOB_SUB_ALPHA) for _ in range(rng.randint(1, 5)))
        elif k < 0.75:
            # ranges and literals over regex metacharacters, punctuation, digits, upper case and high bytes
            rich = [bytes([c]) for c in b'+.$()|{}~ 09AZaz!#,/:;<=>@_`"\'&%'] + [b'[', b']', b'-', b'-', b'^', b'\\', b'*', b'?', b'\x80', b'\xff', b'\xd0\xba']
            p = b''.join(rng.choice(rich) for _ in range(rng.randint(1, 9)))
            if rng.random() < 0.5:
                a, b = rng.choice(rich[:32]), rng.choice(rich[:32])
                p = rng.choice([b'', b'x']) + b'[' + a + b'-' + b + b']' + rng.choice([b'', b'*'])
            s = b''.join(rng.choice(rich[:32] + [b'\x80', b'\xff', b'\xd0', b'\xba']) for _ in range(rng.randint(1, 4)))
        else:
            p = bytes(rng.choice([rng.randrange(256), 42, 63, 91, 93, 92, 94, 45]) for _ in range(rng.randint(0, 10)))
            s = bytes(rng.randrange(256) for _ in range(rng.randint(1, 6)))
        yield p, s


def glob_check(model, cases_by_pattern, out):
    """cases_by_pattern: iterable of (pattern, [subjects]); fills out['evaluations'], returns findings"""
    findings = []
    for p, subjects in cases_by_pattern:
        try:
            rx = H.compile_pattern(p)
        except Exception as e:                       # compiling must never fail
            findings.append({'kind': 'glob', 'verdict': 'violation', 'pattern': p.hex(), 'what': 'compile raised %s' % type(e).__name__})
            continue
        # the regex TEXT is the one the theorems of FR.Props.C16r read (`regex_text_denotes_redis_glob`)
        xl = model.ask('rxtext %s' % hx(p))
        out['evaluations'] += 1
        if not xl.startswith('X ') or bytes.fromhex(xl[2:].strip()) != rx.pattern:
            findings.append({'kind': 'glob', 'verdict': 'unconstrained', 'pattern': p.hex(), 'impl_regex': rx.pattern.hex(), 'model_regex': xl[2:].strip(),
                             'what': 'correspondence:C16:regex-text (the theorems of FR.Props.C16r are about the model text)'})
            if len(findings) >= 3:
                return findings
        line = model.ask('globs %s %s' % (hx(p), ' '.join(hx(x) for x in subjects)))
        _, mbits, rbits = line.split(' ')
        out['evaluations'] += len(subjects)
        for i, sub in enumerate(subjects):
            im = rx.match(sub) is not None
            mo = mbits[i] == '1'
            sp = rbits[i] == '1'
            py = redis_glob(p, sub)
            out['cells'].add((len(p), len(sub), im))
            if sub and (im != sp or im != py):
                findings.append({'kind': 'glob', 'verdict': 'violation', 'pattern': p.hex(), 'subject': sub.hex(),
                                 'impl': im, 'redis_spec_lean': sp, 'redis_port_python': py, 'model': mo})
            elif im != mo:
                findings.append({'kind': 'glob', 'verdict': 'unconstrained' if not sub else 'violation', 'pattern': p.hex(),
                                 'subject': sub.hex(), 'impl': im, 'model': mo, 'what': 'correspondence:C16:matcher'})
            if len(findings) >= 3:
                return findings
    return findings


# ----------------------------------------------------------------------------- numerics
INT_CANDIDATES = [b'0', b'1', b'-1', b'9', b'10', b'-10', b'15', b'16', b'2', b'01', b'-0', b'+1', b' 1', b'1 ', b'', b'-', b'--1',
                  b'1_0', b'1.0', b'1e3', b'0x10', b'a', b'\x001', b'1\x00', b'9223372036854775807', b'9223372036854775808',
                  b'-9223372036854775808', b'-9223372036854775809', b'4294967295', b'4294967296', b'00', b'-01',
                  b'123456789012345678901234567890', b'\xff', b'1\n', b'\t1', b'\xd9\xa1']
FLOAT_BASE = [b'0', b'1', b'-1', b'1.5', b'.5', b'5.', b'1e3', b'1E3', b'1e+3', b'1e-3', b'-0', b'-0.0', b'+1', b'inf', b'-inf',
              b'+inf', b'infinity', b'-Infinity', b'INF', b'nan', b'-nan', b'NaN', b'1e400', b'-1e400', b'1e-400', b'0e400',
              b'0.000e-999', b'1e', b'e3', b'.', b'', b'-', b'+', b'1.2.3', b'1e1.5', b'0x10', b'0x1p3', b'1_0', b'1__0', b'_1',
              b'1_', b'\xd9\xa1', b'1,5', b'1 2', b'abc', b'1a', b'infx', b'in', b'1e309', b'1.7976931348623157e308',
              b'1.7976931348623159e308', b'4.9e-324', b'2.4703282292062328e-324', b'2.4703282292062327e-324',
              b'9007199254740993', b'9007199254740992.5', b'0.1', b'0.30000000000000004', b'123456789012345678901234567890',
              b'1e22', b'1e23', b'8.41e21', b'2.2250738585072014e-308', b'2.2250738585072011e-308', b'00012', b'-00.5e01',
              b'1e0000000000000000000001', b'1e-0', b'.e1', b'5e-325', b'3e-324', b'1' + b'0' * 400, b'0.' + b'0' * 400 + b'1']
DECORATE = [lambda v: v, lambda v: b' ' + v, lambda v: v + b' ', lambda v: b'\t' + v, lambda v: v + b'\n', lambda v: v + b'\x00',
            lambda v: v + b'\x00x', lambda v: b'\x00' + v, lambda v: b'(' + v, lambda v: b'  ' + v, lambda v: v + b'x',
            lambda v: v.upper(), lambda v: b'\x0b' + v, lambda v: v + b'\r',
            # bytes that are white space for Python's str (after a latin-1 / unicode decoding) but not for C's isspace, and the other way round
            lambda v: v + b'\xa0', lambda v: b'\x85' + v, lambda v: b'\xa0' + v + b'\x85', lambda v: b'\x1c' + v, lambda v: v + b'\x1f', lambda v: b'\x1d' + v + b'\x1e',
            lambda v: b'\x0c' + v, lambda v: v + b'\x0c', lambda v: b'\xc2\xa0' + v, lambda v: v + b'\xe2\x80\x83', lambda v: b'\xef\xbb\xbf' + v]


def py_conv(kind, v):
    try:
        if kind == 'int':
            return ('ok', str(C.Int.decode(v)))
        if kind == 'dbindex':
            return ('ok', str(C.DbIndex.decode(v)))
        if kind == 'bitoffset':
            return ('ok', str(C.BitOffset.decode(v)))
        if kind == 'bitvalue':
            return ('ok', str(C.BitValue.decode(v)))
        if kind == 'timeout':
            return ('ok', str(C.Timeout.decode(v)))
        if kind == 'float':
            return ('ok', str(I.dbl_bits(C.Float.decode(v))))
        if kind == 'sortfloat':
            return ('ok', str(I.dbl_bits(C.SortFloat.decode(v))))
        if kind == 'score':
            st = C.ScoreTest.decode(v)
            return ('ok', '%d %s' % (I.dbl_bits(st.value), 'excl' if st.exclusive else 'incl'))
        if kind == 'lex':
            st = C.StringTest.decode(v)
            val = 'before' if isinstance(st.value, C.BeforeAny) else 'after' if isinstance(st.value, C.AfterAny) else 'v' + st.value.hex()
            return ('ok', '%s %s' % (val, 'excl' if st.exclusive else 'incl'))
    except H.SimpleError as e:
        return ('err', e.value.encode().hex())
    raise ValueError(kind)


def model_conv(model, kind, v):
    line = model.ask('conv %s %s' % (kind, hx(v)))
    parts = line.split(' ', 2)
    return (parts[1], parts[2] if len(parts) > 2 else '')


CANON_INT = re.compile(rb'\A(0|-?[1-9][0-9]*)\Z')
STRTOD_DEC = re.compile(rb'\A[+-]?((\d+\.?\d*|\.\d+)([eE][+-]?\d+)?|inf|infinity)\Z', re.I)


def int_spec(v, lo, hi):
    """Redis string2ll: canonical decimal within range"""
    if not CANON_INT.match(v):
        return None
    n = int(v)
    return n if lo <= n <= hi else None


def nan_bits(x):
    return (x >> 52) & 0x7ff == 0x7ff and (x & ((1 << 52) - 1)) != 0


def random_doubles(rng, n):
    specials = [0, 1 << 63, 0x7ff0000000000000, 0xfff0000000000000, 1, (1 << 52) - 1, 1 << 52, 0x7fefffffffffffff,
                0x3ff0000000000000, 0x4340000000000000, 0x4340000000000001, 0x433fffffffffffff, 0x3fb999999999999a,
                0x3fd3333333333334, 0x0010000000000000, 0x000fffffffffffff, 0x7fe0000000000000, 0x4024000000000000,
                0x412e848000000000, 0x3eb0c6f7a0b5ed8d, 0x44b52d02c7e14af6, 0x4415af1d78b58c40]
    for b in specials:
        yield b
    for _ in range(n):
        k = rng.random()
        if k < 0.5:
            yield rng.getrandbits(64)
        elif k < 0.8:
            yield I.dbl_bits(rng.choice([1, -1]) * rng.random() * 10 ** rng.randint(-20, 20))
        else:
            yield I.dbl_bits(float(rng.randint(-10 ** 17, 10 ** 17)) / rng.choice([1, 10, 100, 1000, 3, 7]))
