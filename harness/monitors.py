"""Property monitors: executable judgements of the IMPLEMENTATION's behaviour against the property
statements, independent of the Lean model wherever the property allows it.  Each monitor is an
observer `f(session, ev, name, before, out_i, crash_i)`; it appends to session.violations."""
import impl as I
from impl import RawError
import canon as Cn

SUBFAMILY = {'subscribe', 'psubscribe', 'unsubscribe', 'punsubscribe'}


class Violation:
    def __init__(self, prop, clause, detail, index):
        self.prop, self.clause, self.detail, self.index = prop, clause, detail, index

    def to_json(self):
        return {'property': self.prop, 'clause': self.clause, 'detail': self.detail, 'event_index': self.index}


def add(session, prop, clause, detail):
    if not hasattr(session, 'violations'):
        session.violations = []
    session.violations.append(Violation(prop, clause, detail, session.index))


def well_formed(r):
    if r is None or isinstance(r, (int, bytes, RawError)):
        return not isinstance(r, bool) or True
    if isinstance(r, list):
        return all(well_formed(x) for x in r)
    return False


# ----------------------------------------------------------------------------- C04
def mon_replies(session, ev, name, before, out_i, crash_i):
    """exactly the expected number of replies, well-formed, no foreign exception, connection usable"""
    c, fields = ev[1], ev[2]
    if crash_i is not None:
        add(session, 'C04', 'no_crash', 'exception %s escaped sendall for %r' % (crash_i, fields))
        return
    mine = out_i.get(c, [])
    for k, rs in out_i.items():
        for r in rs:
            if not well_formed(r):
                add(session, 'C04', 'replies_wellformed', 'reply %r to connection %d' % (r, k))
    if not fields:
        return
    n = len(mine)
    nargs = len(fields) - 1
    queued = mine == [b'QUEUED']
    is_err = n == 1 and isinstance(mine[0], RawError)
    if name in SUBFAMILY and not queued and not is_err:
        if name in ('subscribe', 'psubscribe'):
            ok = n == nargs
        elif nargs > 0:
            ok = n == nargs
        else:
            ok = n >= 1
        if not ok:
            add(session, 'C04', 'reply_count', '%s with %d args produced %d replies' % (name, nargs, n))
    elif n != 1:
        # messages published to this very connection arrive on the same queue: count only non-push replies
        pushes = sum(1 for r in mine if isinstance(r, list) and r and r[0] in (b'message', b'pmessage'))
        if n - pushes != 1:
            add(session, 'C04', 'reply_count', '%r produced %d replies' % (fields, n))


# ----------------------------------------------------------------------------- C08
def _data_view(st, now, closed=()):
    # subscriptions of closed connections disappear with the next processed command (deferred close): not a change
    tables = {n: [(ch, [c for c in ids if c not in closed]) for ch, ids in t] for n, t in st['tables'].items()}
    tables = {n: [(ch, ids) for ch, ids in t if ids] for n, t in tables.items()}
    return (I.live_view(st, now), tables)


def mon_error_nochange(session, ev, name, before, out_i, crash_i):
    """an error reply leaves every database, TTL, subscription and the other clients' transaction state as before"""
    c = ev[1]
    mine = out_i.get(c, [])
    if len(mine) != 1 or not isinstance(mine[0], RawError) or before is None:
        return
    after = session.impl.snapshot_struct()
    now = after['now']
    closed = {k for k, x in after['conns'].items() if x['closed']}
    if _data_view(before, now, closed) != _data_view(after, now, closed):
        add(session, 'C08', 'error_changes_nothing',
            'error %r but data changed: before=%s after=%s' % (mine[0].value, I.live_view(before, now), I.live_view(after, now)))
    for k, x in after['conns'].items():
        if k != c and before['conns'].get(k) is not None and not x['closed'] and not before['conns'][k]['closed']:
            b, a = before['conns'][k], x
            if (b['tx'], b['failed'], b['wn'], b['watch']) != (a['tx'], a['failed'], a['wn'], a['watch']):
                add(session, 'C08', 'error_changes_nothing', 'error reply changed transaction state of connection %d' % k)


def mon_exec_inner_errors(session, ev, name, before, out_i, crash_i):
    pass


# ----------------------------------------------------------------------------- C09
TYPE_OF = {'S': b'string', 'L': b'list', 'T': b'set', 'H': b'hash', 'Z': b'zset'}


def probe_views(session):
    """DBSIZE = |KEYS *| = |complete SCAN|, each key EXISTS, has a TYPE and is non-empty — through real
    commands on a throw-away connection with the clock frozen (so that nothing else moves)"""
    im = session.impl
    st = im.snapshot_struct()
    clock = im.clock
    clock.frozen = True
    try:
        for i, ents in I.live_view(st).items():
            sock = im.Sock(im.srv)

            def ask(*f):
                sock.sendall(encode(list(f)))
                q = sock.responses
                out = []
                while not q.empty():
                    out.append(q.get_nowait())
                return out[0] if len(out) == 1 else out
            ask(b'select', str(i).encode())
            dbsize = ask(b'dbsize')
            keys = ask(b'keys', b'*')
            scanned, cur, guard = [], b'0', 0
            while True:
                r = ask(b'scan', cur, b'count', b'3')
                guard += 1
                if not isinstance(r, list) or len(r) != 2 or guard > 10000:
                    add(session, 'C09', 'views_agree', 'SCAN misbehaves in db %d: %r' % (i, r))
                    break
                scanned.extend(r[1])
                cur = r[0] if isinstance(r[0], bytes) else str(r[0]).encode()
                if cur == b'0':
                    break
            stored = [bytes.fromhex(k) for k, v, e in ents]
            if not (dbsize == len(keys) == len(scanned) == len(stored)) or set(keys) != set(scanned) or set(keys) != set(stored) \
                    or len(set(scanned)) != len(scanned):
                add(session, 'C09', 'views_agree', 'db %d: DBSIZE=%r KEYS=%r SCAN=%r stored=%r' % (i, dbsize, keys, scanned, stored))
            for k, v, e in ents:
                kb = bytes.fromhex(k)
                if v[0] != 'S' and len(v) == 1:
                    add(session, 'C09', 'no_empty_collections', 'db %d key %r holds an empty %s' % (i, kb, TYPE_OF.get(v[0])))
                if ask(b'exists', kb) != 1:
                    add(session, 'C09', 'views_agree', 'db %d: stored key %r but EXISTS = 0' % (i, kb))
                t = ask(b'type', kb)
                if t != TYPE_OF.get(v[0]):
                    add(session, 'C09', 'one_type_per_key', 'db %d key %r: TYPE %r but holds %s' % (i, kb, t, v[0]))
    finally:
        clock.frozen = False


def mon_views(session, ev, name, before, out_i, crash_i):
    probe_views(session)


def mon_no_side_effect_keys(session, ev, name, before, out_i, crash_i):
    """a key that appears must be a write target named in the command (reads and no-ops create nothing)"""
    if before is None:
        return
    after = session.impl.snapshot_struct()
    now = after['now']
    fields = ev[2]
    lb, la = I.live_view(before, now), I.live_view(after, now)
    named = {f.hex() for f in fields[1:]}
    if name in ('exec', 'swapdb', 'eval', 'evalsha', 'sort'):
        return
    for i in la:
        old = {k for k, v, e in lb.get(i, [])}
        for k, v, e in la[i]:
            if k not in old and k not in named:
                add(session, 'C09', 'reads_create_nothing', 'key %s appeared in db %d after %r' % (bytes.fromhex(k), i, fields))


def encode(fields):
    out = b'*%d\r\n' % len(fields)
    for f in fields:
        out += b'$%d\r\n%s\r\n' % (len(f), f)
    return out


# ----------------------------------------------------------------------------- C03
def mon_zset_inv(session, ev, name, before, out_i, crash_i):
    """every stored sorted set: byscore strictly ascending by (score, member), both indexes agree, no NaN"""
    import math
    from fakeredis._zset import ZSet
    for i, db in session.impl.srv.dbs.items():
        for k, it in db._dict.items():
            z = it.value
            if isinstance(z, ZSet):
                bs = list(z._byscore)
                if any(math.isnan(s) for s, m in bs):
                    add(session, 'C03', 'zadd_never_nan', 'NaN score stored in %r' % k)
                if any(not (a < b) for a, b in zip(bs, bs[1:])):
                    add(session, 'C03', 'zset_inv', 'byscore of %r not strictly ascending: %r' % (k, bs))
                if sorted((m, s) for s, m in bs) != sorted(z._bylex.items()) or len(set(m for s, m in bs)) != len(bs):
                    add(session, 'C03', 'zset_inv', 'indexes of %r disagree' % k)


# ----------------------------------------------------------------------------- C06
DBWIDE = {'flushdb', 'flushall', 'swapdb'}


def mon_watch(session, ev, name, before, out_i, crash_i):
    """EXEC nil if a watched entry changed since WATCH; EXEC proceeds if no command touched a watched key"""
    if before is None:
        return
    log = session.__dict__.setdefault('watchlog', {})
    after = session.impl.snapshot_struct()
    now = after['now']
    c, fields = ev[1], ev[2]
    lb, la = I.live_view(before, now), I.live_view(after, now)
    lb_then = I.live_view(before)

    def entry(view, d, khex):
        for k, v, e in view.get(d, []):
            if k == khex:
                return (v, e)
        return None
    # judgement for an EXEC issued now (uses the tracking state accumulated BEFORE this event)
    mine = out_i.get(c, [])
    if name == 'exec' and len(mine) == 1 and before['conns'][c]['tx'] != '-':
        track = log.get(c, {})
        r = mine[0]
        if not isinstance(r, RawError):
            watched = before['conns'][c]['watch']
            st = [track.get(w) for w in watched if w in track]
            if r is None:
                if st and not any(x['touched'] or x['tainted'] for x in st):
                    add(session, 'C06', 'untouched_proceeds', 'EXEC aborted although no command addressed %r' % watched)
            else:
                for w in watched:
                    x = track.get(w)
                    if x and x['changed'] and not x['tainted']:
                        add(session, 'C06', 'watched_change_aborts', 'EXEC ran although watched %s changed since WATCH' % w)
    # update tracking with the effect of this event
    named = {f.hex() for f in fields[1:]}
    if name == 'exec':
        named |= session.__dict__.get('queued_args', {}).pop(c, set())
    elif before['conns'][c]['tx'] != '-' and mine == [b'QUEUED']:
        session.__dict__.setdefault('queued_args', {}).setdefault(c, set()).update(named)
        named = set()
    if name == 'discard':
        session.__dict__.get('queued_args', {}).pop(c, None)
    for k, x in after['conns'].items():
        tr = log.setdefault(k, {})
        for w in list(tr):
            if w not in x['watch']:
                del tr[w]
        for w in x['watch']:
            d, khex = w.split('/')
            d = int(d)
            if w not in tr:
                tr[w] = {'changed': False, 'touched': False, 'tainted': False}
                continue
            if entry(lb, d, khex) != entry(la, d, khex):
                tr[w]['changed'] = True
            # an entry that was live before and fell to its deadline: outside the property's premise
            eb = entry(lb_then, d, khex)
            if eb is not None and eb[1] is not None and eb[1] < now:
                tr[w]['tainted'] = True
            if khex in named or name in DBWIDE or (name == 'exec'):
                tr[w]['touched'] = True


# ----------------------------------------------------------------------------- C10
PUBSUB_ALLOWED = {'ping', 'subscribe', 'unsubscribe', 'psubscribe', 'punsubscribe', 'quit'}


def mon_subscriber_gate(session, ev, name, before, out_i, crash_i):
    """while subscribed a client may only issue (P)SUBSCRIBE / (P)UNSUBSCRIBE / PING / QUIT: everything else is answered with an error"""
    if ev[0] != 'cmd' or before is None or crash_i is not None:
        return
    c, fields = ev[1], ev[2]
    st = before['conns'].get(c)
    if not st or not st['pubsub'] or st['tx'] != '-' or st['dead'] or not name or name in PUBSUB_ALLOWED:
        return
    mine = out_i.get(c, [])
    if len(mine) == 1 and isinstance(mine[0], RawError):
        return
    add(session, 'C10', 'subscriber_mode_refuses', 'subscribed connection %d sent %r and got %r instead of an error' % (c, fields, mine))


def mon_pubsub(session, ev, name, before, out_i, crash_i):
    """reference bookkeeping of subscriptions; PUBLISH deliveries and count; acknowledgements"""
    import funcs as Fn
    ref = session.__dict__.setdefault('pubsub_ref', {'ch': {}, 'pat': {}})     # name -> ordered list of conns
    c, fields = ev[1], ev[2]
    if crash_i == 'ConnectionError':
        return     # outage: nothing was executed (C20 judges that)
    if (crash_i is not None and name != 'exec') or (before is not None and before['conns'][c]['dead']):
        return     # an escaped exception is judged by C04; a dead connection is outside this property
    mine = out_i.get(c, [])
    # drop closed connections (their subscriptions disappear with the next processed command)
    closed = session.impl.closed
    for tbl in (ref['ch'], ref['pat']):
        for k in tbl:
            tbl[k] = [x for x in tbl[k] if x not in closed and x in session.impl.socks]
    if before is None or before['conns'][c]['tx'] != '-' and name not in ('exec',):
        return
    if len(mine) == 1 and isinstance(mine[0], RawError):
        return

    def count(conn):
        return sum(1 for t in (ref['ch'], ref['pat']) for v in t.values() if conn in v)

    def do(nm, args, replies, conn):
        """apply one pub/sub command to the reference; returns expected replies to `conn` and pushes to others"""
        exp_self, pushes = [], {}
        if nm in ('subscribe', 'psubscribe'):
            tbl = ref['ch'] if nm == 'subscribe' else ref['pat']
            for a in args:
                lst = tbl.setdefault(a, [])
                if conn not in lst:
                    lst.append(conn)
                exp_self.append([nm.encode(), a, count(conn)])
        elif nm in ('unsubscribe', 'punsubscribe'):
            tbl = ref['ch'] if nm == 'unsubscribe' else ref['pat']
            names = list(args) if args else [k for k, v in tbl.items() if conn in v]
            if not names:
                exp_self.append([nm.encode(), None, count(conn)])
            for a in names:
                if a in tbl and conn in tbl[a]:
                    tbl[a].remove(conn)
                    if not tbl[a]:
                        del tbl[a]
                exp_self.append([nm.encode(), a, count(conn)])
        elif nm == 'publish' and len(args) == 2:
            ch, msg = args
            n = 0
            for k in ref['ch'].get(ch, []):
                pushes.setdefault(k, []).append([b'message', ch, msg])
                n += 1
            for pat, lst in ref['pat'].items():
                if ch and Fn.redis_glob(pat, ch) or (not ch and Fn.impl_glob(pat, ch)):
                    for k in lst:
                        pushes.setdefault(k, []).append([b'pmessage', pat, ch, msg])
                        n += 1
            exp_self.append(n)
        return exp_self, pushes

    if name in ('subscribe', 'psubscribe', 'unsubscribe', 'punsubscribe', 'publish'):
        if name == 'publish' and before['conns'][c]['pubsub'] > 0:
            return
        exp_self, pushes = do(name, fields[1:], mine, c)
        got_self = [r for r in mine if not (isinstance(r, list) and r and r[0] in (b'message', b'pmessage'))] if name == 'publish' else mine
        if name == 'publish':
            pushes_self = pushes.pop(c, [])
            got_push_self = [r for r in mine if isinstance(r, list) and r and r[0] in (b'message', b'pmessage')]
            if got_push_self != pushes_self:
                add(session, 'C10', 'publish_delivery', 'publisher %d itself got %r expected %r' % (c, got_push_self, pushes_self))
        if got_self != exp_self:
            add(session, 'C10', 'acks_or_count', '%r: got %r expected %r' % (fields, got_self, exp_self))
        for k in set(list(pushes) + [x for x in out_i if x != c]):
            if out_i.get(k, []) != pushes.get(k, []):
                add(session, 'C10', 'publish_delivery', 'connection %d got %r expected %r' % (k, out_i.get(k, []), pushes.get(k, [])))
    elif name == 'exec':
        # publications inside MULTI are delivered at EXEC: replay the queued pub/sub commands on the reference
        q = session.__dict__.get('exec_queue', {}).pop(c, [])
        if before['conns'][c]['tx'] == '-' or (len(mine) == 1 and (mine[0] is None or isinstance(mine[0], RawError))):
            return      # no transaction, aborted by WATCH, or EXECABORT: nothing ran
        allp = {}
        has_sub = any(Cn.name_of(qf) in SUBFAMILY for qf in q)
        for qf in q:
            qn = Cn.name_of(qf)
            if qn in SUBFAMILY:
                do(qn, qf[1:], None, c)   # they take effect (and then EXEC crashes: known finding KF-1, judged by C04)
            elif qn == 'publish' and len(qf) == 3 and not has_sub:
                _, pushes = do(qn, qf[1:], None, c)
                for k, v in pushes.items():
                    allp.setdefault(k, []).extend(v)
        if has_sub:
            return
        for k in set(list(allp) + [x for x in out_i if x != c]):
            if k != c and out_i.get(k, []) != allp.get(k, []):
                add(session, 'C10', 'publish_in_multi_delivered_at_exec', 'connection %d got %r expected %r' % (k, out_i.get(k, []), allp.get(k, [])))


def mon_track_queue(session, ev, name, before, out_i, crash_i):
    """remember the raw queued requests per connection (used by the EXEC clauses of other monitors)"""
    c, fields = ev[1], ev[2]
    if crash_i == 'ConnectionError':
        return
    mine = out_i.get(c, [])
    q = session.__dict__.setdefault('exec_queue', {})
    if name == 'multi' and mine == [b'OK']:
        q[c] = []
    elif name == 'discard':
        q.pop(c, None)
    elif mine == [b'QUEUED'] and c in q:
        q[c].append(fields)


# ----------------------------------------------------------------------------- C13
CROSS_DB = {'move', 'swapdb', 'flushall', 'exec', 'eval', 'evalsha'}


def mon_db_frame(session, ev, name, before, out_i, crash_i):
    """a command only reads or writes the database selected on its connection (except MOVE, SWAPDB, FLUSHALL)"""
    if before is None or name in CROSS_DB:
        return
    c = ev[1]
    after = session.impl.snapshot_struct()
    now = after['now']
    lb, la = I.live_view(before, now), I.live_view(after, now)
    d = before['conns'][c]['db']
    for i in set(lb) | set(la):
        if i != d and lb.get(i, []) != la.get(i, []):
            add(session, 'C13', 'frame_other_dbs', '%r on db %d changed db %d' % (ev[2], d, i))


def mon_error_nochange_scripts(session, ev, name, before, out_i, crash_i):
    """C08 for everything except EVAL/EVALSHA themselves (a script may have changed data before it failed)"""
    if name in ('eval', 'evalsha'):
        return
    mon_error_nochange(session, ev, name, before, out_i, crash_i)
