"""Property monitors: executable judgements of the IMPLEMENTATION's behaviour against the property
statements, independent of the Lean model wherever the property allows it.  Each monitor is an
observer `f(session, ev, name, before, out_i, crash_i)`; it appends to session.violations."""
import impl as I
from impl import RawError
import canon as Cn

SUBFAMILY = {'subscribe', 'psubscribe', 'unsubscribe', 'punsubscribe'}


class Violation:
    def __init__(self, prop, clause, detail, index):
        self.prop, self.clause, self.detail, self.index = prop, clause, detail, index

    def to_json(self):
        return {'property': self.prop, 'clause': self.clause, 'detail': self.detail, 'event_index': self.index}


def add(session, prop, clause, detail):
    if not hasattr(session, 'violations'):
        session.violations = []
    session.violations.append(Violation(prop, clause, detail, session.index))


def well_formed(r):
    if r is None or isinstance(r, (int, bytes, RawError)):
        return not isinstance(r, bool) or True
    if isinstance(r, list):
        return all(well_formed(x) for x in r)
    return False


# ----------------------------------------------------------------------------- C04
def mon_replies(session, ev, name, before, out_i, crash_i):
    """exactly the expected number of replies, well-formed, no foreign exception, connection usable"""
    c, fields = ev[1], ev[2]
    if crash_i is not None:
        add(session, 'C04', 'no_crash', 'exception %s escaped sendall for %r' % (crash_i, fields))
        return
    mine = out_i.get(c, [])
    for k, rs in out_i.items():
        for r in rs:
            if not well_formed(r):
                add(session, 'C04', 'replies_wellformed', 'reply %r to connection %d' % (r, k))
    if not fields:
        return
    n = len(mine)
    nargs = len(fields) - 1
    queued = mine == [b'QUEUED']
    is_err = n == 1 and isinstance(mine[0], RawError)
    if name in SUBFAMILY and not queued and not is_err:
        if name in ('subscribe', 'psubscribe'):
            ok = n == nargs
        elif nargs > 0:
            ok = n == nargs
        else:
            ok = n >= 1
        if not ok:
            add(session, 'C04', 'reply_count', '%s with %d args produced %d replies' % (name, nargs, n))
    elif n != 1:
        # messages published to this very connection arrive on the same queue: count only non-push replies
        pushes = sum(1 for r in mine if isinstance(r, list) and r and r[0] in (b'message', b'pmessage'))
        if n - pushes != 1:
            add(session, 'C04', 'reply_count', '%r produced %d replies' % (fields, n))


# ----------------------------------------------------------------------------- C08
def _data_view(st, now):
    return (I.live_view(st, now), st['tables'])


def mon_error_nochange(session, ev, name, before, out_i, crash_i):
    """an error reply leaves every database, TTL, subscription and the other clients' transaction state as before"""
    c = ev[1]
    mine = out_i.get(c, [])
    if len(mine) != 1 or not isinstance(mine[0], RawError) or before is None:
        return
    after = session.impl.snapshot_struct()
    now = after['now']
    if _data_view(before, now) != _data_view(after, now):
        add(session, 'C08', 'error_changes_nothing',
            'error %r but data changed: before=%s after=%s' % (mine[0].value, I.live_view(before, now), I.live_view(after, now)))
    for k, x in after['conns'].items():
        if k != c and before['conns'].get(k) is not None:
            b, a = before['conns'][k], x
            if (b['tx'], b['failed'], b['wn'], b['watch']) != (a['tx'], a['failed'], a['wn'], a['watch']):
                add(session, 'C08', 'error_changes_nothing', 'error reply changed transaction state of connection %d' % k)


def mon_exec_inner_errors(session, ev, name, before, out_i, crash_i):
    pass


# ----------------------------------------------------------------------------- C09
TYPE_OF = {'S': b'string', 'L': b'list', 'T': b'set', 'H': b'hash', 'Z': b'zset'}


def probe_views(session):
    """DBSIZE = |KEYS *| = |complete SCAN|, each key EXISTS, has a TYPE and is non-empty — through real
    commands on a throw-away connection with the clock frozen (so that nothing else moves)"""
    im = session.impl
    st = im.snapshot_struct()
    clock = im.clock
    clock.frozen = True
    try:
        for i, ents in I.live_view(st).items():
            sock = im.Sock(im.srv)

            def ask(*f):
                sock.sendall(encode(list(f)))
                q = sock.responses
                out = []
                while not q.empty():
                    out.append(q.get_nowait())
                return out[0] if len(out) == 1 else out
            ask(b'select', str(i).encode())
            dbsize = ask(b'dbsize')
            keys = ask(b'keys', b'*')
            scanned, cur, guard = [], b'0', 0
            while True:
                r = ask(b'scan', cur, b'count', b'3')
                guard += 1
                if not isinstance(r, list) or len(r) != 2 or guard > 10000:
                    add(session, 'C09', 'views_agree', 'SCAN misbehaves in db %d: %r' % (i, r))
                    break
                scanned.extend(r[1])
                cur = r[0] if isinstance(r[0], bytes) else str(r[0]).encode()
                if cur == b'0':
                    break
            stored = [bytes.fromhex(k) for k, v, e in ents]
            if not (dbsize == len(keys) == len(scanned) == len(stored)) or set(keys) != set(scanned) or set(keys) != set(stored) \
                    or len(set(scanned)) != len(scanned):
                add(session, 'C09', 'views_agree', 'db %d: DBSIZE=%r KEYS=%r SCAN=%r stored=%r' % (i, dbsize, keys, scanned, stored))
            for k, v, e in ents:
                kb = bytes.fromhex(k)
                if v[0] != 'S' and len(v) == 1:
                    add(session, 'C09', 'no_empty_collections', 'db %d key %r holds an empty %s' % (i, kb, TYPE_OF.get(v[0])))
                if ask(b'exists', kb) != 1:
                    add(session, 'C09', 'views_agree', 'db %d: stored key %r but EXISTS = 0' % (i, kb))
                t = ask(b'type', kb)
                if t != TYPE_OF.get(v[0]):
                    add(session, 'C09', 'one_type_per_key', 'db %d key %r: TYPE %r but holds %s' % (i, kb, t, v[0]))
    finally:
        clock.frozen = False


def mon_views(session, ev, name, before, out_i, crash_i):
    probe_views(session)


def mon_no_side_effect_keys(session, ev, name, before, out_i, crash_i):
    """a key that appears must be a write target named in the command (reads and no-ops create nothing)"""
    if before is None:
        return
    after = session.impl.snapshot_struct()
    now = after['now']
    fields = ev[2]
    lb, la = I.live_view(before, now), I.live_view(after, now)
    named = {f.hex() for f in fields[1:]}
    if name in ('exec', 'swapdb', 'eval', 'evalsha', 'sort'):
        return
    for i in la:
        old = {k for k, v, e in lb.get(i, [])}
        for k, v, e in la[i]:
            if k not in old and k not in named:
                add(session, 'C09', 'reads_create_nothing', 'key %s appeared in db %d after %r' % (bytes.fromhex(k), i, fields))


def encode(fields):
    out = b'*%d\r\n' % len(fields)
    for f in fields:
        out += b'$%d\r\n%s\r\n' % (len(f), f)
    return out
