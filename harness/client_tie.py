#!/venv/bin/python
"""Differential tie between the Lean model of client-side reply decoding (lean/FR/Sys/Client.lean, run through
lean/ClientDriver.lean) and the real code: fakeredis._server.FakeConnection.read_response/_decode (sync) and
fakeredis._aioredis2.FakeConnection.read_response/_decode (asyncio), with redis-py's Encoder and CPython's codecs.

Usage:
    cd /repo && /venv/bin/python /tmp/pw/decode/client_tie.py [--n 3000] [--seed 0] [--lean-dir /tmp/pw/decode/lean]
                                                           [--exhaustive] [--keep FILE]

For every generated reply a *server-side result tree* (bytes, int, None, SimpleString, SimpleError, nested lists) is
pushed through the REAL `FakeSocket._decode_result` (which turns SimpleString into bytes and SimpleError into the
exception object made by redis-py's `parse_error`), put on the REAL reply queue of a connection taken from the pool
of a `FakeStrictRedis(decode_responses=…, encoding=…, encoding_errors=…)`, and read back with the REAL
`read_response(disable_decoding=…)`.  The same is done with the asyncio front-end.  Both results are rendered
canonically and compared with the line printed by the model.  Exit status 0 iff all agree.

`--exhaustive` adds: every bulk of length <= 2 and every bulk of length 3 and 4 over 27 representative byte values,
under utf-8 x {strict, replace, ignore} (checks the error spans of the UTF-8 decoder exhaustively per byte class).
"""
import argparse
import asyncio
import itertools
import os
import random
import subprocess
import sys
import tempfile

sys.dont_write_bytecode = True  # never write into the (read-only) repository

sys.path.insert(0, os.environ.get('FR_REPO', '/repo'))

import redis  # noqa: E402
import fakeredis  # noqa: E402
from fakeredis import _aioredis2  # noqa: E402
from fakeredis._helpers import SimpleString, SimpleError  # noqa: E402

ENCODINGS = [('utf8', 'utf-8'), ('latin1', 'latin-1'), ('ascii', 'ascii')]
ERRORS = ['strict', 'replace', 'ignore']


# ---------------------------------------------------------------- generation

def valid_char(rng):
    k = rng.randrange(10)
    if k < 3:
        return chr(rng.randrange(0x20, 0x7f))
    if k == 3:
        return chr(rng.choice([0, 0x7f, 0x80, 0x7ff, 0x800, 0xd7ff, 0xe000, 0xfffd, 0xffff, 0x10000, 0x10ffff]))
    if k < 6:
        return chr(rng.randrange(0x80, 0x800))
    if k < 8:
        c = rng.randrange(0x800, 0x10000)
        while 0xd800 <= c < 0xe000:
            c = rng.randrange(0x800, 0x10000)
        return chr(c)
    return chr(rng.randrange(0x10000, 0x110000))


def invalid_piece(rng):
    k = rng.randrange(9)
    if k == 0:  # lone continuation byte(s)
        return bytes(rng.randrange(0x80, 0xc0) for _ in range(rng.randrange(1, 4)))
    if k == 1:  # truncated sequence
        enc = chr(rng.choice([rng.randrange(0x80, 0x800), rng.randrange(0x800, 0xd800), rng.randrange(0x10000, 0x110000)])).encode()
        return enc[:rng.randrange(1, len(enc))]
    if k == 2:  # overlong forms
        return rng.choice([b'\xc0\x80', b'\xc1\xbf', b'\xc0\xaf', b'\xe0\x80\x80', b'\xe0\x9f\xbf', b'\xe0\x80\xaf',
                           b'\xf0\x80\x80\x80', b'\xf0\x8f\xbf\xbf', b'\xf0\x80\x80\xaf'])
    if k == 3:  # surrogates
        c = rng.randrange(0xd800, 0xe000)
        return bytes([0xe0 | (c >> 12), 0x80 | ((c >> 6) & 0x3f), 0x80 | (c & 0x3f)])
    if k == 4:  # beyond U+10FFFF and 5/6-byte forms
        return rng.choice([b'\xf4\x90\x80\x80', b'\xf4\xbf\xbf\xbf', b'\xf5\x80\x80\x80', b'\xf7\xbf\xbf\xbf',
                           b'\xf8\x88\x80\x80\x80', b'\xfc\x84\x80\x80\x80\x80', b'\xfe', b'\xff'])
    if k == 5:  # lead byte followed by a non-continuation byte
        lead = rng.choice([0xc2, 0xdf, 0xe0, 0xe1, 0xed, 0xef, 0xf0, 0xf1, 0xf4])
        return bytes([lead, rng.choice([0x00, 0x41, 0x7f, 0xc2, 0xe0, 0xf0, 0xff])])
    if k == 6:  # good prefix, bad third / fourth byte
        enc = chr(rng.choice([rng.randrange(0x800, 0xd800), rng.randrange(0x10000, 0x110000)])).encode()
        i = rng.randrange(2, len(enc))
        return enc[:i] + bytes([rng.choice([0x00, 0x41, 0xc2, 0xe1, 0xf1, 0xff])]) + enc[i + 1:]
    if k == 7:  # latin-1 text
        return bytes(rng.randrange(0xa0, 0x100) for _ in range(rng.randrange(1, 5)))
    return bytes(rng.randrange(256) for _ in range(rng.randrange(1, 7)))


def gen_bulk(rng):
    k = rng.randrange(10)
    if k == 0:
        return b''
    if k < 3:
        return bytes(rng.randrange(0x20, 0x7f) for _ in range(rng.randrange(1, 9)))
    if k < 6:
        return ''.join(valid_char(rng) for _ in range(rng.randrange(1, 7))).encode()
    parts = []
    for _ in range(rng.randrange(1, 5)):
        parts.append(invalid_piece(rng) if rng.random() < 0.6 else valid_char(rng).encode())
    return b''.join(parts)


ERR_MESSAGES = [
    'ERR foo', 'ERR', 'ERR ', '', ' ', 'ERR  invalid password', 'WRONGTYPE Operation against a key holding the wrong kind of value',
    'ERR max number of clients reached', 'ERR Client sent AUTH, but no password is set', 'ERR invalid password',
    "ERR wrong number of arguments for 'auth' command", "ERR wrong number of arguments for 'AUTH' command",
    "ERR wrong number of arguments for 'get' command",
    'ERR Error loading the extension. Please check the server logs.',
    "ERR Error unloading module: the module exports one or more module-side data types, can't unload",
    'ERR Error unloading module: no such module with that name', 'ERR Error unloading module: operation not possible.',
    'EXECABORT Transaction discarded because of: unknown command', 'EXECABORT', 'LOADING Redis is loading the dataset in memory',
    'LOADING', 'LOADING ', 'NOSCRIPT No matching script. Please use EVAL.', 'READONLY You can\'t write against a read only replica.',
    'NOAUTH Authentication required.', 'NOPERM this user has no permissions', 'noauth lower case', 'ERRx foo', 'LOADINGx',
    'max number of clients reached', 'ERR invalid password ', 'ERR Invalid password', 'ERR café € \U0001f600', '� LOADING',
    'NOAUTH\tx', 'ERR\tinvalid password',
]


def gen_err(rng):
    if rng.random() < 0.8:
        return rng.choice(ERR_MESSAGES)
    return ''.join(rng.choice(['ERR', 'LOADING', 'NOAUTH', ' ', ' ', 'a', 'invalid password', 'é']) for _ in range(rng.randrange(0, 5)))


def gen_tree(rng, depth, top=True):
    """server-side result tree and its rendering in the model's Reply syntax"""
    k = rng.randrange(100)
    if depth > 0 and k < (45 if top else 25):
        n = rng.choice([0, 1, 1, 2, 2, 3, 3, 4, 5])
        items = [gen_tree(rng, depth - 1, False) for _ in range(n)]
        return [t for t, _ in items], '[' + ','.join(s for _, s in items) + ']'
    if k < 55 or (k < 70 and depth == 0):
        b = gen_bulk(rng)
        return b, 'b:' + b.hex()
    if k < 63:
        b = gen_bulk(rng) if rng.random() < 0.5 else rng.choice([b'OK', b'QUEUED', b'PONG', b'string', b'none'])
        return SimpleString(b), 's:' + b.hex()
    if k < 78:
        n = rng.choice([0, 1, -1, 42, 2 ** 63 - 1, -2 ** 63, rng.randrange(-10 ** 6, 10 ** 6), 10 ** 30])
        return n, 'i:%d' % n
    if k < 86:
        return None, 'nil'
    m = gen_err(rng)
    return SimpleError(m), 'e:' + m.encode('utf-8').hex()


# ---------------------------------------------------------------- the real code

def render(v):
    if v is None:
        return 'nil'
    if isinstance(v, bool):
        return 'BOOL'
    if isinstance(v, int):
        return 'i:%d' % v
    if isinstance(v, bytes):
        return 'b:' + v.hex()
    if isinstance(v, str):
        return 't:' + v.encode('utf-8', 'surrogatepass').hex()
    if isinstance(v, BaseException):
        return 'e:%s:%s' % (type(v).__name__, str(v.args[0]).encode('utf-8').hex())
    if isinstance(v, list):
        return '[' + ','.join(render(x) for x in v) + ']'
    return 'UNKNOWN:%r' % (v,)


def outcome(call):
    try:
        return 'ok ' + render(call())
    except UnicodeDecodeError as e:
        return 'unicode %s %s %d %d %s' % (e.encoding, e.object.hex(), e.start, e.end, e.reason.replace(' ', '_'))
    except redis.ResponseError as e:
        return 'raise %s:%s' % (type(e).__name__, str(e.args[0]).encode('utf-8').hex())


class Real:
    """one sync and one asyncio connection per configuration, on the real classes"""

    def __init__(self, loop):
        self.loop = loop
        self.sync = {}
        self.aio = {}

    def sync_conn(self, cfg):
        if cfg not in self.sync:
            d, enc, errs = cfg
            r = fakeredis.FakeStrictRedis(decode_responses=d, encoding=enc, encoding_errors=errs)
            conn = r.connection_pool.get_connection('_')
            conn.connect()
            assert type(conn) is fakeredis._server.FakeConnection
            self.sync[cfg] = (r, conn)
        return self.sync[cfg][1]

    def aio_conn(self, cfg):
        if cfg not in self.aio:
            d, enc, errs = cfg
            r = _aioredis2.FakeRedis(decode_responses=d, encoding=enc, encoding_errors=errs)

            async def get():
                conn = await r.connection_pool.get_connection('_')
                if not conn.is_connected:
                    await conn.connect()
                return conn
            conn = self.loop.run_until_complete(get())
            assert type(conn) is _aioredis2.FakeConnection
            self.aio[cfg] = (r, conn)
        return self.aio[cfg][1]

    def run_sync(self, cfg, disable, tree):
        conn = self.sync_conn(cfg)
        sock = conn._sock
        sock.put_response(sock._decode_result(tree))          # real _decode_result + real queue
        return outcome(lambda: conn.read_response(disable_decoding=disable))

    def run_sync_direct(self, cfg, tree):
        """`_decode` called directly (no top-level raise, no disable_decoding)"""
        conn = self.sync_conn(cfg)
        return outcome(lambda: conn._decode(conn._sock._decode_result(tree)))

    def run_aio(self, cfg, disable, tree):
        conn = self.aio_conn(cfg)
        sock = conn._sock
        sock.put_response(sock._decode_result(tree))
        return outcome(lambda: self.loop.run_until_complete(conn.read_response(disable_decoding=disable)))

    def run_aio_direct(self, cfg, tree):
        conn = self.aio_conn(cfg)
        return outcome(lambda: conn._decode(conn._sock._decode_result(tree)))


# ---------------------------------------------------------------- main

LEAN_DIR = os.path.join(os.path.dirname(os.path.dirname(os.path.abspath(__file__))), 'lean')


class _Args:
    pass


def tie(n=3000, seed=0, exhaustive=False, keep=None, lean_dir=LEAN_DIR):
    """-> dict(rc, tests, disagreements, first, stats): rc 0 all agree, 1 disagreement, 2 the model driver failed"""
    args = _Args()
    args.n, args.seed, args.exhaustive, args.keep, args.lean_dir = n, seed, exhaustive, keep, lean_dir
    out = {'rc': 2, 'tests': 0, 'disagreements': 0, 'first': None, 'stats': {}}
    rng = random.Random(args.seed)

    tests = []  # (cfg_token, cfg, disable, tree, reply_text)
    all_cfgs = [(d, e, h) for d in (True, False) for e in ENCODINGS for h in ERRORS]
    on_cfgs = [c for c in all_cfgs if c[0]]
    for i in range(args.n):
        tree, text = gen_tree(rng, 4)
        chosen = [(c, False) for c in on_cfgs]                       # every decoding configuration
        chosen.append((rng.choice([c for c in all_cfgs if not c[0]]), False))   # decode_responses=False
        chosen.append((rng.choice(on_cfgs), True))                   # disable_decoding=True
        chosen.append((rng.choice(all_cfgs), rng.random() < 0.5))
        for cfg, disable in chosen:
            tests.append((cfg, disable, tree, text))
    if args.exhaustive:
        reps = [0x00, 0x41, 0x7f, 0x80, 0x8f, 0x90, 0x9f, 0xa0, 0xbf, 0xc0, 0xc1, 0xc2, 0xdf, 0xe0, 0xe1, 0xec, 0xed, 0xee,
                0xef, 0xf0, 0xf1, 0xf3, 0xf4, 0xf5, 0xf7, 0xf8, 0xff]
        bulks = [b''] + [bytes([a]) for a in range(256)] + [bytes([a, b]) for a in range(256) for b in range(256)]
        bulks += [bytes(t) for t in itertools.product(reps, repeat=3)]
        bulks += [bytes(t) for t in itertools.product(reps, repeat=4) if t[0] >= 0xc0]
        for b in bulks:
            for h in ERRORS:
                tests.append(((True, ENCODINGS[0], h), False, b, 'b:' + b.hex()))

    def token(cfg):
        d, (ename, _), h = cfg
        return '%d,%s,%s' % (1 if d else 0, ename, h)

    lines = ['%s %d %s' % (token(cfg), 1 if disable else 0, text) for cfg, disable, _, text in tests]
    with tempfile.NamedTemporaryFile('w', suffix='.in', delete=False) as f:
        f.write('\n'.join(lines) + '\n')
        inp = f.name
    try:
        with open(inp) as fin:
            exe = os.path.join(args.lean_dir, '.lake', 'build', 'bin', 'clientdriver')
            cmd = [exe] if os.path.exists(exe) else ['lake', 'env', 'lean', '--run', 'ClientDriver.lean']
            proc = subprocess.run(cmd, cwd=args.lean_dir, stdin=fin, stdout=subprocess.PIPE, stderr=subprocess.PIPE, text=True)
    finally:
        os.unlink(inp)
    if proc.returncode != 0:
        out['first'] = 'model driver failed: ' + proc.stderr[:2000]
        return out
    model = proc.stdout.split('\n')
    if model and model[-1] == '':
        model.pop()
    if len(model) != len(lines):
        out['first'] = 'model driver printed %d lines for %d tests' % (len(model), len(lines))
        return out

    loop = asyncio.new_event_loop()
    real = Real(loop)
    keep = open(args.keep, 'w') if args.keep else None
    bad = 0
    stats = {'ok': 0, 'unicode': 0, 'raise': 0}
    for (cfg, disable, tree, text), line, m in zip(tests, lines, model):
        pycfg = (cfg[0], cfg[1][1], cfg[2])
        got = [('sync read_response', real.run_sync(pycfg, disable, tree)),
               ('asyncio read_response', real.run_aio(pycfg, disable, tree))]
        if not disable and not isinstance(tree, SimpleError):
            got.append(('sync _decode', real.run_sync_direct(pycfg, tree)))
            got.append(('asyncio _decode', real.run_aio_direct(pycfg, tree)))
        stats[m.split(' ')[0]] = stats.get(m.split(' ')[0], 0) + 1
        if keep:
            keep.write('%s\n  model: %s\n  real:  %s\n' % (line, m, got[0][1]))
        for name, g in got:
            if g != m:
                if bad == 0:
                    out['first'] = {'front_end': name, 'test': line, 'model': m, 'real': g}
                bad += 1
    # queues must be drained: every read consumed exactly the reply put
    for _, conn in list(real.sync.values()) + list(real.aio.values()):
        assert conn._sock.responses.empty()
    loop.close()
    out.update(rc=0 if bad == 0 else 1, tests=len(tests), disagreements=bad, stats=stats, sample=lines[:2])
    return out


def main():
    ap = argparse.ArgumentParser()
    ap.add_argument('--n', type=int, default=3000)
    ap.add_argument('--seed', type=int, default=0)
    ap.add_argument('--lean-dir', default=LEAN_DIR)
    ap.add_argument('--exhaustive', action='store_true')
    ap.add_argument('--keep', default=None, help='write the test lines and both outputs to this file')
    a = ap.parse_args()
    r = tie(a.n, a.seed, a.exhaustive, a.keep, a.lean_dir)
    if r['first']:
        print('DISAGREEMENT' if r['rc'] == 1 else 'ERROR', r['first'])
    print('%d tests (%d replies, seed %d%s): %d disagreements; model outcomes: %s'
          % (r['tests'], a.n, a.seed, ', exhaustive' if a.exhaustive else '', r['disagreements'], r['stats']))
    return r['rc']


if __name__ == '__main__':
    sys.exit(main())
