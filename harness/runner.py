"""What each property's check runs (step 3 and 4)."""
import json, os, random, sys, time
HERE = os.path.dirname(os.path.abspath(__file__))
VERIF = os.path.dirname(HERE)
sys.path.insert(0, HERE)
import campaigns as Cp
import monitors as Mn
import funcs as Fn
import corr, gen, canon as Cn
import impl as I
from props import PROPS

TRUSTED_BASE = [
    'Lean 4.33.0 kernel (thorough tier: re-checked by leanchecker)',
    'axioms: at most propext, Classical.choice, Quot.sound (printed per theorem by #print axioms); no native_decide/bv_decide/sorry',
    'translator tools/gen_lean.py (signature table, message/converter constants, literal command lists, _fix_range*, check_arity, CommandItem / Database.expired '
    'statement by statement, effect atoms per command) with tools/gen_locks.py (lock status of every shared access and call edge of the socket classes) and '
    'tools/gen_purity.py (raises that can follow a change, per command body): conservative syntactic analyses of the Python AST',
    'correspondence harness /verif/harness (logical clock, recorded random picks, canonicalisation of set-ordered replies and DUMP payloads)',
    'hand-written executable Lean model FR.* of the command semantics: validated against the code by the correspondence, not verified',
    'CPython (int/float parsing and formatting, slicing, dict/set, pickle, sha1, random), sortedcontainers, redis-py: modelled, not verified; re: assumed to implement '
    'textbook regular-expression semantics on the fragment compile_pattern emits (the emitted text is compared, its meaning is proved)',
]
ASSUMPTIONS = {
    'all': ['requests are syntactically valid RESP arrays of bulk strings', 'EXPIRE-family arguments within +-10^6 s of the logical clock '
            '(float rounding of larger values is not modelled)', 'command names are ASCII (Unicode case folding of names is not modelled)'],
}
RULES = {
    'default': 'structured random histories from per-command templates (mostly-valid pools + malformed stream), executed on the real '
               'FakeSocket objects and on the Lean model; a case is a distinct (command, reply kind) cell observed on the implementation',
    'C16': 'glob (pattern, subject) pairs: random over the metacharacter alphabet and random binary; thorough enumerates all patterns up '
           'to length 4 over {a b * ? [ ] ^ - \\} x all subjects of length 1..3 over {a b - ] ^ \\}; distinct cell = (|pattern|, |subject|, verdict)',
}


from kf import load_known_findings, match_known, replay_known, KF_PREDICATES


# ----------------------------------------------------------------------------- per-property runs
def budget(tier, quick, thorough):
    return quick if tier == 'quick' else thorough


def run(prop, tier, seed, undischarged):
    res = Cp.Result()
    res.prop = prop
    t_end = time.time() + (budget(tier, 150, 1500))
    run_corpus(res, prop, seed)
    if res.findings:
        return res
    fn = RUNNERS[prop]
    fn(res, tier, seed, t_end, undischarged)
    return res


def run_corpus(res, prop, seed):
    """histories that exposed a (seeded or genuine) defect once are replayed first, in both emulated versions"""
    d = os.path.join(VERIF, 'corpus', prop)
    if not os.path.isdir(d):
        return
    n = 0
    for fn in sorted(os.listdir(d)):
        try:
            rec = json.load(open(os.path.join(d, fn)))
            evs = [corr.ev_from_json(e) for e in rec['events']]
        except Exception as e:      # noqa
            res.notes.append('corpus entry %s unreadable: %r' % (fn, e))
            continue
        for version in sorted({rec.get('version', 7), 6, 7}):
            s, dv = Cp.replay_events(evs, version, rec.get('seed', 0), OBSERVERS.get(prop, ()))
            res.absorb(s)
            n += 1
            for v in s.violations:
                if res.add({'kind': 'monitor', 'property': v.prop, 'clause': v.clause, 'detail': v.detail, 'corpus': fn, 'version': version, 'seed': rec.get('seed', 0),
                            'events': rec['events']}):
                    return
            if dv is not None and Cp.judge(dv, None) != 'out-of-scope':
                if res.add({'kind': 'divergence', 'verdict': Cp.judge(dv, None), 'what': dv.what, 'corpus': fn, 'version': version, 'seed': rec.get('seed', 0),
                            'events': rec['events'], 'impl': dv.impl_side, 'model': dv.model_side, 'at': corr.ev_json(dv.event)}):
                    return
    res.notes.append('corpus: %d regression histories replayed' % n)
    res.cells.add(('corpus', n > 0))


def run_C16(res, tier, seed, t_end, bad):
    m = corr.get_model(7)
    out = {'evaluations': 0, 'cells': set()}
    rng = random.Random(seed * 7 + 16)
    cases = {}
    for p, s in Fn.glob_cases_random(rng, budget(tier, 6000, 60000)):
        cases.setdefault(p, []).append(s)
    corpus = [(b'h[a-c]*o', [b'hbllo', b'hdllo']), (b'[^a]?\\*', [b'bc*', b'ac*']), (b'[', [b'a', b'[']), (b'k\\', [b'k\\', b'k']),
              (b'[]', [b'a', b'\n']), (b'a[]', [b'a\n', b'a']), (b'[^]', [b'a', b'\n']), (b'a?', [b'a\n']), (b'a*', [b'a\n\n']), (b'[a-', [b'a', b'-']), (b'*', [b'', b'x']), (b'**a', [b'a', b'ba']), (b'[\\', [b'\\'])]
    res.findings.extend(Fn.glob_check(m, corpus + sorted(cases.items()), out))
    if tier == 'thorough' and not res.findings:
        import itertools
        subs = [b''.join(t) for n in (1, 2, 3) for t in itertools.product(Fn.GLOB_SUB_ALPHA, repeat=n)]
        maxlen = 4
        pats = ((b''.join(t), subs) for n in range(0, maxlen + 1) for t in itertools.product(Fn.GLOB_PAT_ALPHA, repeat=n))
        res.findings.extend(Fn.glob_check(m, pats, out))
        res.exhaustive = True
        res.notes.append('exhaustive: all patterns of length <= %d over 9 symbols x %d subjects' % (maxlen, len(subs)))
    res.evaluations += out['evaluations']
    res.cells |= out['cells']
    res.samples.append({'pattern': 'h[a-c]*o', 'subject': 'hbllo', 'impl': Fn.impl_glob(b'h[a-c]*o', b'hbllo'),
                        'python_port_of_stringmatchlen': Fn.redis_glob(b'h[a-c]*o', b'hbllo')})
    # the users of the matcher with patterns that contain sets and escapes, published to literally
    if not res.findings:
        pats = [b'ch[1]', b'a\\*b', b'[ab', b'h[0-9]', b'c?1', b'k\\', b'\\**', b'ab\\**d', b'[^a]*', b'x[a-c]y', b'*', b'[]', b'[^]']
        cases = []
        for p in pats:
            chans = [p, b'ch1', b'a*b', b'axb', b'*x', b'ab*zzd', b'ab*d', b'h5', b'xby', b'k\\', b'[ab', b'a']
            cases.append([('open', 2), [b'set', p, b'1'], [b'set', b'ch1', b'1'], [b'set', b'ab*d', b'1'], [b'set', b'*x', b'1'], [b'keys', p], [b'scan', b'0', b'match', p],
                          ('cmd', 2, [b'psubscribe', p])] + [[b'publish', c, b'm'] for c in chans])
        Mx.run_cases(res, 'C16', cases, tier, seed, t_end, 100, TRACK + (Mn.mon_pubsub,), PROPS['C16']['scope'], label='pubsub-glob')
    # the users of the matcher: KEYS, SCAN MATCH, PSUBSCRIBE delivery through the whole stack
    if not res.findings:
        plan = Cp.plan_multi(['pubsub', 'key', 'scan', 'str', 'set', 'hash'], budget(tier, 40, 80), churn=False)
        Cp.run_campaign(res, 'C16', plan, budget(tier, 25, 250), seed, PROPS['C16']['scope'], deadline=t_end)


import matrices as Mx


def matrix_pre(res, prop, tier, seed, t_end, specs, observers=(), watcher=False):
    for label, cases, sample in specs:
        if res.findings:
            return
        Mx.run_cases(res, prop, cases(), tier, seed, t_end, sample, observers, PROPS[prop]['scope'] if label not in ('ttl-rules', 'missing-keys', 'floats', 'sets', 'lists', 'zsets', 'set-options', 'sort', 'all-types', 'dump-restore', 'server-commands', 'subscriber-mode', 'pubsub-glob', 'pubsub-server', 'late-errors', 'glob-users', 'strings', 'scan-filters') or prop in ('C01', 'C02', 'C03') and label in ('sets', 'lists', 'zsets', 'set-options', 'sort') else None,
                     label=label, watcher=watcher)


def generic(prop, plan_q, plan_t, n_q, n_t, observers=(), versions=(6, 7), pre=None):
    def fn(res, tier, seed, t_end, bad):
        if pre:
            pre(res, tier, seed, t_end, bad)
            if res.findings:
                return
        plan = plan_q if tier == 'quick' else plan_t
        Cp.run_campaign(res, prop, plan, budget(tier, n_q, n_t), seed, PROPS[prop]['scope'], observers, versions, deadline=t_end)
    return fn


TRACK = (Mn.mon_track_queue,)
OBSERVERS = {
    'C03': (Mn.mon_zset_inv,), 'C04': (Mn.mon_replies,), 'C06': TRACK + (Mn.mon_watch,), 'C08': (Mn.mon_error_nochange,),
    'C09': (Mn.mon_views, Mn.mon_no_side_effect_keys), 'C10': TRACK + (Mn.mon_pubsub, Mn.mon_subscriber_gate), 'C13': (Mn.mon_db_frame,),
}


# ---- C04: three streams -------------------------------------------------------------------
def run_C04(res, tier, seed, t_end, bad):
    obs = OBSERVERS['C04']
    allf = [f for f in gen.FAMILY]
    Cp.run_campaign(res, 'C04', Cp.plan_single(allf, 50, mutate=0.3), budget(tier, 40, 600), seed, None, obs, deadline=t_end)
    Cp.run_campaign(res, 'C04', Cp.plan_multi(['tx', 'pubsub', 'str', 'list', 'set', 'zset', 'hash', 'server', 'scan'], 60, mutate=0.2),
                    budget(tier, 25, 400), seed + 1, None, obs, deadline=t_end)
    Cp.run_campaign(res, 'C04', Cp.plan_chunked(['str', 'list', 'tx', 'hash', 'key', 'pubsub']), budget(tier, 60, 1500), seed + 2, None, obs,
                    deadline=t_end)
    if not res.findings:
        parser_function_level(res, tier, seed)
    if not res.findings:
        import aio
        aio.run_async_campaign(res, 'C04', None, 0, seed + 7, t_end, None, obs, plans=aio.async_one_write_scenarios())
        if not res.findings:
            aio.run_async_campaign(res, 'C04', aio.plan_async(60), budget(tier, 12, 300), seed + 3, t_end, None, obs)
    if not res.findings:
        matrix_pre(res, 'C04', tier, seed, t_end, [('server-commands', Mx.server_cases, 2000)], obs)
    if not res.findings:
        # "any command, any number of arguments, any argument bytes": the option grammar of every command family in full (each of these matrices
        # belongs to the property that judges the replies; here they run under the reply-count / well-formedness / no-crash monitor)
        matrix_pre(res, 'C04', tier, seed, t_end, [('late-errors', Mx.late_error_cases, 450), ('glob-users', Mx.glob_crash_cases, 700), ('set-options', Mx.set_option_cases, 700), ('zsets', Mx.zsets_cases, 6000),
                                                   ('lists', Mx.lists_cases, 2200), ('sets', Mx.sets_cases, 120), ('strings', Mx.strings_cases, 2400),
                                                   ('sort', Mx.sort_cases, 600), ('scan-filters', Mx.scan_filter_cases, 400), ('ttl-rules', Mx.ttl_cases, 300),
                                                   ('floats', Mx.floats_cases, 300)], obs)
    if not res.findings:
        # what redis-py really writes to the socket (memoryview arguments travel as chunks of their own)
        import clientlevel
        clientlevel.run_C17(res, tier, seed, t_end, only_buffers=True, prop='C04')


def parser_function_level(res, tier, seed):
    """the model's parser against the implementation's generator on arbitrary argument bytes and arbitrary chunkings"""
    rng = random.Random(seed * 31 + 4)
    m = corr.get_model(7)
    from model import hx
    for i in range(budget(tier, 150, 3000)):
        reqs = [[bytes(rng.choice([rng.randrange(256), 13, 10, 0, 36, 42]) for _ in range(rng.choice([0, 1, 2, 5, 30])))
                 for _ in range(rng.randint(0, 5))] for _ in range(rng.randint(1, 4))]
        stream = b''.join(corr.encode_request(r) for r in reqs)
        cutpos = rng.randint(0, len(stream))
        prefix = stream[:cutpos]
        line = m.ask('encreq %s' % hx(prefix))
        body = line[2:]
        parsed_txt, _, rest_txt = body.partition(' | ')
        parsed = [([] if r == '-' else [bytes.fromhex(f) if f != '_' else b'' for f in r.split(',')]) for r in parsed_txt.split(';')] if parsed_txt else []
        # implementation: feed the prefix to a real socket in random chunks, record what _process_command receives
        im = I.Impl(7, seed)
        got = []
        sock = im.Sock(im.srv)
        sock._process_command = lambda fields: got.append(list(fields))
        k = rng.randint(0, min(6, len(prefix)))
        cuts = sorted(rng.sample(range(len(prefix) + 1), k))
        try:
            for a, b in zip([0] + cuts, cuts + [len(prefix)]):
                if b > a:
                    sock.sendall(prefix[a:b])
        except BaseException as e:   # noqa
            res.add({'kind': 'parser', 'verdict': 'violation', 'stream': prefix.hex(), 'cuts': cuts,
                                 'what': 'exception %s escaped sendall while the stream was written in chunks %r' % (type(e).__name__, cuts)})
            return
        res.evaluations += 1
        res.cells.add(('parser', len(reqs), min(len(got), 4), cutpos == len(stream)))
        if got != parsed:
            res.add({'kind': 'parser', 'verdict': 'violation', 'stream': prefix.hex(), 'impl': repr(got), 'model': repr(parsed),
                                 'what': 'requests extracted from the byte stream differ'})
            return
        complete = [r for r in reqs]
        if cutpos == len(stream) and got != complete:
            res.add({'kind': 'parser', 'verdict': 'violation', 'stream': prefix.hex(), 'impl': repr(got),
                                 'what': 'complete stream not parsed back to the encoded requests (binary safety)'})
            return


# ---- C07: expiry ---------------------------------------------------------------------------
def plan_ttl(length):
    base = Cp.plan_single(['ttl', 'str', 'key', 'list', 'hash', 'set', 'zset', 'server'], 0)
    ttl_cmds = gen.FAMILY['ttl'] + ['set', 'setex', 'psetex', 'getset', 'append', 'incr', 'lpush', 'sadd', 'rename', 'move', 'persist', 'restore',
                                    'dump', 'mset', 'sunionstore', 'sort', 'multi', 'exec', 'select', 'ttl', 'pttl', 'get', 'exists', 'type']
    others = sorted(set(sum([gen.FAMILY[f] for f in ('str', 'key', 'list', 'hash', 'set', 'zset', 'scan')], [])))

    def plan(s, rng):
        yield from base(s, rng)
        g = Cp.make_gen(s, rng)
        for _ in range(length):
            r = rng.random()
            if r < 0.18:
                # land just before / just after an outstanding deadline
                st = s.impl.snapshot_struct()
                ds = sorted({e for ents in st['dbs'].values() for k, v, e in ents if e is not None and e > st['now']})
                if ds and rng.random() < 0.8:
                    d = rng.choice(ds)
                    now = I.BASE + s.impl.clock.adv + 2 * s.impl.clock.n
                    ms = (d - now) // 10000 + rng.choice([-2, -1, 0, 1, 2])
                    if ms > 0:
                        yield ('adv', ms)
                        continue
                yield ('adv', rng.choice([1, 999, 1000, 1001, 1500, 10000]))
            else:
                name = rng.choice(ttl_cmds) if rng.random() < 0.7 else rng.choice(others)
                yield ('cmd', 1, g.command(name))
    return plan


def twin_expired_deleted(res, tier, seed, t_end):
    """metamorphic monitor on the implementation alone: command c after a key's deadline == c after DEL of that key"""
    rng = random.Random(seed * 131 + 7)
    names = [n for n in gen.ALL_MODELLED if n not in gen.FAMILY['pubsub'] + gen.FAMILY['tx'] + ['randomkey', 'spop', 'srandmember', 'time',
                                                                                             'lastsave', 'save', 'bgsave', 'sort']]
    n_pairs = budget(tier, 400, 12000)
    done = 0
    while done < n_pairs and time.time() < t_end:
        ver = rng.choice([6, 7])
        key = rng.choice(gen.ALLKEYS)
        setup = [list(f) for f in gen.SEED_COMMANDS]
        ttl_ms = rng.choice([1, 10, 1500])
        setup.append([b'pexpire', key, str(ttl_ms).encode()])
        g = gen.Gen(rng, now_ticks=lambda: I.BASE)
        g.last_key = key
        probes = []
        for _ in range(6):
            f = g.command(rng.choice(names))
            if rng.random() < 0.6 and len(f) > 1:
                f[1] = key
            probes.append(f)
        outs = []
        for twin in ('expired', 'deleted'):
            im = I.Impl(ver, seed=1)
            im.open(1)
            for f in setup:
                im.send(1, corr.encode_request(f))
            if twin == 'deleted':
                im.clock.frozen = True
                im.send(1, corr.encode_request([b'del', key]))
                im.clock.frozen = False
            im.clock.advance_ms(ttl_ms + 1)
            rs = []
            for f in probes:
                o, crash, _, _ = im.send(1, corr.encode_request(f))
                rs.append((repr([Cn.canon(Cn.name_of(f), Cn.from_impl(x), None, True) for x in o.get(1, [])]), crash,
                           repr(I.live_view(im.snapshot_struct()))))
            outs.append(rs)
        done += len(probes)
        res.evaluations += 2 * (len(setup) + len(probes))
        res.cells.add(('twin', Cn.name_of(probes[0]), key))
        if outs[0] != outs[1]:
            i = next(j for j in range(len(probes)) if outs[0][j] != outs[1][j])
            res.add({'kind': 'twin', 'verdict': 'violation', 'property': 'C07', 'clause': 'expired_eq_deleted', 'version': ver,
                                 'key': key.hex(), 'setup': [[x.hex() for x in f] for f in setup], 'probes': [[x.hex() for x in f] for f in probes[:i + 1]],
                                 'expired_twin': outs[0][i], 'deleted_twin': outs[1][i]})
            return


def run_C07(res, tier, seed, t_end, bad):
    matrix_pre(res, 'C07', tier, seed, t_end, [('ttl-rules', Mx.ttl_cases, 3000)])
    if res.findings:
        return
    Cp.run_campaign(res, 'C07', plan_ttl(60), budget(tier, 50, 800), seed, None, (), deadline=t_end)
    Cp.run_campaign(res, 'C07', Cp.plan_multi(['ttl', 'tx', 'str', 'server', 'key', 'list'], 60, churn=False), budget(tier, 15, 200), seed + 3,
                    None, (), deadline=t_end)
    if not res.findings:
        twin_expired_deleted(res, tier, seed, t_end)


# ---- C08 -------------------------------------------------------------------------------------
def wrongtype_matrix(res, tier, seed, t_end):
    """every (command, stored type) pair: a typed key position holding another type must give an error and change nothing"""
    rng = random.Random(seed + 8)
    holders = {'string': b'k0', 'list': b'l0', 'hash': b'h0', 'set': b't0', 'zset': b'z0'}
    tyname = {'str': 'string', 'list': 'list', 'hash': 'hash', 'set': 'set', 'zset': 'zset'}
    sigtxt = open(os.path.join(VERIF, 'lean', 'FR', 'Generated', 'Sigs.lean')).read()
    import re
    rows = re.findall(r'⟨"(\w+)", \[(.*?)\], \[(.*?)\], (true|false)', sigtxt)
    for cmd, fixed, rep, _ in rows:
        if cmd not in gen.TEMPLATES or time.time() > t_end:
            continue
        items = [x.strip() for x in re.split(r',\s*(?![^()]*\))', fixed)] if fixed else []
        pos = next((i for i, x in enumerate(items) if x.startswith('.key (some')), None)
        if pos is None:
            continue
        want = tyname[re.match(r'\.key \(some \.(\w+)\)', items[pos]).group(1)]
        for have, key in holders.items():
            if have == want:
                continue
            for attempt in range(3):
                g = gen.Gen(rng)
                f = g.command(cmd)
                if len(f) < pos + 2:
                    continue
                f[pos + 1] = key
                s = corr.Session(7, seed, True, (Mn.mon_error_nochange,))
                s.violations = []
                try:
                    s.step(('open', 1))
                    for sc in gen.SEED_COMMANDS:
                        s.step(('cmd', 1, sc))
                    before = s.impl.snapshot_struct()
                    s.step(('cmd', 1, f))
                except corr.Divergence as d:
                    res.add({'kind': 'divergence', 'verdict': 'violation', 'what': d.what, 'version': 7, 'seed': seed,
                                         'events': [corr.ev_json(('open', 1))] + [corr.ev_json(('cmd', 1, x)) for x in gen.SEED_COMMANDS + [f]],
                                         'impl': d.impl_side, 'model': d.model_side})
                    return
                res.evaluations += 1
                res.cells.add(('wrongtype', cmd, have))
                last = s.trace[-1][2].get(1, [])
                is_err = len(last) == 1 and last[0].startswith('e:')
                after = s.impl.snapshot_struct()
                unchanged = I.live_view(before, after['now']) == I.live_view(after, after['now'])
                if s.violations or not is_err or not unchanged:
                    # a missing-key short-circuit or an argument error reported first are both fine only if they are errors
                    res.add({'kind': 'monitor', 'property': 'C08', 'clause': 'wrongtype_matrix', 'version': 7, 'seed': seed,
                                         'detail': '%r on a key holding a %s: reply %r, state unchanged=%s' % (f, have, last, unchanged),
                                         'events': [corr.ev_json(('open', 1))] + [corr.ev_json(('cmd', 1, x)) for x in gen.SEED_COMMANDS + [f]]})
                    return
                break


def run_C08(res, tier, seed, t_end, bad):
    obs = OBSERVERS['C08']
    allf = [f for f in gen.FAMILY if f not in ('pubsub',)]
    Cp.run_campaign(res, 'C08', Cp.with_watcher(Cp.plan_single(allf, 60, mutate=0.35)), budget(tier, 50, 800), seed, None, obs, deadline=t_end)
    Cp.run_campaign(res, 'C08', Cp.plan_multi(['tx', 'str', 'list', 'set', 'zset', 'hash', 'server', 'pubsub'], 60, mutate=0.3), budget(tier, 15, 300),
                    seed + 1, None, obs, deadline=t_end)
    if not res.findings:
        wrongtype_matrix(res, tier, seed, t_end)
    if not res.findings:
        # in full, with a second client that WATCHes every key of the case just before its last command
        matrix_pre(res, 'C08', tier, seed, t_end, [('late-errors', Mx.late_error_cases, 450), ('floats', Mx.floats_cases, 1000), ('set-options', Mx.set_option_cases, 1000), ('lists', Mx.lists_cases, 2200),
                                                   ('strings', Mx.strings_cases, 2200), ('zsets', Mx.zsets_cases, 1200), ('sets', Mx.sets_cases, 100), ('dump-restore', Mx.dump_cases, 200),
                                                   ('all-types', lambda: Mx.alltype_cases(random.Random(seed), 1 if tier == 'quick' else 6), 900)], obs, watcher=True)


# ---- C09 -------------------------------------------------------------------------------------
def plan_removal(length):
    rem = ['lpop', 'rpop', 'ltrim', 'lrem', 'rpoplpush', 'lmove', 'blpop', 'brpop', 'brpoplpush', 'srem', 'spop', 'smove', 'sdiffstore',
           'sinterstore', 'sunionstore', 'hdel', 'zrem', 'zremrangebyrank', 'zremrangebyscore', 'zremrangebylex', 'zinterstore', 'zunionstore',
           'del', 'unlink', 'move', 'rename', 'sort', 'expire', 'pexpire', 'restore', 'setrange', 'append', 'set', 'multi', 'exec', 'discard',
           'select', 'flushdb', 'swapdb', 'pfadd', 'pfmerge', 'getset', 'msetnx', 'lset', 'linsert', 'lpushx', 'rpushx', 'hsetnx', 'sadd',
           'lpush', 'hset', 'zadd', 'zincrby', 'incr', 'hincrby', 'persist']
    reads = ['get', 'llen', 'lrange', 'lindex', 'scard', 'smembers', 'sismember', 'hget', 'hgetall', 'hlen', 'zcard', 'zrange', 'zscore',
             'zrank', 'exists', 'type', 'ttl', 'strlen', 'getrange', 'bitcount', 'getbit', 'sscan', 'hscan', 'zscan', 'scan', 'keys', 'dbsize',
             'sinter', 'sunion', 'sdiff', 'zcount', 'zrangebyscore', 'mget', 'hmget', 'srandmember', 'randomkey', 'dump', 'pfcount']

    def plan(s, rng):
        g = Cp.make_gen(s, rng, alias=0.4)
        yield ('open', 1)
        small = [[b'rpush', b'l0', b'a'], [b'rpush', b'l1', b'a', b'b'], [b'sadd', b't0', b'a'], [b'sadd', b't1', b'a', b'b'], [b'hset', b'h0', b'f0', b'1'],
                 [b'zadd', b'z0', b'1', b'a'], [b'zadd', b'z1', b'1', b'a', b'2', b'b'], [b'set', b'k0', b''], [b'set', b'k1', b'1']]
        for f in small:
            yield ('cmd', 1, f)
        for _ in range(length):
            r = rng.random()
            if r < 0.05:
                yield ('adv', rng.choice([1, 1000, 5000]))
            else:
                f = g.command(rng.choice(rem if r < 0.7 else reads))
                if rng.random() < 0.1:
                    f = g.mutate(f)
                yield ('cmd', 1, f)
    return plan


# ---- C15 -------------------------------------------------------------------------------------
def scan_iterations(res, tier, seed, t_end):
    """complete iterations over unmodified collections: every element exactly once, any COUNT, MATCH / TYPE subsets"""
    rng = random.Random(seed * 17 + 15)
    sizes = range(0, 26) if tier == 'thorough' else [0, 1, 2, 3, 7, 10, 11, 25]
    counts = range(1, 31) if tier == 'thorough' else [1, 2, 3, 7, 10, 11, 30]
    for n in sizes:
        for kind in ('scan', 'sscan', 'hscan', 'zscan'):
            if time.time() > t_end:
                res.notes.append('scan_iterations: time budget reached')
                return
            s = corr.Session(rng.choice([6, 7]), seed)
            s.violations = []
            elems = [('e%02d' % i).encode() + bytes([rng.randrange(256)]) * rng.choice([0, 1]) for i in range(n)]
            rng.shuffle(elems)
            try:
                s.step(('open', 1))
                if kind == 'scan':
                    for e in elems:
                        s.step(('cmd', 1, rng.choice([[b'set', e, b'v'], [b'rpush', e, b'x'], [b'sadd', e, b'm']])))
                elif elems:
                    s.step(('cmd', 1, {'sscan': [b'sadd', b'c'] + elems, 'hscan': [b'hset', b'c'] + sum([[e, b'v' + e] for e in elems], []),
                                        'zscan': [b'zadd', b'c'] + sum([[str(i).encode(), e] for i, e in enumerate(elems)], [])}[kind]))
                for count in counts:
                    for pat in (None, b'e0*', b'*1?'):
                        if pat is not None and rng.random() < (0.0 if tier == 'thorough' else 0.6):
                            continue
                        cur, pages, calls = b'0', [], 0
                        while True:
                            f = [kind.encode()] + ([] if kind == 'scan' else [b'c']) + [cur, b'count', str(count).encode()]
                            if pat is not None:
                                f += [b'match', pat]
                            s.step(('cmd', 1, f))
                            calls += 1
                            r = s.impl_last if hasattr(s, 'impl_last') else None
                            out = s.trace[-1]
                            raw = s.last_raw
                            if not (isinstance(raw, list) and len(raw) == 2):
                                s.violations.append(Mn.Violation('C15', 'scan_shape', repr(raw), s.index))
                                break
                            pages.extend(raw[1])
                            cur = raw[0] if isinstance(raw[0], bytes) else str(raw[0]).encode()
                            if cur == b'0' or calls > n + 5:
                                break
                        if kind in ('hscan', 'zscan'):
                            got = pages[0::2]
                        else:
                            got = pages
                        import funcs as Fn2
                        expect = sorted(e for e in elems if pat is None or Fn2.redis_glob(pat, e))
                        res.cells.add((kind, n, count, pat))
                        if got != expect or calls != max(1, -(-n // count)):
                            s.violations.append(Mn.Violation('C15', 'scan_complete', '%s n=%d count=%d match=%r: got %r expected %r in %d calls'
                                                             % (kind, n, count, pat, got, expect, calls), s.index))
                        if s.violations:
                            break
                    if s.violations:
                        break
            except corr.Divergence as d:
                res.add({'kind': 'divergence', 'verdict': Cp.judge(d, PROPS['C15']['scope']), 'what': d.what, 'version': s.version,
                                     'seed': seed, 'events': [corr.ev_json(t[1]) for t in s.trace], 'impl': d.impl_side, 'model': d.model_side})
                return
            res.absorb(s)
            if s.violations:
                v = s.violations[0]
                res.add({'kind': 'monitor', 'property': 'C15', 'clause': v.clause, 'detail': v.detail, 'version': s.version,
                                     'seed': seed, 'events': [corr.ev_json(t[1]) for t in s.trace]})
                return
    if tier == 'thorough':
        res.exhaustive = True
        res.notes.append('exhaustive: sizes 0..25 x COUNT 1..30 x {no pattern, 2 patterns} x 4 scan commands')


def scan_type_oracle(res, tier, seed, t_end):
    """SCAN with MATCH and TYPE together: exactly the keys of that type matching the pattern (independent oracle)"""
    im = I.Impl(7, seed)
    im.open(1)
    keys = {b'ka': ('string', [b'set', b'ka', b'1']), b'kb': ('list', [b'rpush', b'kb', b'x']), b'kc': ('set', [b'sadd', b'kc', b'x']),
            b'kd': ('hash', [b'hset', b'kd', b'f', b'v']), b'ke': ('zset', [b'zadd', b'ke', b'1', b'x']), b'xa': ('string', [b'set', b'xa', b'2'])}
    for k, (t, f) in keys.items():
        im.send(1, corr.encode_request(f))
    for t in ('string', 'list', 'set', 'hash', 'zset'):
        for pat in (None, b'k*', b'?a', b'k[a-c]'):
            for cnt in (1, 2, 10):
                got, cur, guard = [], b'0', 0
                while True:
                    f = [b'scan', cur, b'count', str(cnt).encode(), b'type', t.encode()] + ([b'match', pat] if pat else [])
                    o, crash, _, _ = im.send(1, corr.encode_request(f))
                    r = o.get(1, [None])[0]
                    guard += 1
                    if crash or not isinstance(r, list) or guard > 50:
                        res.add({'kind': 'scan', 'verdict': 'violation', 'property': 'C15', 'what': 'SCAN TYPE/MATCH misbehaves: %r -> %r %r' % (f, r, crash)})
                        return
                    got += r[1]
                    cur = r[0] if isinstance(r[0], bytes) else str(r[0]).encode()
                    if cur == b'0':
                        break
                want = sorted(k for k, (kt, _) in keys.items() if kt == t and (pat is None or Fn.redis_glob(pat, k)))
                res.evaluations += guard
                res.cells.add(('scan-type', t, pat, cnt))
                if sorted(got) != want or len(got) != len(set(got)):
                    res.add({'kind': 'scan', 'verdict': 'violation', 'property': 'C15', 'clause': 'scan_match_type',
                                         'what': 'SCAN TYPE %s MATCH %r COUNT %d returned %r, expected %r' % (t, pat, cnt, got, want)})
                    return


def run_C15(res, tier, seed, t_end, bad):
    matrix_pre(res, 'C15', tier, seed, t_end, [('scan-filters', Mx.scan_filter_cases, 400)])
    if res.findings:
        return
    scan_type_oracle(res, tier, seed, t_end)
    if res.findings:
        return
    scan_iterations(res, tier, seed, t_end)
    if not res.findings:
        Cp.run_campaign(res, 'C15', Cp.plan_single(['scan', 'set', 'hash', 'zset', 'str'], 50, mutate=0.25), budget(tier, 30, 400), seed,
                        PROPS['C15']['scope'], deadline=t_end)


# ---- C17 (protocol level; the redis-py client level is in clientlevel.py) ------------------------
def binary_roundtrip(res, tier, seed, t_end):
    rng = random.Random(seed * 3 + 17)
    for i in range(budget(tier, 40, 600)):
        if time.time() > t_end:
            break
        s = corr.Session(rng.choice([6, 7]), seed)
        s.violations = []

        def blob():
            k = rng.random()
            if k < 0.1:
                return b''
            if k < 0.2:
                return bytes(range(256))
            if k < 0.25 and tier == 'thorough':
                return bytes(rng.randrange(256) for _ in range(100000))
            return bytes(rng.choice([rng.randrange(256), 0, 13, 10, 255, 36, 42]) for _ in range(rng.randint(1, 12)))
        key, val, fld, mem, ch, msg = blob() or b'k', blob(), blob(), blob(), blob(), blob()
        script = [
            ([b'set', key, val], None), ([b'get', key], val), ([b'append', key, mem], None), ([b'get', key], val + mem),
            ([b'del', key], None),
            ([b'hset', key, fld, val], None), ([b'hget', key, fld], val), ([b'hgetall', key], [fld, val]), ([b'del', key], None),
            ([b'rpush', key, val, mem], None), ([b'lrange', key, b'0', b'-1'], [val, mem]), ([b'del', key], None),
            ([b'sadd', key, mem], None), ([b'smembers', key], [mem]), ([b'del', key], None),
            ([b'zadd', key, b'1', mem], None), ([b'zrange', key, b'0', b'-1'], [mem]), ([b'del', key], None),
            ([b'multi'], None), ([b'set', key, val], None), ([b'get', key], None), ([b'exec'], [b'OK', val]),
            ([b'keys', b'*'], [key]), ([b'echo', val], val), ([b'del', key], None),
            ([b'rpush', key, b'x', val, b''], None), ([b'brpoplpush', key, key + b'2', b'1'], b''), ([b'brpop', key, b'1'], [key, val]),
            ([b'lrange', key + b'2', b'0', b'-1'], [b'']), ([b'del', key, key + b'2'], None),
            ([b'zadd', key, b'0', b''], None), ([b'zrange', key, b'0', b'-1'], [b'']), ([b'hset', key + b'h', b'', b''], None),
            ([b'hgetall', key + b'h'], [b'', b'']), ([b'del', key, key + b'h'], None),
        ]
        try:
            s.step(('open', 1)); s.step(('open', 2))
            for f, expect in script:
                s.step(('cmd', 1, f))
                if expect is not None and s.last_raw != expect:
                    s.violations.append(Mn.Violation('C17', 'stored_bytes_unchanged', '%r returned %r expected %r' % (f, s.last_raw, expect), s.index))
            s.step(('cmd', 2, [b'subscribe', ch]))
            s.step(('cmd', 1, [b'publish', ch, msg]))
            got = s.last_out.get(2, [])
            if got != [[b'message', ch, msg]]:
                s.violations.append(Mn.Violation('C17', 'stored_bytes_unchanged', 'published %r/%r, subscriber got %r' % (ch, msg, got), s.index))
        except corr.Divergence as d:
            res.add({'kind': 'divergence', 'verdict': 'violation', 'what': d.what, 'version': s.version, 'seed': seed,
                                 'events': [corr.ev_json(t[1]) for t in s.trace], 'impl': d.impl_side, 'model': d.model_side})
            return
        res.absorb(s)
        res.cells.add(('binary', len(val) > 300, len(key) == 256, val == b''))
        if s.violations:
            v = s.violations[0]
            res.add({'kind': 'monitor', 'property': 'C17', 'clause': v.clause, 'detail': v.detail, 'version': s.version, 'seed': seed,
                                 'events': [corr.ev_json(t[1]) for t in s.trace]})
            return


def run_C17(res, tier, seed, t_end, bad):
    binary_roundtrip(res, tier, seed, t_end)
    if not res.findings:
        parser_function_level(res, tier, seed)
    if not res.findings:
        Cp.run_campaign(res, 'C17', Cp.plan_chunked(['str', 'list', 'hash', 'set', 'tx']), budget(tier, 40, 600), seed, None, (), deadline=t_end)
    if not res.findings:
        try:
            import clientlevel
            clientlevel.run_C17(res, tier, seed, t_end)
        except ImportError:
            res.notes.append('client-level part not available')
    if not res.findings:
        client_decode_tie(res, tier, seed)


def client_decode_tie(res, tier, seed):
    """the Lean model of FakeConnection.read_response/_decode (FR/Sys/Client.lean, theorems FR.Props.C17c) against the real sync and
    asyncio connections with redis-py's Encoder: random nested replies under every decode_responses / encoding / errors configuration"""
    import client_tie
    r = client_tie.tie(n=1500 if tier == 'quick' else 20000, seed=seed, exhaustive=(tier != 'quick'))
    res.evaluations += r['tests']
    res.cells.add(('client-decode-tie', tuple(sorted(r['stats']))))
    res.notes.append('client decode tie: %d tests, outcomes %s' % (r['tests'], r['stats']))
    if r['rc'] == 1:
        res.add({'kind': 'monitor', 'verdict': 'violation', 'clause': 'client_decode_model_eq_code',
                 'detail': 'read_response/_decode differs from the model proved in FR.Props.C17c: %r (%d of %d tests)' % (r['first'], r['disagreements'], r['tests'])})
    elif r['rc'] != 0:
        res.add({'kind': 'internal', 'verdict': 'no-failing-input-found', 'clause': 'client_decode_tie', 'detail': str(r['first'])[:500]})


# ---- C18 -------------------------------------------------------------------------------------
def run_C18(res, tier, seed, t_end, bad):
    rng = random.Random(seed * 5 + 18)
    m = corr.get_model(7)
    ranges = {'int': (-2 ** 63, 2 ** 63 - 1), 'dbindex': (0, 15), 'bitoffset': (0, 2 ** 32 - 1), 'bitvalue': (0, 1), 'timeout': (0, 2 ** 63 - 1)}
    cands = list(Fn.INT_CANDIDATES)
    for _ in range(budget(tier, 300, 5000)):
        n = rng.choice([rng.randint(-20, 20), rng.randint(-2 ** 64, 2 ** 64), 2 ** 63 + rng.randint(-3, 3), -2 ** 63 + rng.randint(-3, 3),
                        2 ** 32 + rng.randint(-3, 3)])
        v = str(n).encode()
        cands.append(rng.choice([v, b'+' + v, b'0' + v, v + b' ', b' ' + v, v[:1] + b'_' + v[1:], v + b'.0', v.replace(b'-', b'--')]))
        cands.append(bytes(rng.choice(b'0123456789-+ _.eE') for _ in range(rng.randint(0, 6))))
    for kind, (lo, hi) in ranges.items():
        for v in cands:
            a, b = Fn.py_conv(kind, v), Fn.model_conv(m, kind, v)
            res.evaluations += 1
            spec = Fn.int_spec(v, lo, hi)
            res.cells.add((kind, a[0], len(v) > 18, spec is not None))
            if (a[0] == 'ok') != (spec is not None) or (a[0] == 'ok' and int(a[1]) != spec):
                res.add({'kind': 'conv', 'verdict': 'violation', 'converter': kind, 'value': v.hex(), 'impl': a,
                                     'spec': spec, 'what': 'accepted/refused differently from canonical-decimal-in-range'})
                return
            if a != b:
                res.add({'kind': 'conv', 'verdict': 'unconstrained', 'converter': kind, 'value': v.hex(), 'impl': a, 'model': b,
                                     'what': 'correspondence:C18:' + kind})
                return
    # float converters
    fl = []
    for base in Fn.FLOAT_BASE:
        for d in Fn.DECORATE:
            fl.append(d(base))
    for _ in range(budget(tier, 500, 20000)):
        k = rng.random()
        if k < 0.4:
            fl.append(repr(struct_unpack(rng.getrandbits(64))).encode())
        elif k < 0.7:
            fl.append(('%s%d.%de%d' % (rng.choice(['', '-', '+']), rng.randint(0, 10 ** rng.randint(0, 25)), rng.randint(0, 10 ** rng.randint(0, 20)),
                                       rng.randint(-340, 320))).encode())
        else:
            fl.append(bytes(rng.choice(b'0123456789.eE+-_ infINFxa\x00') for _ in range(rng.randint(0, 7))))
    for kind in ('float', 'sortfloat', 'score'):
        for v in fl:
            a, b = Fn.py_conv(kind, v), Fn.model_conv(m, kind, v)
            res.evaluations += 1
            res.cells.add((kind, a[0], b'e' in v.lower(), b'.' in v, len(v) > 20))
            if kind == 'float' and a[0] == 'ok':
                bits = int(a[1])
                if Fn.nan_bits(bits) or not Fn.STRTOD_DEC.match(v):
                    res.add({'kind': 'conv', 'verdict': 'violation', 'converter': kind, 'value': v.hex(), 'impl': a,
                                         'what': 'accepted a string that strtod would not consume completely as a non-NaN number'})
                    return
            if a != b:
                res.add({'kind': 'conv', 'verdict': 'violation' if a[0] != b[0] else 'unconstrained', 'converter': kind,
                                     'value': v.hex(), 'impl': a, 'model': b, 'what': 'correspondence:C18:' + kind})
                return
    # the binary64 codec against CPython: formatting, addition, multiplication
    import struct as _st
    ds = list(Fn.random_doubles(rng, budget(tier, 1500, 40000)))
    for bits in ds:
        x = _st.unpack('>d', _st.pack('>Q', bits))[0]
        if x != x:
            continue
        for kind, want in (('enc6g', I.C.Float.encode(x, False)), ('enc6f', I.C.Float.encode(x, True)),
                           ('enc7g', I.C.Float.encode(0 + x, False))):
            got = bytes.fromhex(m.ask('fmt %s %d' % (kind, bits))[2:])
            res.evaluations += 1
            if got != want:
                res.add({'kind': 'codec', 'verdict': 'unconstrained', 'bits': bits, 'format': kind, 'impl': want.hex(), 'model': got.hex(),
                                     'what': 'correspondence:C18:float-format'})
                return
        # ZADD/ZSCORE round trip of the property: the 17 significant digits read back as the same double
        if x not in (float('inf'), float('-inf')) and float(I.C.Float.encode(x, False)) != x:
            res.add({'kind': 'codec', 'verdict': 'violation', 'bits': bits, 'what': 'score does not round-trip through Float.encode/decode'})
            return
    for _ in range(budget(tier, 1500, 40000)):
        a, b = rng.choice(ds), rng.choice(ds)
        x, y = (_st.unpack('>d', _st.pack('>Q', t))[0] for t in (a, b))
        if x != x or y != y:
            continue
        for op, val in (('add', x + y), ('mul', x * y)):
            got = int(m.ask('arith %s %d %d' % (op, a, b))[2:])
            res.evaluations += 1
            if val != val:
                ok = Fn.nan_bits(got)
            else:
                ok = got == I.dbl_bits(val)
            if not ok:
                res.add({'kind': 'codec', 'verdict': 'unconstrained', 'op': op, 'a': a, 'b': b, 'impl': I.dbl_bits(val), 'model': got,
                                     'what': 'correspondence:C18:float-arith'})
                return
    res.samples.append({'converter': 'int', 'value': '007', 'impl': Fn.py_conv('int', b'007')})
    # through the commands: INCR overflow, INCRBYFLOAT non-finite, ZADD/ZSCORE
    matrix_pre(res, 'C18', tier, seed, t_end, [('floats', Mx.floats_cases, 800), ('strings', lambda: [c for c in Mx.strings_cases() if c and c[0][0] in (b'set', b'hset') and len(c) == 3], 300)],
               (mon_nonfinite,))
    if res.findings:
        return
    Cp.run_campaign(res, 'C18', Cp.plan_single(['str', 'zset', 'hash'], 50, mutate=0.1), budget(tier, 25, 300), seed, None, (), deadline=t_end)


def mon_nonfinite(session, ev, name, before, out_i, crash_i):
    """INCRBYFLOAT/HINCRBYFLOAT never store NaN or infinity; no NaN score is ever stored"""
    import math
    from fakeredis._zset import ZSet
    mine = out_i.get(ev[1], []) if ev[0] == 'cmd' else []
    failed = any(isinstance(r, I.RawError) for r in mine)
    for i, db in session.impl.srv.dbs.items():
        for k, it in db._dict.items():
            v = it.value
            if name in ('incrbyfloat',) and not failed and isinstance(v, bytes) and k == ev[2][1]:
                try:
                    if not math.isfinite(float(v)):
                        Mn.add(session, 'C18', 'incrbyfloat_never_nonfinite', '%r left %r = %r' % (ev[2], k, v))
                except ValueError:
                    pass
            if name == 'hincrbyfloat' and not failed and isinstance(v, dict):
                for fld, x in v.items():
                    try:
                        if len(ev[2]) > 2 and fld == ev[2][2] and not math.isfinite(float(x)):
                            Mn.add(session, 'C18', 'incrbyfloat_never_nonfinite', '%r left field %r = %r' % (ev[2], fld, x))
                    except ValueError:
                        pass
            if isinstance(v, ZSet) and any(s != s for s, m in v._byscore):
                Mn.add(session, 'C18', 'zadd_never_nan', 'NaN score stored in %r' % k)


def struct_unpack(bits):
    import struct as _st
    return _st.unpack('>d', _st.pack('>Q', bits))[0]


def run_C11(res, tier, seed, t_end, bad):
    import blocking as Bl
    Bl.run_sched_scenarios(res, tier, seed, t_end, 2000)
    if res.findings:
        return
    # the argument grammar of the blocking commands (timeout forms, wrong types, inside MULTI) - the initial attempt only
    blk = (b'blpop', b'brpop', b'brpoplpush')
    Mx.run_cases(res, 'C11', [c for c in Mx.lists_cases() if any(isinstance(f, list) and f[0] in blk for f in c)], tier, seed, t_end, 200, (), None, label='blocking-arguments')
    if res.findings:
        return
    Bl.run_tx_then_block(res, seed)
    if res.findings:
        return
    import aio
    aio.run_async_campaign(res, 'C11', None, 0, seed + 6, t_end, plans=aio.async_tx_scenarios())
    if res.findings:
        return
    aio.run_async_campaign(res, 'C11', None, 0, seed + 7, t_end, plans=aio.async_one_write_scenarios())
    if res.findings:
        return
    import clientlevel
    clientlevel.run_cross_thread(res, 'C11')
    if res.findings:
        return
    Bl.run_sched_campaign(res, tier, seed, t_end, budget(tier, 40, 1200), 70)
    if not res.findings:
        Bl.real_threads_smoke(res, tier, seed, t_end)


def run_C14(res, tier, seed, t_end, bad):
    import aio
    # (0) small scope in full: park / pipeline behind / feed in the same or the next turn of the event loop / serve or time out
    aio.run_async_campaign(res, 'C14', None, 0, seed + 3, t_end, plans=aio.async_scenarios())
    if res.findings:
        return
    aio.run_async_campaign(res, 'C14', None, 0, seed + 4, t_end, plans=aio.async_extra_scenarios())
    if res.findings:
        return
    aio.run_async_campaign(res, 'C14', None, 0, seed + 5, t_end, plans=aio.async_spoil_scenarios())
    if res.findings:
        return
    aio.run_async_campaign(res, 'C14', None, 0, seed + 6, t_end, plans=aio.async_tx_scenarios())
    if res.findings:
        return
    aio.run_async_campaign(res, 'C14', None, 0, seed + 7, t_end, plans=aio.async_one_write_scenarios())
    if res.findings:
        return
    # (1) blocking pops on the asyncio front-end: served, timed out, pipelined requests behind them
    aio.run_async_campaign(res, 'C14', aio.plan_async(70), budget(tier, 30, 800), seed, t_end)
    # (2) every other command family through the asyncio socket against the same model as the sync socket
    if not res.findings:
        fams = ['str', 'key', 'ttl', 'hash', 'list', 'set', 'zset', 'scan', 'sort', 'server', 'tx', 'pubsub']
        nb = [f for f in fams]
        plan = Cp.plan_multi(nb, 60, churn=True, mutate=0.05)
        aio.run_async_campaign(res, 'C14', noblock(plan), budget(tier, 20, 400), seed + 1, t_end)
    if not res.findings:
        import clientlevel
        clientlevel.run_C14(res, tier, seed, t_end)


def noblock(plan):
    def p(s, rng):
        for ev in plan(s, rng):
            if ev[0] == 'cmd' and Cn.name_of(ev[2]) in ('blpop', 'brpop', 'brpoplpush'):
                continue
            yield ev
    return p


def plan_lifecycle(length):
    base = Cp.plan_multi(['tx', 'pubsub', 'str', 'list', 'server', 'key'], 0, churn=False)

    def plan(s, rng):
        g = Cp.make_gen(s, rng)
        live = [1, 2, 3]
        for c in live:
            yield ('open', c)
        for f in gen.SEED_COMMANDS[:6]:
            yield ('cmd', 1, f)
        nextc = 4
        up = True
        for _ in range(length):
            r = rng.random()
            if r < 0.08:
                up = not up
                yield ('conn', 1 if up else 0)
            elif r < 0.16 and len(live) > 1:
                c = rng.choice(live)
                live.remove(c)
                yield ('close', c) if rng.random() < 0.6 else ('gc', c)
            elif r < 0.24:
                live.append(nextc)
                if up:
                    yield ('open', nextc)
                    nextc += 1
                else:
                    live.pop()
            elif r < 0.28:
                yield ('adv', rng.choice([1, 1000]))
            else:
                live2 = [x for x in live if s.impl.socks[x]._parser.gi_frame is not None] or live
                c = rng.choice(live2)
                fam = rng.choice(['tx', 'pubsub', 'pubsub', 'str', 'list', 'server', 'key'])
                yield ('cmd', c, g.command(rng.choice(gen.FAMILY[fam])))
        if not up:
            yield ('conn', 1)
        yield ('cmd', live[0], [b'publish', b'ch1', b'm'])
    return plan


def mon_outage(session, ev, name, before, out_i, crash_i):
    if before is None or before['connected']:
        return
    after = session.impl.snapshot_struct()
    if crash_i != 'ConnectionError' or out_i:
        Mn.add(session, 'C20', 'outage_no_effect', '%r during outage: crash=%r output=%r' % (ev[2], crash_i, out_i))
    b2, a2 = dict(before), dict(after)
    for d in (b2, a2):
        d.pop('now', None)
    if b2 != a2:
        Mn.add(session, 'C20', 'outage_no_effect', 'state changed during outage by %r' % (ev[2],))


def run_C20(res, tier, seed, t_end, bad):
    # small scope, in full: every assignment of roles to 2 connections (sample of 3) closed back to back, every close/gc pattern
    Mx.run_cases(res, 'C20', Mx.lifecycle_name_cases(), tier, seed, t_end, 100, (Mn.mon_track_queue, Mn.mon_pubsub), None, label='lifecycle-names')
    if res.findings:
        return
    Mx.run_cases(res, 'C20', Mx.lifecycle_cases((2,)), tier, seed, t_end, 100, (Mn.mon_track_queue, Mn.mon_pubsub), None, label='lifecycle-2')
    if not res.findings:
        Mx.run_cases(res, 'C20', Mx.lifecycle_cases((3,)), tier, seed, t_end, 120, (Mn.mon_track_queue, Mn.mon_pubsub), None, label='lifecycle-3')
    if res.findings:
        return
    Cp.run_campaign(res, 'C20', plan_lifecycle(70), budget(tier, 40, 800), seed, None, (mon_outage, Mn.mon_track_queue, Mn.mon_pubsub), deadline=t_end)
    if not res.findings:
        import clientlevel
        clientlevel.run_C20(res, tier, seed, t_end)
        if not res.findings:
            clientlevel.run_C20_asyncio(res, tier, seed, t_end)
        if not res.findings:
            clientlevel.run_C20_lockfree_close(res, tier, seed, t_end)
        if not res.findings:
            clientlevel.run_reaper_race(res, 'C20', tier, seed, t_end)


def run_C13(res, tier, seed, t_end, bad):
    plan_q = Cp.plan_multi(['server', 'str', 'key', 'list', 'ttl', 'tx'], 70, churn=False, weights=[4, 2, 2, 1, 1, 1])
    plan_t = Cp.plan_multi(['server', 'str', 'key', 'list', 'ttl', 'tx', 'set'], 90, weights=[4, 2, 2, 1, 1, 1, 1])
    Mx.run_cases(res, 'C13', Mx.db_cases(), tier, seed, t_end, 200, OBSERVERS['C13'], None, label='databases')
    if res.findings:
        return
    # ECHO, PING, TIME, SAVE/BGSAVE/LASTSAVE, FLUSHDB, DBSIZE, SELECT in every shape (directly, in MULTI, while subscribed)
    Mx.run_cases(res, 'C13', Mx.server_cases(), tier, seed, t_end, 2000, OBSERVERS['C13'], None, label='server-commands')
    if res.findings:
        return
    Cp.run_campaign(res, 'C13', plan_q if tier == 'quick' else plan_t, budget(tier, 40, 800), seed, PROPS['C13']['scope'], OBSERVERS['C13'], deadline=t_end)
    if not res.findings:
        import clientlevel
        clientlevel.run_C13(res, tier, seed, t_end)


def run_C12(res, tier, seed, t_end, bad):
    import threads as Th
    n = budget(tier, 25, 1500)
    for i in range(n):
        if time.time() > t_end:
            res.notes.append('time budget reached after %d trials' % i)
            break
        nthreads = random.Random(seed * 97 + i).choice([2, 3, 4, 8])
        version = 6 + (i % 2)
        ev, cmds, errors, srv = Th.run_trial(seed * 100003 + i, nthreads, 14, version)
        res.evaluations += len(cmds)
        res.traces_validated += 1
        res.histories += 1
        res.cells.add(('threads', nthreads, len(ev) // 200))
        if errors:
            res.add({'kind': 'threads', 'verdict': 'violation', 'property': 'C12', 'clause': 'no_exception', 'detail': errors[:3]})
            return
        f = Th.validate(ev, cmds, version, nthreads)
        if len(res.samples) < 2:
            res.samples.append({'threads': nthreads, 'trace_events': len(ev), 'commands': len(cmds), 'trace_head': ev[:30]})
        if f is not None:
            f['seed'] = seed * 100003 + i
            f['threads'] = nthreads
            res.add(f)
            return
        # clients created concurrently operate on the same data
        if len({id(d) for d in [srv.dbs[0]]}) != 1:
            res.add({'kind': 'threads', 'verdict': 'violation', 'property': 'C12', 'clause': 'same_data', 'detail': 'split databases'})
            return
    constructor_race(res, tier, seed, t_end)
    if not res.findings:
        # EXEC blocks with blocking pops inside never release the lock half-way (scheduler harness: a wait would hand the lock over)
        import blocking as Bl
        Bl.run_exec_atomic(res, seed, 'C12')
    if not res.findings:
        # a lock-free close() from another thread landing at every point of the clean-up loop (deterministic stand-in for the race)
        import clientlevel
        clientlevel.run_reaper_race(res, 'C12', tier, seed, t_end)
    if not res.findings:
        # replies are converted for the caller AFTER the lock is released: a reply that is (or contains) a stored container would be a
        # read outside the critical section - checked deterministically by the aliasing check of every correspondence session
        Cp.run_campaign(res, 'C12', Cp.plan_single(['list', 'set', 'hash', 'zset', 'str', 'key', 'sort'], 45, mutate=0.02), budget(tier, 12, 200), seed + 7, None, (),
                        deadline=t_end)
        Mx.run_cases(res, 'C12', [c for c in Mx.lists_cases() if any(f[0] == b'lrange' for f in c if isinstance(f, list))], tier, seed, t_end, 150, (), None, label='reply-aliasing')
    if not res.findings:
        # messages are handed to the subscribers inside the critical section of the PUBLISH (otherwise two publishers' messages can overtake each other and a
        # message can arrive after the UNSUBSCRIBE was acknowledged): checked deterministically by the lock monitor of every session
        Mx.run_cases(res, 'C12', list(Mx.pubsub_server_cases()) + list(Mx.pubsub_glob_cases())[:6], tier, seed, t_end, 100, (), None, label='deliveries-under-lock')
    if not res.findings:
        # commands that wait (BLPOP/BRPOPLPUSH) take effect in their LAST critical section: the scheduler harness drives the real
        # _blocking code through every order of critical sections and compares with the sequential model
        import blocking as Bl
        Bl.run_sched_scenarios(res, tier, seed + 12, t_end, 700)
        if not res.findings:
            Bl.run_sched_campaign(res, tier, seed + 12, t_end, budget(tier, 15, 400), 60)


def constructor_race(res, tier, seed, t_end):
    """concurrent first connection to a fresh server: all sockets must end up on the same Database object"""
    import sys, threading, fakeredis
    from fakeredis._fakesocket import FakeSocket
    old = sys.getswitchinterval()
    sys.setswitchinterval(1e-6)
    try:
        for t in range(budget(tier, 400, 6000)):
            srv = fakeredis.FakeServer()
            socks = [None] * 4
            bar = threading.Barrier(4)

            def mk(i):
                bar.wait()
                socks[i] = FakeSocket(srv)
            ths = [threading.Thread(target=mk, args=(i,)) for i in range(4)]
            [x.start() for x in ths]
            [x.join() for x in ths]
            res.evaluations += 1
            if len({id(s._db) for s in socks}) != 1:
                res.add({'kind': 'threads', 'verdict': 'violation', 'property': 'C12', 'clause': 'concurrent_first_connection',
                                     'detail': 'trial %d: the four sockets hold %d different Database objects' % (t, len({id(s._db) for s in socks}))})
                return
        res.cells.add(('constructor-race', 4))
    finally:
        sys.setswitchinterval(old)


def run_C19(res, tier, seed, t_end, bad):
    import scripts as Sx
    where = Sx.available()
    if where is None:
        res.notes.append('no Lua host available')
        res.add({'kind': 'setup', 'verdict': 'unconstrained', 'what': 'correspondence:C19: no lupa module (stand-in missing)'})
        return
    res.notes.append('Lua host: %s' % where)
    import clientlevel
    clientlevel.run_C19_cache(res, tier, seed, t_end)
    if res.findings:
        return
    plan_direct = Sx.plan_scripts(budget(tier, 45, 70))
    plan_tx = Sx.plan_scripts_tx(budget(tier, 8, 14))      # script commands queued inside MULTI (run by EXEC like direct ones)
    for h in range(budget(tier, 60, 1400)):
        plan = plan_tx if h % 3 == 2 else plan_direct
        if time.time() > t_end:
            res.notes.append('time budget reached')
            break
        hseed = (seed * 1000003 + h * 7919 + 19) & 0x7fffffff
        rng = random.Random(hseed)
        version = rng.choice([6, 7])
        s = corr.Session(version, hseed, True, (Mn.mon_replies, Mn.mon_error_nochange_scripts), scripts=True)
        s.violations = []
        events, div = [], None
        try:
            for ev in plan(s, rng):
                events.append(ev)
                s.step(ev)
        except corr.Divergence as d:
            div = d
        res.absorb(s)
        if len(res.samples) < 3:
            res.samples.append({'version': version, 'seed': hseed, 'events': [(corr.ev_json(t[1]), t[2]) for t in s.trace[-4:]]})
        if s.violations:
            v = s.violations[0]
            res.add({'kind': 'monitor', 'property': v.prop, 'clause': v.clause, 'detail': v.detail, 'version': version, 'seed': hseed,
                                 'scripts': True, 'events': [corr.ev_json(e) for e in events[:v.index + 1]]})
            return
        if div is not None:
            small = corr.shrink(events, version, hseed, lambda evs: _still_diverges(evs, version, hseed), 120)
            s2 = corr.Session(version, hseed, True, (), scripts=True)
            d2 = div
            try:
                s2.run(small)
            except corr.Divergence as d:
                d2 = d
            res.add({'kind': 'divergence', 'verdict': Cp.judge(d2, None), 'what': d2.what, 'version': version, 'seed': hseed,
                                 'scripts': True, 'events': [corr.ev_json(e) for e in small], 'impl': d2.impl_side, 'model': d2.model_side,
                                 'at': corr.ev_json(d2.event)})
            return


def _still_diverges(evs, version, seed):
    s = corr.Session(version, seed, True, (), scripts=True)
    try:
        s.run(evs)
        return False
    except corr.Divergence:
        return True
    except Exception:
        return False


RUNNERS = {
    'C11': run_C11,
    'C19': run_C19,
    'C12': run_C12,
    'C20': run_C20,
    'C14': run_C14,
    'C01': generic('C01', Cp.plan_single(['str', 'key', 'ttl'], 60, select=0.03), Cp.plan_single(['str', 'key', 'ttl'], 80, select=0.03), 60, 1200,
                   pre=lambda res, tier, seed, t_end, bad: matrix_pre(res, 'C01', tier, seed, t_end, [('strings', Mx.strings_cases, 2400), ('floats', Mx.floats_cases, 400), ('all-types', lambda: Mx.alltype_cases(random.Random(seed), 1 if tier == 'quick' else 4), 500), ('dump-restore', Mx.dump_cases, 200), ('set-options', Mx.set_option_cases, 700), ('ttl-rules', Mx.ttl_cases, 300), ('late-errors', Mx.late_error_cases, 450)])),
    'C02': generic('C02', Cp.plan_single(['list', 'hash', 'set', 'sort', 'key'], 60), Cp.plan_single(['list', 'hash', 'set', 'sort', 'key'], 80), 60, 1200,
                   pre=lambda res, tier, seed, t_end, bad: matrix_pre(res, 'C02', tier, seed, t_end, [('lists', Mx.lists_cases, 2200), ('sets', Mx.sets_cases, 120), ('last-element', Mx.last_element_cases, 600), ('floats', Mx.floats_cases, 400), ('all-types', lambda: Mx.alltype_cases(random.Random(seed), 1 if tier == 'quick' else 4), 500), ('sort', Mx.sort_cases, 2500)])),
    'C03': generic('C03', Cp.plan_single(['zset', 'zset', 'set', 'key'], 60), Cp.plan_single(['zset', 'zset', 'set', 'key'], 80), 60, 1200, OBSERVERS['C03'],
                   pre=lambda res, tier, seed, t_end, bad: matrix_pre(res, 'C03', tier, seed, t_end, [('zsets', Mx.zsets_cases, 6000), ('floats', Mx.floats_cases, 1000), ('all-types', lambda: Mx.alltype_cases(random.Random(seed), 1 if tier == 'quick' else 4), 400)],
                                                                    OBSERVERS['C03'])),
    'C04': run_C04,
    'C05': generic('C05', pre=lambda res, tier, seed, t_end, bad: (__import__('scenarios').run(res, 'C05', tier, seed, t_end, ()),
                                                                   None if res.findings else Mx.run_cases(res, 'C05', Mx.db_cases(), tier, seed, t_end, 400, (), None, label='databases'),
                                                                   None if res.findings else __import__('blocking').run_tx_then_block(res, seed),
                                                                   None if res.findings else __import__('aio').run_async_campaign(
                                                                       res, 'C05', __import__('aio').plan_async_tx(60), budget(tier, 15, 300), seed + 5, t_end)),
                   plan_q=Cp.plan_multi(['tx', 'str', 'list', 'set', 'server', 'key', 'ttl', 'zset'], 70, weights=[5, 2, 2, 1, 1, 1, 1, 1]),
                   plan_t=Cp.plan_multi(['tx', 'str', 'list', 'set', 'server', 'key', 'ttl', 'zset'], 90, weights=[5, 2, 2, 1, 1, 1, 1, 1]), n_q=40, n_t=800),
    'C06': generic('C06', pre=lambda res, tier, seed, t_end, bad: __import__('scenarios').run(res, 'C06', tier, seed, t_end, OBSERVERS['C06']),
                   plan_q=Cp.plan_multi(['tx', 'str', 'list', 'set', 'hash', 'zset', 'server', 'key'], 70, churn=False, weights=[6, 2, 2, 2, 1, 1, 2, 2]),
                   plan_t=Cp.plan_multi(['tx', 'str', 'list', 'set', 'hash', 'zset', 'server', 'key', 'ttl'], 90, churn=True, weights=[6, 2, 2, 2, 1, 1, 2, 2, 1]),
                   n_q=40, n_t=800, observers=OBSERVERS['C06']),
    'C07': run_C07,
    'C08': run_C08,
    'C09': generic('C09', plan_removal(60), plan_removal(90), 30, 500, OBSERVERS['C09'],
                   pre=lambda res, tier, seed, t_end, bad: matrix_pre(res, 'C09', tier, seed, t_end,
                                                                    [('last-element', Mx.last_element_cases, 600),
                                                                     ('all-types', lambda: Mx.alltype_cases(random.Random(seed), 1 if tier == 'quick' else 4), 400),
                                                                     ('missing-keys', lambda: Mx.missing_cases(random.Random(seed), 2 if tier == 'quick' else 12), 330),
                                                                     ('late-errors', Mx.late_error_cases, 320),
                                                                     ('sets', Mx.sets_cases, 80), ('lists', Mx.lists_cases, 250), ('zsets', Mx.zsets_cases, 150),
                                                                     ('ttl-rules', Mx.ttl_cases, 120)], OBSERVERS['C09'])),
    'C10': generic('C10', pre=lambda res, tier, seed, t_end, bad: matrix_pre(res, 'C10', tier, seed, t_end, [('subscriber-mode', Mx.subscriber_mode_cases, 500), ('pubsub-glob', Mx.pubsub_glob_cases, 100), ('pubsub-server', Mx.pubsub_server_cases, 100)], OBSERVERS['C10']),
                   plan_q=Cp.plan_multi(['pubsub', 'pubsub', 'tx', 'str', 'server'], 70, nconn=(2, 3, 4)),
                   plan_t=Cp.plan_multi(['pubsub', 'pubsub', 'tx', 'str', 'server'], 90, nconn=(2, 3, 4)), n_q=40, n_t=800, observers=OBSERVERS['C10']),
    'C13': run_C13,
    'C15': run_C15,
    'C16': run_C16,
    'C17': run_C17,
    'C18': run_C18,
}


def replay(prop, path):
    rec = json.load(open(path if os.path.isabs(path) else os.path.join(VERIF, path)))
    print(json.dumps({k: rec[k] for k in rec if k not in ('events',)}, indent=1, default=str)[:3000])
    if 'events' in rec:
        evs = [corr.ev_from_json(e) for e in rec['events']]
        obs = OBSERVERS.get(prop, ())
        s, d = Cp.replay_events(evs, rec.get('version', 7), rec.get('seed', 0), obs)
        for t in s.trace:
            print('  ', t)
        if d is not None:
            print('DIVERGENCE', d.what, d.event, '\n  impl ', d.impl_side, '\n  model', d.model_side)
        for v in getattr(s, 'violations', []):
            print('MONITOR', v.prop, v.clause, v.detail)
        failing = d is not None or getattr(s, 'violations', [])
        print('VIOLATION property=%s replay=%s' % (prop, path) if failing else 'replay no longer fails')
        return 1 if failing else 0
    if 'pattern' in rec:
        p = bytes.fromhex(rec['pattern']); sub = bytes.fromhex(rec.get('subject', ''))
        print('impl', Fn.impl_glob(p, sub), 'redis port', Fn.redis_glob(p, sub))
        bad = Fn.impl_glob(p, sub) != Fn.redis_glob(p, sub)
        print('VIOLATION property=%s replay=%s' % (prop, path) if bad else 'replay no longer fails')
        return 1 if bad else 0
    return 0

