"""What each property's check runs (step 3 and 4)."""
import json, os, random, sys, time
HERE = os.path.dirname(os.path.abspath(__file__))
VERIF = os.path.dirname(HERE)
sys.path.insert(0, HERE)
import campaigns as Cp
import monitors as Mn
import funcs as Fn
import corr, gen, canon as Cn
import impl as I
from props import PROPS

TRUSTED_BASE = [
    'Lean 4.33.0 kernel (thorough tier: re-checked by leanchecker)',
    'axioms: at most propext, Classical.choice, Quot.sound (printed per theorem by #print axioms); no native_decide/bv_decide/sorry',
    'translator tools/gen_lean.py (signature table, message/converter constants, literal command lists, _fix_range*, check_arity)',
    'correspondence harness /verif/harness (logical clock, recorded random picks, canonicalisation of set-ordered replies and DUMP payloads)',
    'hand-written executable Lean model FR.* of the command semantics: validated against the code by the correspondence, not verified',
    'CPython (int/float/format/slicing/dict/set/re/pickle/sha1/random), sortedcontainers, redis-py: modelled, not verified',
]
ASSUMPTIONS = {
    'all': ['requests are syntactically valid RESP arrays of bulk strings', 'EXPIRE-family arguments within +-10^6 s of the logical clock '
            '(float rounding of larger values is not modelled)', 'command names are ASCII (Unicode case folding of names is not modelled)'],
}
RULES = {
    'default': 'structured random histories from per-command templates (mostly-valid pools + malformed stream), executed on the real '
               'FakeSocket objects and on the Lean model; a case is a distinct (command, reply kind) cell observed on the implementation',
    'C16': 'glob (pattern, subject) pairs: random over the metacharacter alphabet and random binary; thorough enumerates all patterns up '
           'to length 4 over {a b * ? [ ] ^ - \\} x all subjects of length 1..3 over {a b - ] ^ \\}; distinct cell = (|pattern|, |subject|, verdict)',
}


# ----------------------------------------------------------------------------- known findings
def load_known_findings():
    p = os.path.join(VERIF, 'known_findings.json')
    if not os.path.exists(p):
        return []
    return [k for k in json.load(open(p)).get('findings', []) if k.get('status') == 'known']


def match_known(kf, prop, finding):
    for k in kf:
        if prop not in k.get('properties', [k.get('property')]):
            continue
        pred = KF_PREDICATES.get(k.get('class'))
        if pred and pred(finding):
            return k
    return None


def _events_of(finding):
    return [corr.ev_from_json(e) for e in finding.get('events', [])]


def kf_subscribe_in_multi(finding):
    """EXEC of a queue containing (P)SUBSCRIBE/(P)UNSUBSCRIBE: AssertionError escapes, connection dead"""
    evs = _events_of(finding)
    queued_sub = False
    for e in evs:
        if e[0] == 'cmd':
            n = Cn.name_of(e[2])
            if n in Mn.SUBFAMILY:
                queued_sub = True
    detail = json.dumps(finding, default=str)
    return queued_sub and ('AssertionError' in detail or 'StopIteration' in detail)


KF_PREDICATES = {'subscribe_in_multi': kf_subscribe_in_multi}


def replay_known(kf, prop):
    """re-run each listed finding of this property against the real code; print it if it still fails"""
    out = []
    for k in kf:
        if prop not in k.get('properties', [k.get('property')]):
            continue
        path = os.path.join(VERIF, k['replay'])
        try:
            rec = json.load(open(path))
            evs = [corr.ev_from_json(e) for e in rec['events']]
            im = I.Impl(version=rec.get('version', 7), seed=0)
            crash = None
            for e in evs:
                if e[0] == 'open':
                    im.open(e[1])
                elif e[0] == 'cmd':
                    _, c, _, _ = im.send(e[1], corr.encode_request(e[2]))
                    crash = crash or c
            if crash:
                out.append('KNOWN-FINDING: property=%s %s %s' % (prop, k['id'], k['what']))
        except Exception as ex:     # a broken replay file must not hide anything
            out.append('KNOWN-FINDING-REPLAY-ERROR: %s %r' % (k.get('id'), ex))
    return out


# ----------------------------------------------------------------------------- per-property runs
def budget(tier, quick, thorough):
    return quick if tier == 'quick' else thorough


def run(prop, tier, seed, undischarged):
    res = Cp.Result()
    t_end = time.time() + (budget(tier, 150, 1500))
    fn = RUNNERS[prop]
    fn(res, tier, seed, t_end, undischarged)
    return res


def run_C16(res, tier, seed, t_end, bad):
    m = corr.get_model(7)
    out = {'evaluations': 0, 'cells': set()}
    rng = random.Random(seed * 7 + 16)
    cases = {}
    for p, s in Fn.glob_cases_random(rng, budget(tier, 6000, 60000)):
        cases.setdefault(p, []).append(s)
    corpus = [(b'h[a-c]*o', [b'hbllo', b'hdllo']), (b'[^a]?\\*', [b'bc*', b'ac*']), (b'[', [b'a', b'[']), (b'k\\', [b'k\\', b'k']),
              (b'[]', [b'a']), (b'[^]', [b'a']), (b'[a-', [b'a', b'-']), (b'*', [b'', b'x']), (b'**a', [b'a', b'ba']), (b'[\\', [b'\\'])]
    res.findings.extend(Fn.glob_check(m, corpus + sorted(cases.items()), out))
    if tier == 'thorough' and not res.findings:
        import itertools
        subs = [b''.join(t) for n in (1, 2, 3) for t in itertools.product(Fn.GLOB_SUB_ALPHA, repeat=n)]
        maxlen = 4
        pats = ((b''.join(t), subs) for n in range(0, maxlen + 1) for t in itertools.product(Fn.GLOB_PAT_ALPHA, repeat=n))
        res.findings.extend(Fn.glob_check(m, pats, out))
        res.exhaustive = True
        res.notes.append('exhaustive: all patterns of length <= %d over 9 symbols x %d subjects' % (maxlen, len(subs)))
    res.evaluations += out['evaluations']
    res.cells |= out['cells']
    res.samples.append({'pattern': 'h[a-c]*o', 'subject': 'hbllo', 'impl': Fn.impl_glob(b'h[a-c]*o', b'hbllo'),
                        'python_port_of_stringmatchlen': Fn.redis_glob(b'h[a-c]*o', b'hbllo')})
    # the users of the matcher: KEYS, SCAN MATCH, PSUBSCRIBE delivery through the whole stack
    if not res.findings:
        plan = Cp.plan_multi(['pubsub', 'key', 'scan', 'str', 'set', 'hash'], budget(tier, 40, 80), churn=False)
        Cp.run_campaign(res, 'C16', plan, budget(tier, 25, 250), seed, PROPS['C16']['scope'], deadline=t_end)


RUNNERS = {'C16': run_C16}


def replay(prop, path):
    rec = json.load(open(path if os.path.isabs(path) else os.path.join(VERIF, path)))
    print(json.dumps({k: rec[k] for k in rec if k not in ('events',)}, indent=1, default=str)[:3000])
    if 'events' in rec:
        evs = [corr.ev_from_json(e) for e in rec['events']]
        obs = OBSERVERS.get(prop, ())
        s, d = Cp.replay_events(evs, rec.get('version', 7), rec.get('seed', 0), obs)
        for t in s.trace:
            print('  ', t)
        if d is not None:
            print('DIVERGENCE', d.what, d.event, '\n  impl ', d.impl_side, '\n  model', d.model_side)
        for v in getattr(s, 'violations', []):
            print('MONITOR', v.prop, v.clause, v.detail)
        failing = d is not None or getattr(s, 'violations', [])
        print('VIOLATION property=%s replay=%s' % (prop, path) if failing else 'replay no longer fails')
        return 1 if failing else 0
    if 'pattern' in rec:
        p = bytes.fromhex(rec['pattern']); sub = bytes.fromhex(rec.get('subject', ''))
        print('impl', Fn.impl_glob(p, sub), 'redis port', Fn.redis_glob(p, sub))
        bad = Fn.impl_glob(p, sub) != Fn.redis_glob(p, sub)
        print('VIOLATION property=%s replay=%s' % (prop, path) if bad else 'replay no longer fails')
        return 1 if bad else 0
    return 0


OBSERVERS = {}
