"""Asyncio front-end under a virtual-time event loop (C14): the real AsyncFakeSocket, its real re-try task and
async_timeout; time only moves when the harness says so and the loop is run to quiescence after every event."""
import asyncio, selectors, signal, warnings
import impl as I


class Hang(BaseException):
    pass


class watchdog:
    """a callback that never returns (e.g. waits for a lock its own thread holds) must not hang the check: SIGALRM interrupts it"""
    def __init__(self, seconds=20):
        self.seconds = seconds

    def _fire(self, signum, frame):
        raise Hang('no progress for %d s' % self.seconds)

    def __enter__(self):
        try:
            self.old = signal.signal(signal.SIGALRM, self._fire)
            signal.alarm(self.seconds)
        except ValueError:          # not in the main thread
            self.old = None

    def __exit__(self, *a):
        if self.old is not None:
            signal.alarm(0)
            signal.signal(signal.SIGALRM, self.old)
        return False

warnings.filterwarnings('ignore', category=DeprecationWarning)
from fakeredis import _aioredis2 as A2, _async as AS      # noqa: E402


class VLoop(asyncio.SelectorEventLoop):
    def __init__(self):
        super().__init__(selectors.SelectSelector())
        self.vtime = 1000.0

    def time(self):
        return self.vtime

    def settle(self, rounds=6):
        """run ready callbacks (and due timers) without letting real time pass"""
        for _ in range(rounds):
            self.call_soon(self.stop)
            self.run_forever()


class AsyncImpl(I.Impl):
    def __init__(self, version=7, seed=0):
        super().__init__(version, seed, fake_condition=True)
        self.loop = VLoop()
        asyncio.set_event_loop(self.loop)
        clock, rnd = self.clock, self.rnd

        class ASock(A2.FakeSocket):
            def _decode_error(self, error):
                return I.RawError(error.value)

            def sort(self, key, *args):
                if isinstance(key.value, set):
                    rnd.log.append(list(key.value))
                return A2.FakeSocket.sort(self, key, *args)
            sort._fakeredis_sig = A2.FakeSocket.sort._fakeredis_sig
        self.Sock = ASock
        self.task_errors = []
        self.loop.set_exception_handler(lambda loop, ctx: self.task_errors.append(repr(ctx.get('exception'))))

    def open(self, c):
        self.socks[c] = self.Sock(self.srv)

    def send(self, c, data):
        self.clock.log = []
        self.rnd.log = []
        crash = None
        try:
            with watchdog():
                self.socks[c].sendall(data)
        except BaseException as e:       # noqa
            crash = type(e).__name__
        return self.drain(), crash, list(self.clock.log), [list(p) for p in self.rnd.log]

    hung = None

    def settle(self):
        self.clock.log = []
        try:
            with watchdog():
                self.loop.settle()
        except Hang as e:
            self.hung = 'the event loop did not come back: %s' % e
        return self.drain(), list(self.clock.log)

    def advance_loop(self, seconds):
        self.loop.vtime += seconds

    def paused(self, c):
        return self.socks[c]._paused

    def shutdown(self):
        try:
            for sk in list(self.socks.values()):
                try:
                    if sk._server is not None:
                        sk.close()
                except Exception:
                    pass
            for t in asyncio.all_tasks(self.loop):
                t.cancel()
            self.loop.settle(3)
            self.loop.close()
        except Exception:
            pass
