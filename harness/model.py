"""Model side: the compiled Lean driver behind a line protocol."""
import os, subprocess

VERIF = os.path.dirname(os.path.dirname(os.path.abspath(__file__)))
DRIVER = os.path.join(VERIF, 'lean', '.lake', 'build', 'bin', 'driver')


def hx(b):
    return b.hex() if b else '_'


def fmt_clocks(cl):
    return ','.join(map(str, cl)) if cl else '-'


def fmt_picks(pk):
    if not pk:
        return '-'
    return ';'.join(','.join(hx(x) for x in p) if p else '.' for p in pk)


class Model:
    def __init__(self, version=7):
        self.p = subprocess.Popen([DRIVER], stdin=subprocess.PIPE, stdout=subprocess.PIPE, bufsize=0)
        self.lines = 0
        self.ask('version %d' % version)

    def ask(self, line):
        self.p.stdin.write((line + '\n').encode())
        self.p.stdin.flush()
        self.lines += 1
        out = self.p.stdout.readline()
        if not out:
            raise RuntimeError('driver died on: ' + line)
        return out.decode().rstrip('\n')

    def reset(self, version=7):
        self.ask('reset')
        self.ask('version %d' % version)

    def open(self, c):
        return self.ask('open %d' % c)

    def close_conn(self, c):
        return self.ask('close %d' % c)

    def cmd(self, c, fields, clocks, picks, park=False):
        return self.ask('cmd %d %d %s %s %s' % (c, int(park), fmt_clocks(clocks), fmt_picks(picks),
                                                   ' '.join(hx(f) for f in fields)))

    def send(self, c, data, clocks, picks):
        return self.ask('send %d %s %s %s' % (c, fmt_clocks(clocks), fmt_picks(picks), hx(data)))

    def sendm(self, c, data, clocks, picks, park=0):
        return self.ask('sendm %d %d %s %s %s' % (c, int(park), fmt_clocks(clocks), fmt_picks(picks), hx(data)))

    def snap(self):
        return self.ask('snap')

    def quit(self):
        try:
            self.p.stdin.close()
            self.p.wait(timeout=5)
        except Exception:
            self.p.kill()


def parse_reply(txt):
    """model reply text -> python structure: None | int | ('b', bytes) | ('e', str) | list"""
    pos = 0

    def rec():
        nonlocal pos
        if txt.startswith('nil', pos):
            pos += 3
            return None
        if txt[pos] == '[':
            pos += 1
            out = []
            if txt[pos] == ']':
                pos += 1
                return out
            while True:
                out.append(rec())
                if txt[pos] == ',':
                    pos += 1
                    continue
                assert txt[pos] == ']', txt
                pos += 1
                return out
        kind = txt[pos]
        assert txt[pos + 1] == ':', txt
        pos += 2
        start = pos
        while pos < len(txt) and txt[pos] not in ',]':
            pos += 1
        body = txt[start:pos]
        if kind == 'i':
            return int(body)
        raw = bytes.fromhex(body)
        if kind in 'bs':
            return ('b', raw)
        if kind == 'e':
            v = raw.decode('utf-8', 'replace')
            U = "ERR unknown command '"
            if U in v:
                v = v[:v.index(U) + len(U)]
            return ('e', v)
        raise ValueError(txt)
    r = rec()
    assert pos == len(txt), (txt, pos)
    return r


def parse_out(line):
    """'R 1:<reply> 2:<reply> C:kind F:fault' -> (dict conn -> [reply], crash, fault)"""
    assert line.startswith('R'), line
    out, crash, fault = {}, None, None
    for tok in line.split()[1:]:
        if tok.startswith('C:'):
            crash = tok[2:]
        elif tok.startswith('F:'):
            fault = tok[2:]
        else:
            c, _, r = tok.partition(':')
            out.setdefault(int(c), []).append(parse_reply(r))
    return out, crash, fault
