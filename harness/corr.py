"""Correspondence engine: run one history on the implementation and on the Lean model, compare."""
import re
import json, os, sys, time as _time
sys.path.insert(0, os.path.dirname(os.path.abspath(__file__)))
import impl as I
import model as Mo
import canon as Cn

_MODEL = None


def get_model(version):
    global _MODEL
    if _MODEL is None:
        _MODEL = Mo.Model(version)
    else:
        _MODEL.reset(version)
    return _MODEL


def encode_request(fields):
    out = b'*%d\r\n' % len(fields)
    for f in fields:
        out += b'$%d\r\n%s\r\n' % (len(f), f)
    return out


def model_fields(fields):
    name = Cn.name_of(fields)
    if name == 'restore' and len(fields) >= 4:
        f = list(fields)
        f[3] = I.payload_to_model(f[3])
        return f
    return fields


class Divergence(Exception):
    def __init__(self, index, event, what, impl_side, model_side):
        self.index, self.event, self.what = index, event, what
        self.impl_side, self.model_side = impl_side, model_side

    def to_json(self):
        return {'index': self.index, 'event': ev_json(self.event), 'what': self.what,
                'impl': self.impl_side, 'model': self.model_side}


def ev_json(ev):
    if ev[0] == 'cmdw':
        return ['cmdw', ev[1], [[x.hex() for x in f] for f in ev[2]]]
    return [x.hex() if isinstance(x, bytes) else ([y.hex() for y in x] if isinstance(x, list) else x) for x in ev]


def ev_from_json(j):
    kind = j[0]
    if kind == 'cmd':
        return ('cmd', j[1], [bytes.fromhex(x) for x in j[2]])
    if kind == 'send':
        return ('send', j[1], bytes.fromhex(j[2]))
    if kind == 'cmdw':
        return ('cmdw', j[1], [[bytes.fromhex(x) for x in f] for f in j[2]])
    return tuple(j)


class Session:
    """Runs events on both sides; raises Divergence at the first difference."""

    def __init__(self, version=7, seed=0, compare_state=True, observers=(), sched=False, aio=False, scripts=False):
        self.version = version
        self.aio = aio
        if aio:
            import aimpl
            self.impl = aimpl.AsyncImpl(version=version, seed=seed)
            self.pending = {}      # conn -> number of requests pipelined behind a blocking pop
            self.park_info = {}    # conn -> (virtual time when parked, requested timeout)
        elif sched:
            import sched as Sc
            self.impl = Sc.SchedImpl(version=version, seed=seed)
            self.impl.parked_kind = {}
        else:
            self.impl = I.Impl(version=version, seed=seed)
        self.sched = sched
        if scripts:
            import scripts as Sx
            self.impl.Sock = Sx.make_script_socket(self.impl.Sock, self.impl.rnd)
        self.model = get_model(version)
        self.queues = {}          # conn -> list of queued command names (None when not in MULTI)
        self.compare_state = compare_state
        self.index = -1
        self.observers = list(observers)
        self.stats = {'events': 0, 'cmds': 0, 'cells': set(), 'errors': 0, 'replies': {}}
        self.payloads = []
        self.trace = []

    # ------------------------------------------------------------------
    def run(self, events):
        for ev in events:
            self.step(ev)

    def step(self, ev):
        self.index += 1
        self.stats['events'] += 1
        kind = ev[0]
        if kind == 'open':
            self.impl.open(ev[1]); self.model.open(ev[1]); self.queues[ev[1]] = None
        elif kind == 'close':
            self.impl.close(ev[1]); self.model.close_conn(ev[1])
        elif kind == 'adv':
            self.impl.clock.advance_ms(ev[1])
        elif kind == 'conn':
            self.impl.srv.connected = bool(ev[1]); self.model.ask('conn %d' % (1 if ev[1] else 0))
        elif kind == 'cmd':
            self.cmd(ev, ev[1], ev[2])
        elif kind == 'cmdq':
            # asyncio front-end: the request is written but the event loop does not get a turn before the next event
            self.cmd(ev, ev[1], ev[2], settle=False)
        elif kind in ('wake', 'timeout'):
            self.resume(ev, ev[1], kind == 'wake')
        elif kind == 'aadv':
            self.impl.advance_loop(ev[1])
            self.impl.clock.advance_ms(int(ev[1] * 1000))
            self.after_async(ev)
        elif kind == 'gc':
            import gc
            self.impl.socks.pop(ev[1], None)
            self.impl.closed.discard(ev[1])
            gc.collect()
            self.model.ask('gc %d' % ev[1])
            if self.compare_state:
                self.compare_snap(ev)
        elif kind == 'send':
            self.raw_send(ev, ev[1], ev[2])
        elif kind == 'cmdw':
            self.one_write(ev, ev[1], ev[2])
        else:
            raise ValueError(ev)

    # ------------------------------------------------------------------
    def cmd(self, ev, c, fields, settle=True):
        self.stats['cmds'] += 1
        # b'@PAYLOAD' / b'@PAYLOAD1' stand for the last / last-but-one DUMP reply of this session (explicit scenarios)
        if any(isinstance(f, bytes) and f.startswith(b'@PAYLOAD') for f in fields):
            fields = [(self.payloads[-1 - int(f[8:] or 0)] if len(self.payloads) > int(f[8:] or 0) else b'no-payload-yet')
                      if isinstance(f, bytes) and f.startswith(b'@PAYLOAD') else f for f in fields]
            ev = (ev[0], c, fields)
        name = Cn.name_of(fields)
        before = self.impl.snapshot_struct() if self.observers else None
        if self.sched:
            self.impl.parked_kind[c] = name
        was_paused = bool(self.aio and self.impl.socks[c]._paused)
        out_i, crash_i, clocks, picks = self.impl.send(c, encode_request(fields))
        self.last_out = out_i
        mine = out_i.get(c, [])
        self.last_raw = mine[0] if len(mine) == 1 else mine
        if self.aio:
            line = self.model.cmd(c, model_fields(fields), clocks, picks, park=2)
            if was_paused:
                self.pending[c] = self.pending.get(c, 0) + 1
                self.__dict__.setdefault('pending_cmds', {}).setdefault(c, []).append(list(fields))
            elif self.impl.socks[c]._paused:
                if not hasattr(self.impl, 'parked_kind'):
                    self.impl.parked_kind = {}
                self.impl.parked_kind[c] = name
                try:
                    self.park_info[c] = (self.impl.loop.vtime, float(fields[-1]))
                except ValueError:
                    pass
        else:
            line = self.model.cmd(c, model_fields(fields), clocks, picks, park=self.sched)
        self.compare_outputs(ev, c, name, out_i, crash_i, line)
        if self.aio:
            if self.compare_state:
                self.compare_snap(ev)
            if settle:
                self.after_async(ev)
            return
        if self.compare_state:
            self.compare_snap(ev)
        for ob in self.observers:
            ob(self, ev, name, before, out_i, crash_i)

    def resume(self, ev, c, wake):
        before = self.impl.snapshot_struct() if self.observers else None
        name = self.impl.parked_kind.get(c)
        out_i, crash_i, clocks, picks = self.impl.resume(c, wake)
        self.last_out = out_i
        line = self.model.ask('wake %d %s' % (c, Mo.fmt_clocks(clocks))) if wake else self.model.ask('timeout %d' % c)
        self.compare_outputs(ev, c, None, out_i, crash_i, line)
        if self.compare_state:
            self.compare_snap(ev)
        for ob in self.observers:
            ob(self, ev, name, before, out_i, crash_i)

    def after_async(self, ev):
        """run the event loop to quiescence and replay on the model what the re-try tasks did"""
        paused_before = [c for c, s in sorted(self.impl.socks.items()) if s._paused]
        out_i, clocks = self.impl.settle()
        if getattr(self.impl, 'hung', None):
            raise Divergence(self.index, ev, 'hang', {'event loop': self.impl.hung}, 'the model completes every event')
        self.last_out = out_i
        with_pending = [c for c in paused_before if self.pending.get(c)]
        for c in paused_before:
            mine = out_i.get(c, [])
            still = self.impl.socks[c]._paused
            cl = clocks if (with_pending and c == with_pending[0]) or (not with_pending and c == paused_before[0]) else []
            if still and not mine:
                t0, req = self.park_info.get(c, (None, None))
                if t0 is not None and req and self.impl.loop.vtime - t0 > req + 1e-6:
                    Mn_add(self, 'C14', 'timeout_not_late', 'still waiting %.3f s after a blocking pop with a %.3f s timeout was sent (the event loop is idle)' % (self.impl.loop.vtime - t0, req))
                line = self.model.ask('awake %d -' % c)
                om, crash_m, fault = Mo.parse_out(line)
                if om or fault:
                    raise Divergence(self.index, ev, 'async-recheck', {'conn': c, 'impl': 'still parked'}, line)
                continue
            first = mine[0] if mine else '<nothing>'
            if first is None:
                kind = 'atimeout'
                t0, req = self.park_info.get(c, (None, None))
                if t0 is not None and req and self.impl.loop.vtime - t0 < req - 1e-9:
                    Mn_add(self, 'C14', 'timeout_not_early', 'nil after %.3f s of a %.3f s timeout' % (self.impl.loop.vtime - t0, req))
                if t0 is not None and req == 0:
                    Mn_add(self, 'C14', 'timeout_not_early', 'a blocking pop with timeout 0 (wait for ever) answered nil after %.3f s' % (self.impl.loop.vtime - t0))
            else:
                kind = 'awake'
            line = self.model.ask('%s %d %s' % (kind, c, Mo.fmt_clocks(cl)))
            self.pending.pop(c, None)
            self.compare_outputs(ev, c, None, {c: mine}, None, line)
            # a blocking pop that was pipelined behind this one may be the parked command now: its own timeout counts from here
            queued = self.__dict__.setdefault('pending_cmds', {}).pop(c, [])
            self.park_info.pop(c, None)
            if self.impl.socks[c]._paused:
                for i, f in enumerate(queued):
                    if Cn.name_of(f) in ('blpop', 'brpop', 'brpoplpush'):
                        try:
                            self.park_info[c] = (self.impl.loop.vtime, float(f[-1]))
                        except ValueError:
                            pass
                        self.impl.parked_kind[c] = Cn.name_of(f)
                        rest = queued[i + 1:]
                        if rest:
                            self.pending_cmds[c] = rest
                            self.pending[c] = len(rest)
                        break
        extra = {c: v for c, v in out_i.items() if c not in paused_before}
        if extra:
            raise Divergence(self.index, ev, 'async-unexpected-output', _show({k: [Cn.from_impl(x) for x in v] for k, v in extra.items()}, None), '')
        if self.impl.task_errors:
            errs, self.impl.task_errors = list(self.impl.task_errors), []
            Mn_add(self, 'C14', 'task_exception', 'exception escaped the re-try task: %s' % errs)
        if self.compare_state:
            self.compare_snap(ev)

    def raw_send(self, ev, c, data):
        out_i, crash_i, clocks, picks = self.impl.send(c, data)
        line = self.model.send(c, data, clocks, picks)
        self.compare_outputs(ev, c, None, out_i, crash_i, line)
        if self.compare_state:
            self.compare_snap(ev)

    def one_write(self, ev, c, reqs, settle=True):
        """asyncio front-end: several requests in ONE write (what a non-transactional pipeline of the client does).  If the first one parks, the
        rest is buffered behind it and answered after it, in order"""
        assert self.aio
        data = b''.join(encode_request(f) for f in reqs)
        was_paused = bool(self.impl.socks[c]._paused)
        out_i, crash_i, clocks, picks = self.impl.send(c, data)
        self.last_out = out_i
        line = self.model.sendm(c, b''.join(encode_request(model_fields(f)) for f in reqs), clocks, picks, park=2)
        if was_paused:
            self.pending[c] = self.pending.get(c, 0) + len(reqs)
            self.__dict__.setdefault('pending_cmds', {}).setdefault(c, []).extend(list(f) for f in reqs)
        elif self.impl.socks[c]._paused:
            if not hasattr(self.impl, 'parked_kind'):
                self.impl.parked_kind = {}
            # the request that parked: the first blocking pop of the write (the ones before it were answered at once)
            blk = [i for i, f in enumerate(reqs) if Cn.name_of(f) in ('blpop', 'brpop', 'brpoplpush')]
            first = blk[0] if blk else 0
            self.impl.parked_kind[c] = Cn.name_of(reqs[first])
            try:
                self.park_info[c] = (self.impl.loop.vtime, float(reqs[first][-1]))
            except ValueError:
                pass
            self.pending[c] = self.pending.get(c, 0) + len(reqs) - first - 1
            if reqs[first + 1:]:
                self.__dict__.setdefault('pending_cmds', {}).setdefault(c, []).extend(list(f) for f in reqs[first + 1:])
        self.compare_outputs(ev, c, None, out_i, crash_i, line)
        if self.compare_state:
            self.compare_snap(ev)
        if settle:
            self.after_async(ev)

    def compare_outputs(self, ev, c, name, out_i, crash_i, line):
        out_m, crash_m, fault = Mo.parse_out(line)
        queue = self.queues.get(c)
        ci = {k: [Cn.canon(name if k == c else None, Cn.from_impl(r), queue, True) for r in v]
              for k, v in out_i.items()}
        cm = {k: [Cn.canon(name if k == c else None, r, queue, False) for r in v] for k, v in out_m.items()}
        # remember DUMP payloads for later RESTOREs
        for r in out_i.get(c, []):
            if name == 'dump' and isinstance(r, bytes):
                self.payloads.append(r)
            if name == 'exec' and isinstance(r, list):
                self.payloads.extend(x for x in r if isinstance(x, bytes) and len(x) > 20 and x[20:21] == b'\x80')
        self.trace.append((self.index, ev, {k: [Cn.show(x) for x in v] for k, v in ci.items()}, crash_i))
        if fault is not None:
            raise Divergence(self.index, ev, 'model-fault:' + fault, _show(ci, crash_i), line)
        if crash_i != crash_m:
            raise Divergence(self.index, ev, 'crash', _show(ci, crash_i), _show(cm, crash_m))
        if ci != cm:
            raise Divergence(self.index, ev, 'reply', _show(ci, crash_i), _show(cm, crash_m))
        # bookkeeping of MULTI state for EXEC canonicalisation (taken from the implementation's replies)
        if name is not None:
            mine = out_i.get(c, [])
            if name == 'multi' and mine == [b'OK']:
                self.queues[c] = []
            elif name in ('exec', 'discard'):
                s = self.impl.socks[c]
                if s._transaction is None:
                    self.queues[c] = None
            elif self.queues.get(c) is not None and mine == [b'QUEUED']:
                self.queues[c].append(name)
            # statistics
            for r in ci.get(c, []):
                kind = _kind(r)
                self.stats['cells'].add((name, kind))
                self.stats['replies'][kind] = self.stats['replies'].get(kind, 0) + 1
                if kind.startswith('err'):
                    self.stats['errors'] += 1

    def check_no_aliasing(self, ev):
        """no two keys may share one Python container (the model has value semantics); turn it into a failing history"""
        seen = {}
        for i, db in self.impl.srv.dbs.items():
            for k, it in list(db._dict.items()):
                v = it.value
                if isinstance(v, bytes) or v is None:
                    continue
                if id(v) in seen and seen[id(v)] != (i, k):
                    raise Divergence(self.index, ev, 'aliasing', {'shared container': '%r and %r hold the same %s object' % (
                        seen[id(v)], (i, k), type(v).__name__)}, 'the model stores independent values')
                seen[id(v)] = (i, k)

    def check_reply_aliasing(self, ev):
        """a reply must be a value, not the stored container itself (it is read after the lock was released)"""
        stored = {}
        for i, db in self.impl.srv.dbs.items():
            for k, it in list(db._dict.items()):
                if isinstance(it.value, (list, dict, set)):
                    stored[id(it.value)] = (i, k)
                if hasattr(it.value, '_byscore'):
                    stored[id(it.value._byscore)] = (i, k)
                    stored[id(it.value._bylex)] = (i, k)

        def walk(r):
            if id(r) in stored and isinstance(r, (list, dict, set)):
                raise Divergence(self.index, ev, 'aliasing', {'reply aliases stored value': 'the reply object is the container stored at %r' % (stored[id(r)],)},
                                 'replies are values')
            if isinstance(r, list):
                for x in r:
                    walk(x)
        for rs in (getattr(self, 'last_out', None) or {}).values():
            for r in rs:
                walk(r)
        ul = getattr(self.impl.clock, 'unlocked', None)
        if ul:
            what = ul[0]
            del ul[:]
            raise Divergence(self.index, ev, 'locking', {'outside the server lock': what}, 'clock readings and deliveries to other connections happen inside the critical section')
        al = getattr(self.impl.clock, 'aliased_results', None)
        if al:
            where = al[0]
            del al[:]
            raise Divergence(self.index, ev, 'aliasing', {'result aliases stored value': 'the command returned the container stored at %r itself; it is converted '
                                                          'for the caller after the server lock is released' % (where,)}, 'replies are values')

    def compare_snap(self, ev):
        self.check_no_aliasing(ev)
        self.check_reply_aliasing(ev)
        si = self.impl.snapshot()
        sm = self.model.snap()
        if self.aio:
            sm = sm.replace('!,paused', ',paused')
        si, sm = _sort_conns(si), _sort_conns(sm)
        if si != sm:
            raise Divergence(self.index, ev, 'state', si, sm)


_CONN_RE = re.compile(r'c(\d+)\{[^}]*\}')


def _sort_conns(snap):
    """connection records in a canonical order (the implementation lists them by id, the model in the order they were opened)"""
    found = list(_CONN_RE.finditer(snap))
    if len(found) < 2:
        return snap
    ordered = sorted((m.group(0) for m in found), key=lambda t: int(t[1:t.index('{')]))
    out, pos = [], 0
    for m, t in zip(found, ordered):
        out.append(snap[pos:m.start()])
        out.append(t)
        pos = m.end()
    out.append(snap[pos:])
    return ''.join(out)


def Mn_add(session, prop, clause, detail):
    import monitors as Mn
    Mn.add(session, prop, clause, detail)


def _kind(r):
    if r is None:
        return 'nil'
    if isinstance(r, int):
        return 'int'
    if isinstance(r, list):
        return 'arr0' if not r else 'arr'
    if r[0] == 'e':
        return 'err:' + r[1].split(' ')[0]
    return 'bulk'


def _show(outs, crash):
    d = {str(k): [Cn.show(x) for x in v] for k, v in sorted(outs.items())}
    if crash:
        d['crash'] = crash
    return d


def run_history(events, version=7, seed=0, compare_state=True, observers=()):
    """-> (Session, Divergence or None)"""
    s = Session(version, seed, compare_state, observers)
    try:
        s.run(events)
        return s, None
    except Divergence as d:
        return s, d


def shrink(events, version, seed, still_fails, budget=400):
    """greedy one-at-a-time removal keeping `still_fails(events)`"""
    cur = list(events)
    changed = True
    runs = 0
    while changed and runs < budget:
        changed = False
        i = len(cur) - 1
        while i >= 0 and runs < budget:
            if cur[i][0] == 'open':
                i -= 1
                continue
            cand = cur[:i] + cur[i + 1:]
            runs += 1
            if still_fails(cand):
                cur = cand
                changed = True
            i -= 1
    return cur
