"""C11: blocking pops under an explicit scheduler, plus a real-thread smoke run."""
import random, threading, time
import corr, gen, canon as Cn
import impl as I
import monitors as Mn
import campaigns as Cp

LKEYS = [b'l0', b'l1', b'l2']


def plan_blocking(length):
    def plan(s, rng):
        nc, npd = rng.choice([1, 2, 3]), rng.choice([1, 2, 3])
        consumers = list(range(1, nc + 1))
        producers = list(range(nc + 1, nc + npd + 1))
        for c in consumers + producers:
            yield ('open', c)
        s.tokens = 0
        s.in_multi = set()
        if rng.random() < 0.3:
            yield ('cmd', producers[0], [b'set', b'l2', b'str'])       # a wrong-type key among the watched ones
        if rng.random() < 0.3:
            for c in consumers:
                yield ('cmd', c, [b'select', b'1'])
            s.cdb = 1
        else:
            s.cdb = 0

        def tok():
            s.tokens += 1
            return b'e%d' % s.tokens
        for _ in range(length):
            parked = dict(s.impl.waiters)
            idle = [c for c in consumers if c not in parked and s.impl.socks[c]._parser.gi_frame is not None]
            r = rng.random()
            if idle and r < 0.25:
                c = rng.choice(idle)
                k = rng.random()
                to = rng.choice([b'0', b'1', b'2', b'5'])
                if c in s.in_multi:
                    yield ('cmd', c, rng.choice([[b'exec'], [b'blpop', rng.choice(LKEYS), to], [b'rpush', rng.choice(LKEYS), tok()]]))
                    if s.impl.socks[c]._transaction is None:
                        s.in_multi.discard(c)
                elif k < 0.08:
                    yield ('cmd', c, [b'multi'])
                    s.in_multi.add(c)
                elif k < 0.7:
                    keys = rng.sample(LKEYS, rng.choice([1, 1, 2, 3]))
                    yield ('cmd', c, [rng.choice([b'blpop', b'brpop'])] + keys + [to])
                else:
                    yield ('cmd', c, [b'brpoplpush', rng.choice(LKEYS), rng.choice(LKEYS + [b'dst']), to])
            elif parked and r < 0.55:
                notified = [c for c, w in parked.items() if w['notified']]
                c = rng.choice(notified) if notified and rng.random() < 0.85 else rng.choice(list(parked))
                yield ('wake', c)
            elif parked and r < 0.62:
                c = rng.choice(list(parked))
                w = parked[c]
                if w['timeout'] is not None:
                    yield ('adv', int(w['timeout'] * 1000) + rng.choice([1, 50, 1000]))
                    yield ('timeout', c)
            elif parked and r < 0.70 and any(len(s.__dict__.get('parked_fields', {}).get(c, [])) > 3 for c in parked):
                # turn an earlier key of a multi-key blocked consumer into a non-list, then feed a later key
                c = next(c for c in parked if len(s.__dict__.get('parked_fields', {}).get(c, [])) > 3)
                f = s.parked_fields[c]
                p = rng.choice(producers)
                if p not in s.in_multi and s.impl.socks[p]._db_num == s.impl.socks[c]._db_num:
                    yield ('cmd', p, [b'set', f[1], b'str'])
                    yield ('cmd', p, [b'rpush', f[-2], tok()])
                    yield ('wake', c)
            else:
                p = rng.choice(producers)
                k = rng.random()
                key = rng.choice(LKEYS)
                if p in s.in_multi:
                    f = rng.choice([[b'exec'], [b'rpush', key, tok()], [b'lpush', key, tok(), tok()], [b'discard']])
                    yield ('cmd', p, f)
                    if s.impl.socks[p]._transaction is None:
                        s.in_multi.discard(p)
                elif k < 0.5:
                    yield ('cmd', p, [rng.choice([b'rpush', b'lpush']), key] + [tok() if rng.random() < 0.85 else b'' for _ in range(rng.choice([1, 1, 2, 3]))])
                elif k < 0.58:
                    yield ('cmd', p, [b'multi'])
                    s.in_multi.add(p)
                elif k < 0.64:
                    yield ('cmd', p, [b'select', rng.choice([b'0', b'1'])])
                elif k < 0.70:
                    yield ('cmd', p, [b'move', key, rng.choice([b'0', b'1'])])
                elif k < 0.74:
                    yield ('cmd', p, [b'swapdb', b'0', b'1'])
                elif k < 0.80:
                    yield ('cmd', p, [b'renamenx', key, rng.choice(LKEYS)])
                elif k < 0.83:
                    # overwrite / delete a list key while consumers may be parked on it (its tokens are destroyed legitimately)
                    yield ('cmd', p, rng.choice([[b'set', key, b'str'], [b'del', key], [b'sadd', key, b'x']]))
                elif k < 0.86:
                    yield ('cmd', p, [b'lpop', key])
                elif k < 0.90:
                    yield ('cmd', p, [b'rpoplpush', key, rng.choice(LKEYS)])
                elif k < 0.94:
                    yield ('adv', rng.choice([100, 1000, 3000]))
                else:
                    yield ('cmd', p, rng.choice([[b'llen', key], [b'sadd', b'l2', b'x'], [b'expire', key, b'100'], [b'lrange', key, b'0', b'-1']]))
        # quiesce: wake everybody that was notified, time the rest out
        for _ in range(12):
            parked = dict(s.impl.waiters)
            notified = [c for c, w in parked.items() if w['notified']]
            if not notified:
                break
            yield ('wake', notified[0])
        for c, w in list(s.impl.waiters.items()):
            if c in s.impl.waiters:
                if w['timeout'] is not None:
                    yield ('adv', int(w['timeout'] * 1000) + 1)
                yield ('timeout', c)
    return plan


def mon_blocking(session, ev, name, before, out_i, crash_i):
    """conservation, no lost wake-up, never blocks inside EXEC, honest wait() arguments"""
    im = session.impl
    st = im.snapshot_struct()
    # conservation: every pushed token is in exactly one list or was delivered exactly once
    led = session.__dict__.setdefault('ledger', {'delivered': [], 'pushed': set()})
    if ev[0] == 'cmd':
        for f in ev[2][1:]:
            if f.startswith(b'e') and f[1:].isdigit():
                led['pushed'].add(f)
    for c, rs in out_i.items():
        for r in rs:
            for x in _flatten(r):
                if isinstance(x, bytes) and x.startswith(b'e') and x[1:].isdigit():
                    cmdname = name if c == ev[1] else None
                    if cmdname in ('lrange',):
                        continue
                    if cmdname in ('brpoplpush', 'rpoplpush') and ev[0] == 'cmd' or (ev[0] in ('wake',) and session.impl.parked_kind.get(c) == 'brpoplpush'):
                        continue        # moved into another list, not delivered out of the lists
                    led['delivered'].append(x)
    in_lists = []
    for i, ents in st['dbs'].items():
        for k, v, e in ents:
            if v.startswith('L') and len(v) > 1:
                in_lists.extend(bytes.fromhex(x) if x != '_' else b'' for x in v[1:].split(','))
    inside_multi = any(x['tx'] != '-' for x in st['conns'].values())
    everything = [x for x in in_lists if x.startswith(b'e')] + led['delivered']
    queued = set()
    for s_ in im.socks.values():
        for (_, _, args) in (s_._transaction or []):
            queued.update(a for a in args if a.startswith(b'e') and a[1:].isdigit())
    if len(everything) != len(set(everything)):
        dup = sorted(x for x in set(everything) if everything.count(x) > 1)
        Mn.add(session, 'C11', 'conservation', 'element(s) %r duplicated (in lists %r, delivered %r)' % (dup, in_lists, led['delivered']))
    seen = led.setdefault('seen', set())
    if ev[0] == 'cmd' and name in ('set', 'del', 'exec') and before is not None:
        # tokens of a list that this command overwrote or deleted are gone by design
        bl = {x for ents in before['dbs'].values() for k, v, e in ents if v.startswith('L') for x in v[1:].split(',')}
        al = {x for ents in st['dbs'].values() for k, v, e in ents if v.startswith('L') for x in v[1:].split(',')}
        delivered_now = {x.hex() for x in led['delivered']}
        for x in bl - al:
            if x != '_' and x not in delivered_now:
                seen.discard(bytes.fromhex(x))
    seen.update(x for x in in_lists if x.startswith(b'e'))
    missing = seen - set(everything)
    # tokens in an expired list are gone legitimately; the plan never lets list keys expire before the end
    if missing and not session.__dict__.get('expiry_used'):
        Mn.add(session, 'C11', 'conservation', 'element(s) %r lost (in lists %r, delivered %r)' % (sorted(missing), in_lists, led['delivered']))
    if ev[0] == 'cmd' and name == 'expire':
        session.expiry_used = True
    if ev[0] == 'cmd' and ev[1] in im.waiters:
        session.__dict__.setdefault('parked_fields', {})[ev[1]] = ev[2]
    # no lost wake-up: a parked, un-notified consumer has no non-empty list among its keys
    for c, w in im.waiters.items():
        if w['notified']:
            continue
        sock = im.socks[c]
        db = sock._db
        fields = session.__dict__.get('parked_fields', {}).get(c)
        if not fields:
            continue
        keys = fields[1:-1] if fields[0].lower() in (b'blpop', b'brpop') else fields[1:2]
        for k in keys:
            it = db._dict.get(k)
            if it is not None and isinstance(it.value, list) and it.value and not (it.expireat is not None and it.expireat < db.time):
                Mn.add(session, 'C11', 'no_lost_wakeup', 'connection %d is parked un-notified on %r which holds %r' % (c, k, it.value))
        if w['timeout'] is not None and not (0 < w['timeout'] <= float(fields[-1]) + 1e-6):
            Mn.add(session, 'C11', 'honest_timeout', 'wait(%r) for a %r second timeout' % (w['timeout'], fields[-1]))
    if ev[0] == 'cmd':
        c = ev[1]
        if c in im.waiters:
            session.__dict__.setdefault('parked_fields', {})[c] = ev[2]
            if name == 'exec':
                Mn.add(session, 'C11', 'never_parks_in_exec', 'EXEC parked the connection: %r' % (ev[2],))
        if name == 'exec' and before is not None and crash_i is None and out_i.get(c) in (None, []):
            if c not in im.waiters:
                pass


def _flatten(r):
    if isinstance(r, list):
        for x in r:
            yield from _flatten(x)
    else:
        yield r


BLOCKERS = [[b'blpop', b'l0', b'5'], [b'brpop', b'l0', b'l1', b'0'], [b'brpoplpush', b'l0', b'dst', b'5'], [b'brpoplpush', b'l0', b'l0', b'0'],
            [b'brpoplpush', b'l0', b'l1', b'5'], [b'blpop', b'l1', b'l0', b'2']]
PRESTATES = [[], [[b'rpush', b'dst', b'old']], [[b'rpush', b'l1', b'z']], [[b'set', b'dst', b'str']], [[b'rpush', b'l0', b'have']]]
INTERFERE = [[], [[b'rpush', b'dst', b'x']], [[b'rpush', b'dst', b'x'], [b'lpush', b'dst', b'y']], [[b'set', b'dst', b'str']], [[b'del', b'dst'], [b'rpush', b'dst', b'n']],
             [[b'sadd', b'l0', b'm']], [[b'rpush', b'l1', b'y']], [[b'select', b'1'], [b'rpush', b'l0', b'otherdb'], [b'select', b'0']],
             [[b'rpush', b'l0', b'p'], [b'lpop', b'l0']], [[b'swapdb', b'0', b'1']], [[b'multi'], [b'rpush', b'l0', b'q1', b'q2'], [b'exec']],
             [[b'expire', b'dst', b'100']], [[b'rpush', b'tmp', b't'], [b'rename', b'tmp', b'dst']]]
FEEDS = [[[b'rpush', b'l0', b'a']], [[b'lpush', b'l0', b'a', b'b']], [[b'rpush', b'l1', b'c']], [[b'rpush', b'l0', b'']], []]


def scenario_plans():
    """small scope, in full: one consumer parks (or is served at once), a producer interferes with the keys involved while the lock is
    free, feeds a source, the consumer is woken; everything is then read back.  The blocking command must take effect on the state AT ITS
    WAKE-UP (its last critical section), not on anything looked up before it parked."""
    import itertools
    for blk, pre, mid, feed in itertools.product(BLOCKERS, PRESTATES, INTERFERE, FEEDS):
        def plan(s, rng, blk=blk, pre=pre, mid=mid, feed=feed):
            s.tokens = 0
            s.in_multi = set()
            s.cdb = 0
            yield ('open', 1)
            yield ('open', 2)
            for f in pre:
                yield ('cmd', 2, list(f))
            yield ('cmd', 1, list(blk))
            for f in mid:
                yield ('cmd', 2, list(f))
            for f in feed:
                yield ('cmd', 2, list(f))
            for _ in range(3):
                w = s.impl.waiters.get(1)
                if w is None or not w['notified']:
                    break
                yield ('wake', 1)
            for k in (b'l0', b'l1', b'dst'):
                yield ('cmd', 2, [b'type', k])
            for k in (b'l0', b'l1', b'dst'):
                if s.impl.socks[2]._db.get(k) is not None and isinstance(s.impl.socks[2]._db[k].value, list):
                    yield ('cmd', 2, [b'lrange', k, b'0', b'-1'])
            w = s.impl.waiters.get(1)
            if w is not None:
                if w['timeout'] is not None:
                    yield ('adv', int(w['timeout'] * 1000) + 1)
                    yield ('timeout', 1)
                else:
                    yield ('cmd', 2, [b'select', b'0'])
                    yield ('cmd', 2, [b'del', b'l0', b'l1'])
                    yield ('cmd', 2, [b'rpush', b'l0', b'fin'])
                    yield ('wake', 1)
        yield plan


TX_ENDINGS = {
    'exec-dirty': [(1, [b'watch', b'wk']), (2, [b'set', b'wk', b'x']), (1, [b'multi']), (1, [b'get', b'wk']), (1, [b'exec'])],
    'exec-ok': [(1, [b'watch', b'wk']), (1, [b'multi']), (1, [b'incr', b'cnt']), (1, [b'exec'])],
    'discard': [(1, [b'multi']), (1, [b'incr', b'cnt']), (1, [b'discard'])],
    'execabort': [(1, [b'multi']), (1, [b'nosuchcommand']), (1, [b'exec'])],
    'exec-arity': [(1, [b'multi']), (1, [b'exec', b'extra']), (1, [b'discard'])],
    'exec-inner-error': [(2, [b'set', b'str', b'v']), (1, [b'multi']), (1, [b'lpush', b'str', b'x']), (1, [b'exec'])],
    'exec-inner-blocking': [(1, [b'multi']), (1, [b'blpop', b'l0', b'0']), (1, [b'brpoplpush', b'l0', b'dst', b'0']), (1, [b'exec'])],
    'unwatch': [(1, [b'watch', b'wk']), (2, [b'set', b'wk', b'x']), (1, [b'unwatch'])],
}


def tx_then_block_plans():
    """after EXEC / DISCARD - whatever way the transaction ended - the connection is back in normal mode: a blocking pop on an
    empty list must PARK (inside MULTI/EXEC it never does), and is served by a later push"""
    for name, ending in sorted(TX_ENDINGS.items()):
        for blk in ([b'blpop', b'l0', b'0'], [b'brpop', b'l1', b'l0', b'5'], [b'brpoplpush', b'l0', b'dst', b'0']):
            def plan(s, rng, ending=ending, blk=blk):
                s.tokens = 0
                s.in_multi = set()
                s.cdb = 0
                yield ('open', 1)
                yield ('open', 2)
                for c, f in ending:
                    yield ('cmd', c, list(f))
                yield ('cmd', 1, list(blk))
                yield ('cmd', 2, [b'rpush', b'l0', b'tok'])
                for _ in range(2):
                    w = s.impl.waiters.get(1)
                    if w is None or not w['notified']:
                        break
                    yield ('wake', 1)
                for k in (b'l0', b'dst'):
                    yield ('cmd', 2, [b'lrange', k, b'0', b'-1'])
                yield ('cmd', 1, [b'ping'])
            yield plan


def exec_atomic_plans():
    """an EXEC whose queue contains blocking pops on empty lists (which must not wait there) between two writes: another client never sees the first
    write without the second - the block runs to its end inside one critical section"""
    for blk in ([b'blpop', b'l0', b'0'], [b'brpop', b'l1', b'l0', b'5'], [b'brpoplpush', b'l0', b'dst', b'0'], [b'brpoplpush', b'l0', b'l0', b'2']):
        for pre in ([], [(2, [b'rpush', b'l1', b'x'])], [(2, [b'set', b'l0', b'str'])]):
            def plan(s, rng, blk=blk, pre=pre):
                s.tokens = 0
                s.in_multi = set()
                s.cdb = 0
                yield ('open', 1)
                yield ('open', 2)
                for c, f in pre:
                    yield ('cmd', c, list(f))
                for f in ([b'multi'], [b'set', b'a', b'1'], list(blk), [b'set', b'b', b'1'], [b'exec']):
                    yield ('cmd', 1, f)
                yield ('cmd', 2, [b'mget', b'a', b'b'])
                yield ('cmd', 2, [b'rpush', b'l0', b'tok'])
                yield ('cmd', 2, [b'mget', b'a', b'b'])
                yield ('cmd', 1, [b'ping'])
                yield ('cmd', 2, [b'lrange', b'l0', b'0', b'-1'])
            yield plan


def run_exec_atomic(res, seed, prop='C12'):
    for i, plan in enumerate(exec_atomic_plans()):
        if _run_sched_plan(res, plan, (seed * 13 + i) & 0x7fffffff, 6 + (i + seed) % 2, prop):
            return True
    return False


def run_tx_then_block(res, seed):
    for i, plan in enumerate(tx_then_block_plans()):
        if _run_sched_plan(res, plan, (seed * 11 + i) & 0x7fffffff, 6 + (i + seed) % 2):
            return True
    return False


def _run_sched_plan(res, plan, hseed, version, prop='C11'):
    """-> True when a finding was recorded"""
    rng = random.Random(hseed)
    s = corr.Session(version, hseed, True, (mon_blocking,), sched=True)
    s.violations = []
    events, div = [], None
    try:
        for ev in plan(s, rng):
            events.append(ev)
            s.step(ev)
    except corr.Divergence as d:
        div = d
    finally:
        s.impl.shutdown()
    res.absorb(s)
    res.cells |= {('sched', e[0], Cn.name_of(e[2]) if e[0] == 'cmd' else '') for e in events}
    if len(res.samples) < 2:
        res.samples.append({'version': version, 'seed': hseed, 'events': [corr.ev_json(e) for e in events[:25]]})
    if s.violations:
        v = s.violations[0]
        res.add({'kind': 'monitor', 'property': prop, 'clause': v.clause, 'detail': v.detail, 'version': version, 'seed': hseed,
                 'sched': True, 'events': [corr.ev_json(e) for e in events[:v.index + 1]]})
        return True
    if div is not None:
        res.add({'kind': 'divergence', 'verdict': 'violation', 'what': div.what, 'version': version, 'seed': hseed, 'sched': True,
                 'events': [corr.ev_json(e) for e in events], 'impl': div.impl_side, 'model': div.model_side,
                 'at': corr.ev_json(div.event)})
        return True
    return False


def run_sched_scenarios(res, tier, seed, t_end, sample):
    plans = list(scenario_plans())
    rng = random.Random(seed * 131 + 5)
    if tier == 'quick' and len(plans) > sample:
        plans = rng.sample(plans, sample)
    for i, plan in enumerate(plans):
        if time.time() > t_end:
            res.notes.append('sched scenarios: time budget reached after %d' % i)
            return
        if _run_sched_plan(res, plan, (seed * 7 + i) & 0x7fffffff, 6 + (i + seed) % 2):
            return
    if tier == 'thorough':
        res.notes.append('sched scenarios: all %d' % len(plans))


def run_sched_campaign(res, tier, seed, t_end, n_hist, length):
    for h in range(n_hist):
        if time.time() > t_end:
            res.notes.append('time budget reached')
            break
        hseed = (seed * 1000003 + h * 7919 + 11) & 0x7fffffff
        version = random.Random(hseed).choice([6, 7])
        if _run_sched_plan(res, plan_blocking(length), hseed, version):
            return


def real_threads_smoke(res, tier, seed, t_end):
    """real threads, real Condition, real clock: conservation and liveness of BLPOP under genuine concurrency"""
    import fakeredis
    import importlib, time as _time, random as _random
    from fakeredis import _fakesocket as FS
    FS.time = _time          # undo the logical clock for this part
    FS.random = _random
    rounds = 3 if tier == 'quick' else 40
    for rd in range(rounds):
        if time.time() > t_end:
            break
        srv = fakeredis.FakeServer()
        n_items, n_cons, n_prod = 60, 3, 2
        got, lock = [], threading.Lock()

        def consumer():
            r = fakeredis.FakeStrictRedis(server=srv)
            while True:
                x = r.blpop([b'q1', b'q2'], timeout=1)
                if x is None:
                    return
                with lock:
                    got.append(x[1])

        def producer(i):
            r = fakeredis.FakeStrictRedis(server=srv)
            for j in range(n_items):
                if j % 5 == 0:
                    p = r.pipeline()
                    p.rpush(b'q2', b'p%d-%d' % (i, j))
                    p.execute()
                else:
                    r.rpush(b'q1', b'p%d-%d' % (i, j))
        ths = [threading.Thread(target=consumer) for _ in range(n_cons)] + [threading.Thread(target=producer, args=(i,)) for i in range(n_prod)]
        t0 = time.time()
        [t.start() for t in ths]
        [t.join(timeout=30) for t in ths]
        res.evaluations += n_items * n_prod
        res.cells.add(('threads', rd % 4))
        left = fakeredis.FakeStrictRedis(server=srv).lrange(b'q1', 0, -1) + fakeredis.FakeStrictRedis(server=srv).lrange(b'q2', 0, -1)
        expect = sorted(b'p%d-%d' % (i, j) for i in range(n_prod) for j in range(n_items))
        if any(t.is_alive() for t in ths) or sorted(got + left) != expect:
            res.add({'kind': 'threads', 'verdict': 'violation', 'property': 'C11', 'clause': 'conservation(real threads)',
                                 'detail': 'delivered %d + left %d of %d; stuck threads: %s' % (len(got), len(left), len(expect),
                                                                                                   any(t.is_alive() for t in ths))})
            return
        # a timeout larger than anything Condition.wait accepts is still an honest timeout: the call waits and is served
        box = []

        def patient():
            try:
                box.append(fakeredis.FakeStrictRedis(server=srv).execute_command('BLPOP', 'qh', str(10 ** (12 + rd % 6))))
            except BaseException as e:      # noqa
                box.append(e)
        th = threading.Thread(target=patient, daemon=True)
        th.start()
        _time.sleep(0.05)
        fakeredis.FakeStrictRedis(server=srv).rpush('qh', 'late')
        th.join(timeout=10)
        res.evaluations += 1
        if box != [[b'qh', b'late']] and box != [(b'qh', b'late')]:
            res.add({'kind': 'threads', 'verdict': 'violation', 'property': 'C11', 'clause': 'huge_timeout_is_a_timeout',
                     'detail': 'BLPOP qh 10**%d then RPUSH: got %r' % (12 + rd % 6, box)})
            return
