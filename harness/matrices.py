"""Small-scope enumerations ("matrices"): boundary arguments x small states, executed on implementation and model.
Quick runs a seeded sample, thorough runs everything.  Each case is a short event list on a fresh server."""
import zlib
import itertools, random, time
import corr, gen, canon as Cn
import campaigns as Cp

IDX = [str(i).encode() for i in range(-6, 7)]
OPEN = [('open', 1)]


def cmds(*fs):
    return [('cmd', 1, list(f)) for f in fs]


def lists_cases():
    elems = [b'a', b'b', b'a', b'c', b'a']
    for n in range(0, 5):
        mk = [[b'rpush', b'l'] + elems[:n]] if n else []
        for a in IDX:
            yield mk + [[b'lindex', b'l', a]]
            yield mk + [[b'lset', b'l', a, b'X'], [b'lrange', b'l', b'0', b'-1']]
            yield mk + [[b'lrem', b'l', a, b'a'], [b'lrange', b'l', b'0', b'-1']]
            for b in IDX:
                yield mk + [[b'lrange', b'l', a, b]]
                yield mk + [[b'ltrim', b'l', a, b], [b'lrange', b'l', b'0', b'-1'], [b'exists', b'l']]
        for cnt in [b'0', b'1', b'2', b'4', b'5', b'9', b'-1']:
            for c in (b'lpop', b'rpop'):
                yield mk + [[c, b'l', cnt], [b'lrange', b'l', b'0', b'-1'], [b'exists', b'l']]
        for c in (b'lpop', b'rpop'):
            yield mk + [[c, b'l'], [b'lrange', b'l', b'0', b'-1']]
        for w in (b'before', b'AFTER', b'x'):
            for piv in (b'a', b'c', b'zz'):
                yield mk + [[b'linsert', b'l', w, piv, b'N'], [b'lrange', b'l', b'0', b'-1']]
        yield mk + [[b'rpoplpush', b'l', b'l'], [b'lrange', b'l', b'0', b'-1']]
        for s, d in itertools.product((b'left', b'RIGHT', b'up'), repeat=2):
            yield mk + [[b'lmove', b'l', b'l', s, d], [b'lrange', b'l', b'0', b'-1']]
            yield mk + [[b'lmove', b'l', b'm', s, d], [b'lrange', b'l', b'0', b'-1'], [b'lrange', b'm', b'0', b'-1']]


    for el in (b'', b'x'):
        yield [[b'rpush', b'l', b'a', el], [b'brpoplpush', b'l', b'm', b'0'], [b'lrange', b'm', b'0', b'-1'], [b'lrange', b'l', b'0', b'-1']]
        yield [[b'rpush', b'l', el], [b'brpoplpush', b'l', b'l', b'1'], [b'lrange', b'l', b'0', b'-1']]
        yield [[b'rpush', b'l', el, b'a'], [b'blpop', b'l', b'0'], [b'brpop', b'l', b'0'], [b'exists', b'l']]
        yield [[b'rpush', b'l', el], [b'multi'], [b'brpoplpush', b'l', b'm', b'0'], [b'blpop', b'nolist', b'0'], [b'exec'], [b'lrange', b'm', b'0', b'-1']]
    # the timeout argument: whole seconds in canonical form only (everything else is refused before any list is looked at)
    for t in (b'1.6', b'0.4', b'1.0', b'abc', b'-1', b'', b' 1', b'+1', b'01', b'1e3', b'9223372036854775808', b'0x1', b'1\n'):
        for pre in ([], [[b'rpush', b'l', b'a', b'b']], [[b'set', b'l', b'str']]):
            yield Always(pre + [[b'blpop', b'l', t], [b'brpop', b'nolist', b'l', t], [b'brpoplpush', b'l', b'm', t], [b'lrange', b'l', b'0', b'-1'], [b'exists', b'm'],
                               [b'multi'], [b'blpop', b'l', t], [b'exec']])


def sets_cases():
    for members in ([], [b'a'], [b'a', b'b', b'c']):
        mk = [[b'sadd', b's'] + members] if members else []
        for cnt in [b'0', b'1', b'2', b'3', b'5', b'-1', b'-3']:
            yield mk + [[b'srandmember', b's', cnt]]
            yield mk + [[b'spop', b's', cnt], [b'smembers', b's'], [b'exists', b's']]
        yield mk + [[b'spop', b's'], [b'smembers', b's']]
        yield mk + [[b'smove', b's', b's', b'a'], [b'smembers', b's']]
        yield mk + [[b'smove', b's', b'd', b'a'], [b'smembers', b's'], [b'smembers', b'd']]
        for op in (b'sunionstore', b'sinterstore', b'sdiffstore'):
            # one source: the stored set must be an independent copy
            yield mk + [[op, b'd', b's'], [b'sadd', b'd', b'new'], [b'smembers', b's'], [b'srem', b's', b'a'], [b'smembers', b'd']]
            yield mk + [[b'sadd', b'o', b'b', b'z']] + [[op, b's', b's', b'o'], [b'smembers', b's'], [b'smembers', b'o']]
        yield mk + [[b'pfadd', b'd', b'x'], [b'pfmerge', b'd', b's'], [b'pfcount', b'd'], [b'pfcount', b's', b'd']]


def strings_cases():
    for v in (None, b'', b'a', b'hello', b'\x00\xff\x10'):
        mk = [[b'set', b'k', v]] if v is not None else []
        for a in IDX:
            for b in IDX:
                yield mk + [[b'getrange', b'k', a, b]]
                yield mk + [[b'bitcount', b'k', a, b]]
        for off in [b'0', b'1', b'3', b'5', b'9']:
            for val in (b'', b'Z', b'ZZZ'):
                yield mk + [[b'setrange', b'k', off, val], [b'get', b'k'], [b'exists', b'k'], [b'type', b'k']]
        for off in [b'0', b'1', b'7', b'8', b'15', b'23', b'40']:
            yield mk + [[b'getbit', b'k', off]]
            for bit in (b'0', b'1'):
                yield mk + [[b'setbit', b'k', off, bit], [b'get', b'k'], [b'exists', b'k'], [b'strlen', b'k']]
        yield mk + [[b'append', b'k', b''], [b'exists', b'k'], [b'get', b'k']]
        # offsets around and beyond the 512 MB limit: an empty payload only reports the length, whatever the offset
        for off in (b'536870911', b'536870912', b'536870913', b'9223372036854775807'):
            yield mk + [[b'setrange', b'k', off, b''], [b'strlen', b'k']]
        yield mk + [[b'setrange', b'k', b'536870912', b'x'], [b'setrange', b'k', b'536870910', b'xyz'], [b'setrange', b'k', b'9223372036854775807', b'x'], [b'strlen', b'k']]
    big = [b'9223372036854775807', b'-9223372036854775808', b'9223372036854775806', b'0', b'-1', b'10', b' 1', b'1.0', b'abc', b'']
    for stored in big:
        for inc in [b'1', b'-1', b'9223372036854775807', b'-9223372036854775808', b'0', b'2']:
            yield [[b'set', b'n', stored], [b'incrby', b'n', inc], [b'get', b'n']]
            yield [[b'set', b'n', stored], [b'decrby', b'n', inc], [b'get', b'n']]
            yield [[b'hset', b'h', b'f', stored], [b'hincrby', b'h', b'f', inc], [b'hget', b'h', b'f']]
        yield [[b'set', b'n', stored], [b'incr', b'n'], [b'get', b'n']]
        yield [[b'set', b'n', stored], [b'decr', b'n'], [b'get', b'n']]


def set_option_cases():
    opts = [[b'nx'], [b'xx'], [b'get'], [b'keepttl'], [b'ex', b'10'], [b'px', b'10000'], [b'EX', b'0'], [b'px', b'x']]
    # an option word whose value is missing (last argument)
    for st in ([], [[b'set', b'k', b'old', b'ex', b'500']], [[b'rpush', b'k', b'a']]):
        for tail in ([b'ex'], [b'PX'], [b'nx', b'ex'], [b'get', b'px'], [b'ex', b'10', b'px'], [b'keepttl', b'ex'], [b'exat'], [b'ex', b'']):
            yield Always(st + [[b'set', b'k', b'new'] + tail, [b'get', b'k'], [b'ttl', b'k'], [b'type', b'k']])
    states = [[], [[b'set', b'k', b'old']], [[b'set', b'k', b'old', b'ex', b'500']], [[b'rpush', b'k', b'a']], [[b'sadd', b'k', b'a']]]
    combos = [[]] + [[o] for o in opts] + [[a, b] for a in opts for b in opts if a is not b] + \
             [[a, b, c] for a in opts[:6] for b in opts[:6] for c in opts[:6] if a is not b and b is not c and a is not c]
    for st in states:
        for co in combos:
            yield st + [[b'set', b'k', b'new'] + sum(co, []), [b'get', b'k'], [b'ttl', b'k'], [b'type', b'k']]
    for existing in ([], [b'a'], [b'b'], [b'c'], [b'a', b'c']):
        mk = [[b'set', k, b'old'] for k in existing]
        yield mk + [[b'msetnx', b'a', b'1', b'b', b'2', b'c', b'3'], [b'mget', b'a', b'b', b'c']]
        yield mk + [[b'msetnx', b'a', b'1', b'a', b'2'], [b'mget', b'a']]
        yield mk + [[b'mset', b'a', b'1', b'b', b'2', b'a', b'3'], [b'mget', b'a', b'b']]
        yield mk + [[b'del', b'a', b'a', b'b'], [b'exists', b'a', b'a', b'b', b'c', b'c']]
        yield mk + [[b'rename', b'a', b'a'], [b'rename', b'a', b'b'], [b'renamenx', b'b', b'c'], [b'mget', b'a', b'b', b'c']]


FLOATS = [b'inf', b'-inf', b'1e308', b'-1e308', b'1.7976931348623157e308', b'0', b'-0', b'1', b'-1.5', b'0.1', b'5e-324', b'nan', b'1e-400', b'abc']


def floats_cases():
    for stored in FLOATS:
        for inc in FLOATS:
            yield [[b'set', b'f', stored], [b'incrbyfloat', b'f', inc], [b'get', b'f']]
            yield [[b'hset', b'h', b'f', stored], [b'hincrbyfloat', b'h', b'f', inc], [b'hget', b'h', b'f']]
            yield [[b'zadd', b'z', stored, b'm'], [b'zincrby', b'z', inc, b'm'], [b'zscore', b'z', b'm'], [b'zrange', b'z', b'0', b'-1', b'withscores']]
            yield [[b'zadd', b'z', stored, b'm'], [b'zadd', b'z', b'incr', inc, b'm'], [b'zscore', b'z', b'm']]
            yield [[b'zadd', b'z', stored, b'm'], [b'zincrby', b'z', inc, b'fresh'], [b'zscore', b'z', b'fresh'], [b'zrange', b'z', b'0', b'-1', b'withscores']]
    # every float literal form as increment and as stored value of the string / hash commands, and as a SORT weight
    forms = [b'1e999', b'-1e999', b'1e-999', b'-1e-999', b'1e308', b'1.7976931348623157e308', b'4.9e-324', b'2e-324', b'+inf', b'-infinity', b'Infinity', b'nan', b'-nan',
             b'0x10', b'0x1p3', b' 1', b'1 ', b'\t1', b'1\n', b'1_0', b'1e', b'.5', b'5.', b'1e+2', b'1E2', b'', b'+', b'-', b'+1', b'-0', b'1\x00', b'\x001', b'1\xa0', b'\x851',
             b'00012', b'0.1', b'1e22', b'123456789012345678901234567890']
    for fm in forms:
        yield Always([[b'set', b'f', b'10.5'], [b'incrbyfloat', b'f', fm], [b'get', b'f'], [b'set', b'g', fm], [b'incrbyfloat', b'g', b'1'], [b'get', b'g'], [b'incrbyfloat', b'fresh', fm], [b'get', b'fresh']])
        yield Always([[b'hset', b'h', b'f', b'10.5', b'g', fm], [b'hincrbyfloat', b'h', b'f', fm], [b'hincrbyfloat', b'h', b'g', b'1'], [b'hincrbyfloat', b'h', b'new', fm], [b'hgetall', b'h']])
        yield Always([[b'rpush', b'l', b'1', b'2'], [b'mset', b'w_1', fm, b'w_2', b'1.5'], [b'sort', b'l', b'by', b'w_*'], [b'rpush', b'l2', fm, b'3'], [b'sort', b'l2'], [b'sort', b'l2', b'alpha']])
    for bad in (b'nan', b'abc', b'1e400', b'', b' 1'):
        for n in (1, 2):
            pre = [[b'zadd', b'z', b'1', b'a', b'2', b'b'], [b'expire', b'z', b'100']]
            yield pre + [[b'zadd', b'z'] + [b'5', b'a'] * n + [bad, b'q'], [b'zrange', b'z', b'0', b'-1', b'withscores'], [b'ttl', b'z']]
            yield pre + [[b'zadd', b'z', b'ch'] + [b'5', b'new%d' % n] + [bad, b'q', b'7', b'r'], [b'zrange', b'z', b'0', b'-1', b'withscores']]


def zsets_cases():
    members = [(b'1', b'a'), (b'2', b'b'), (b'2', b'c'), (b'inf', b'p'), (b'-inf', b'n')]
    for n in (0, 1, 3, 5):
        mk = [[b'zadd', b'z'] + sum([[s, m] for s, m in members[:n]], [])] if n else []
        for a in IDX:
            for b in IDX:
                yield mk + [[b'zrange', b'z', a, b, b'withscores']]
                yield mk + [[b'zrevrange', b'z', a, b]]
                yield mk + [[b'zremrangebyrank', b'z', a, b], [b'zrange', b'z', b'0', b'-1'], [b'exists', b'z']]
        bounds = [b'-inf', b'+inf', b'1', b'(1', b'2', b'(2', b'3', b'(inf', b'inf', b'(-inf', b'(+inf']
        for lo in bounds:
            for hi in bounds:
                yield mk + [[b'zrangebyscore', b'z', lo, hi], [b'zcount', b'z', lo, hi], [b'zrevrangebyscore', b'z', hi, lo, b'withscores']]
                yield mk + [[b'zrangebyscore', b'z', lo, hi, b'limit', b'1', b'2'], [b'zrangebyscore', b'z', lo, hi, b'limit', b'-1', b'2'],
                            [b'zrangebyscore', b'z', lo, hi, b'limit', b'0', b'-1'], [b'zrangebyscore', b'z', lo, hi, b'limit', b'0', b'0'],
                            [b'zrevrangebyscore', b'z', hi, lo, b'limit', b'1', b'0'], [b'zrangebyscore', b'z', lo, hi, b'withscores', b'limit', b'2', b'1']]
                yield mk + [[b'zremrangebyscore', b'z', lo, hi], [b'zrange', b'z', b'0', b'-1']]
    # the empty string is a member like any other: it is the smallest member of its score, so every bound sentinel is tested against it
    mk = [[b'zadd', b'z', b'2', b'', b'2', b'b', b'1', b'a', b'3', b'c']]
    bounds = [b'-inf', b'+inf', b'1', b'(1', b'2', b'(2', b'3', b'(3']
    for lo in bounds:
        for hi in bounds:
            yield Always(mk + [[b'zrangebyscore', b'z', lo, hi], [b'zcount', b'z', lo, hi], [b'zrevrangebyscore', b'z', hi, lo, b'withscores'],
                               [b'zrank', b'z', b''], [b'zscore', b'z', b''], [b'zremrangebyscore', b'z', lo, hi], [b'zrange', b'z', b'0', b'-1', b'withscores']])
    # every float literal form at every place of the sorted-set commands that decodes one (each place has its own converter / flags:
    # range bounds take out-of-range literals as +-inf / 0, scores and increments refuse them)
    forms = [b'1e999', b'-1e999', b'1e-999', b'-1e-999', b'(1e999', b'(-1e999', b'(1e-999', b'1e308', b'1.5e308', b'2e308', b'4.9e-324', b'2e-324', b'+inf',
             b'-infinity', b'Infinity', b'(inf', b'nan', b'(nan', b'0x10', b' 1', b'1 ', b'(1 ', b'( 1', b'1_0', b'1e', b'.5', b'5.', b'1e+2', b'1E2', b'',
             b'(', b'+', b'-', b'1\x00', b'((1', b'[1']
    mk = [[b'zadd', b'z', b'-inf', b'n', b'-1', b'm', b'0', b'z', b'1', b'a', b'inf', b'p']]
    for fm in forms:
        yield Always(mk + [[b'zcount', b'z', b'0', fm], [b'zcount', b'z', fm, b'0'], [b'zrangebyscore', b'z', fm, b'+inf'], [b'zrevrangebyscore', b'z', fm, b'-inf', b'withscores'],
                           [b'zrangebyscore', b'z', b'-inf', fm, b'limit', b'0', b'2'], [b'zremrangebyscore', b'z', fm, fm], [b'zremrangebyscore', b'z', b'1', fm],
                           [b'zrange', b'z', b'0', b'-1', b'withscores']])
        yield Always(mk + [[b'zadd', b'z', fm, b'new'], [b'zadd', b'z', b'xx', b'ch', fm, b'a'], [b'zincrby', b'z', fm, b'a'], [b'zadd', b'z', b'incr', fm, b'm'],
                           [b'zrange', b'z', b'0', b'-1', b'withscores'],
                           [b'zunionstore', b'd', b'1', b'z', b'weights', fm], [b'zrange', b'd', b'0', b'-1', b'withscores']])
    mk = [[b'zadd', b'z', b'0', b'', b'0', b'a', b'0', b'b']]
    for lo in (b'-', b'+', b'[', b'(', b'[a', b'(a'):
        for hi in (b'-', b'+', b'[', b'(', b'[a', b'(a', b'[b'):
            yield Always(mk + [[b'zrangebylex', b'z', lo, hi], [b'zlexcount', b'z', lo, hi], [b'zrevrangebylex', b'z', hi, lo], [b'zremrangebylex', b'z', lo, hi],
                               [b'zrange', b'z', b'0', b'-1']])
    # aggregation: weights x aggregates x infinite scores
    ws = [b'0', b'1', b'-1', b'inf', b'-inf', b'2.5']
    for agg in ([], [b'aggregate', b'sum'], [b'aggregate', b'min'], [b'aggregate', b'MAX']):
        for op in (b'zunionstore', b'zinterstore'):
            for w1 in ws:
                base = [[b'zadd', b'a', b'1', b'x', b'inf', b'p', b'-inf', b'n', b'0', b'z'], [b'zadd', b'b', b'2', b'x', b'-inf', b'p', b'inf', b'n', b'5', b'q']]
                yield base + [[op, b'd', b'1', b'a', b'weights', w1] + agg, [b'zrange', b'd', b'0', b'-1', b'withscores'], [b'zcard', b'd'], [b'zcount', b'd', b'-inf', b'+inf']]
                for w2 in ws:
                    yield base + [[op, b'd', b'2', b'a', b'b', b'weights', w1, w2] + agg, [b'zrange', b'd', b'0', b'-1', b'withscores'],
                                  [b'zcount', b'd', b'-inf', b'+inf']]
        yield [[b'sadd', b's', b'm1', b'm2'], [b'zadd', b'a', b'3', b'm1']] + [[b'zunionstore', b'd', b'2', b's', b'a'] + agg, [b'zrange', b'd', b'0', b'-1', b'withscores']]
    # floating-point addition is not associative: the order in which the sources are folded (ascending cardinality) is observable
    import itertools
    big = {b'A': [b'zadd', b'A', b'1e16', b'm', b'1', b'a1', b'2', b'a2'], b'C': [b'zadd', b'C', b'-1e16', b'm', b'1', b'c1'], b'B': [b'zadd', b'B', b'1', b'm'],
           b'S': [b'sadd', b'S', b'm', b's1', b's2', b's3']}
    for op in (b'zunionstore', b'zinterstore'):
        for names in itertools.permutations([b'A', b'C', b'B']):
            for tail in ([], [b'weights', b'1', b'1', b'1'], [b'weights', b'2', b'2', b'0.5'], [b'aggregate', b'max'], [b'aggregate', b'min']):
                yield list(big.values()) + [[op, b'd', b'3'] + list(names) + tail, [b'zscore', b'd', b'm'], [b'zrange', b'd', b'0', b'-1', b'withscores']]
        for names in itertools.permutations([b'A', b'C', b'B', b'S']):
            yield list(big.values()) + [[op, b'd', b'4'] + list(names), [b'zscore', b'd', b'm'], [b'zcard', b'd']]
    lex = [b'-', b'+', b'[a', b'(a', b'[b', b'(b', b'[c', b'(c', b'[', b'(zz']
    mk = [[b'zadd', b'z', b'0', b'a', b'0', b'b', b'0', b'c', b'0', b'd']]
    for lo in lex:
        for hi in lex:
            yield mk + [[b'zrangebylex', b'z', lo, hi], [b'zlexcount', b'z', lo, hi], [b'zrevrangebylex', b'z', hi, lo], [b'zrangebylex', b'z', lo, hi, b'limit', b'1', b'1'],
                        [b'zrangebylex', b'z', lo, hi, b'limit', b'0', b'0'], [b'zrevrangebylex', b'z', hi, lo, b'limit', b'1', b'-1'],
                        [b'zrangebylex', b'z', lo, hi, b'limit', b'0', b'-1'], [b'zrevrangebylex', b'z', hi, lo, b'limit', b'0', b'-1'],
                        [b'zrangebylex', b'z', lo, hi, b'limit', b'-1', b'1'], [b'zrangebylex', b'z', lo, hi, b'limit', b'9', b'9']]
            yield mk + [[b'zremrangebylex', b'z', lo, hi], [b'zrange', b'z', b'0', b'-1']]


TYPES = {'string': [[b'set', b'k', b'v']], 'list': [[b'rpush', b'k', b'a', b'b']], 'set': [[b'sadd', b'k', b'a', b'b']],
         'hash': [[b'hset', b'k', b'f', b'v']], 'zset': [[b'zadd', b'k', b'1', b'a', b'2', b'b']], 'int': [[b'set', b'k', b'10']]}


def ttl_cases():
    """every TTL-affecting command on a key that carries a deadline (sets / removes / keeps / travels)"""
    after = [[b'ttl', b'k'], [b'pttl', b'k'], [b'exists', b'k'], [b'type', b'k']]
    for tname, mk in TYPES.items():
        pre = mk + [[b'expire', b'k', b'100']]
        acts = [[[b'persist', b'k']], [[b'expire', b'k', b'50']], [[b'pexpire', b'k', b'1500']], [[b'expire', b'k', b'0']], [[b'expire', b'k', b'-5']],
                [[b'pexpire', b'k', b'0']], [[b'set', b'k', b'n']], [[b'set', b'k', b'n', b'keepttl']], [[b'set', b'k', b'n', b'ex', b'7']], [[b'set', b'k', b'n', b'px', b'7000']],
                [[b'set', b'k', b'n', b'xx']], [[b'set', b'k', b'n', b'nx']], [[b'set', b'k', b'n', b'get']], [[b'getset', b'k', b'n']], [[b'setex', b'k', b'9', b'n']],
                [[b'psetex', b'k', b'9000', b'n']], [[b'mset', b'k', b'n']], [[b'msetnx', b'k', b'n']], [[b'setnx', b'k', b'n']], [[b'append', b'k', b'x']], [[b'incr', b'k']],
                [[b'incrbyfloat', b'k', b'1.5']], [[b'setrange', b'k', b'1', b'x']], [[b'setbit', b'k', b'1', b'1']], [[b'lpush', b'k', b'x']], [[b'rpop', b'k']],
                [[b'lset', b'k', b'0', b'x']], [[b'ltrim', b'k', b'0', b'0']], [[b'linsert', b'k', b'before', b'a', b'x']], [[b'sadd', b'k', b'x']], [[b'srem', b'k', b'a']],
                [[b'spop', b'k', b'0']], [[b'hset', b'k', b'g', b'x']], [[b'hdel', b'k', b'f']], [[b'hincrby', b'k', b'n', b'1']], [[b'zadd', b'k', b'5', b'x']],
                [[b'zincrby', b'k', b'1', b'a']], [[b'zrem', b'k', b'a']], [[b'rename', b'k', b'k2'], [b'ttl', b'k2'], [b'type', b'k2']],
                [[b'renamenx', b'k', b'k2'], [b'ttl', b'k2']], [[b'set', b'o', b'1'], [b'rename', b'o', b'k']], [[b'move', b'k', b'1'], [b'select', b'1'], [b'ttl', b'k'], [b'pttl', b'k'], [b'type', b'k'], [b'select', b'0']],
                [[b'sadd', b'src', b'q'], [b'sunionstore', b'k', b'src']], [[b'sadd', b'src', b'q'], [b'sdiffstore', b'k', b'src']], [[b'zadd', b'zs', b'1', b'q'], [b'zunionstore', b'k', b'1', b'zs']],
                [[b'rpush', b'ls', b'2', b'1'], [b'sort', b'ls', b'store', b'k']], [[b'rpush', b'ls', b'q'], [b'rpoplpush', b'ls', b'k']], [[b'rpush', b'ls', b'q'], [b'lmove', b'ls', b'k', b'left', b'left']],
                [[b'dump', b'k']], [[b'expireat', b'k', b'2000000']], [[b'pexpireat', b'k', b'2000000000']], [[b'expireat', b'k', b'1']], [[b'smove', b'k', b'k3', b'a'], [b'ttl', b'k3']],
                [[b'multi'], [b'persist', b'k'], [b'ttl', b'k'], [b'exec']], [[b'multi'], [b'select', b'5'], [b'set', b'k', b'v', b'ex', b'10'], [b'ttl', b'k'], [b'exec'], [b'ttl', b'k'], [b'select', b'0']],
                [[b'swapdb', b'0', b'1'], [b'ttl', b'k'], [b'select', b'1'], [b'ttl', b'k'], [b'select', b'0']],
                [[b'pexpire', b'k', b'2500']], [[b'pexpire', b'k', b'500']], [[b'pexpire', b'k', b'3500']], [[b'pexpire', b'k', b'499']], [[b'pexpire', b'k', b'1']],
                [[b'pexpireat', b'k', b'1048576000500']], [[b'set', b'k', b'n', b'px', b'2500']], [[b'psetex', b'k', b'4500', b'n']],
                [[b'pfadd', b'k', b'x']], [[b'pfadd', b'src', b'q'], [b'pfmerge', b'k', b'src'], [b'pfcount', b'k']], [[b'pfmerge', b'k', b'nosuch']],
                [[b'pfadd', b'src', b'q'], [b'pfmerge', b'src', b'k'], [b'ttl', b'src']], [[b'hincrbyfloat', b'k', b'n', b'1.5']], [[b'decrby', b'k', b'1']],
                [[b'lpop', b'k']], [[b'sinterstore', b'k', b'k']], [[b'sunionstore', b'k', b'k']], [[b'zinterstore', b'k', b'1', b'k']], [[b'restore', b'k', b'0', b'x', b'replace']],
                [[b'getrange', b'k', b'0', b'1']], [[b'zremrangebyrank', b'k', b'0', b'0']], [[b'zadd', b'k', b'xx', b'ch', b'7', b'a']],
                # deadlines beyond the signed 64-bit millisecond range are refused and change nothing (F36)
                [[b'expire', b'k', b'9223372036854775807']], [[b'expire', b'k', b'9223372036854775']], [[b'expire', b'k', b'-9223372036854775808']],
                [[b'pexpire', b'k', b'9223372036854775807']], [[b'pexpire', b'k', b'-9223372036854775808']], [[b'expireat', b'k', b'9223372036854775807']],
                [[b'expireat', b'k', b'-9223372036854776']], [[b'expire', b'nokey', b'9223372036854775807'], [b'pexpire', b'nokey', b'9223372036854775807']]]
        for a in acts:
            yield pre + a + after
            # the same with the clock moved past the deadline before and after the action
            yield pre + [('adv', 100001)] + a + after
            yield pre + a + [('adv', 100001)] + after + [[b'dbsize'], [b'keys', b'*']]
            # the whole-keyspace views first (they must not show an expired key that nobody has looked up yet), in every database the key may have gone to
            whole = [[b'dbsize'], [b'keys', b'*'], [b'scan', b'0', b'count', b'100'], [b'randomkey']]
            travels = any(isinstance(f, list) and f[0] in (b'move', b'swapdb', b'rename', b'renamenx', b'restore', b'smove') for f in a)
            case = pre + a + [('adv', 100001)] + whole + [[b'select', b'1']] + whole + [[b'select', b'0']] + after
            yield Always(case) if travels else case
            if not any(f[0] in (b'multi', b'exec') for f in a if isinstance(f, list)):
                # one clock reading for the whole block
                yield pre + [[b'multi']] + a + after + [[b'setnx', b'k', b'again'], [b'dbsize'], [b'exec']] + after
    # a key holding the empty string is a key like any other for every deadline command (without and with a deadline, directly and inside MULTI)
    for mk in ([[b'set', b'k', b'']], [[b'set', b'k', b'', b'ex', b'100']], [[b'setex', b'k', b'100', b'']], [[b'set', b'k', b'v'], [b'setrange', b'k', b'0', b'']],
               [[b'set', b'k', b'x', b'ex', b'50'], [b'set', b'k', b'', b'keepttl']], [[b'set', b'k', b''], [b'rename', b'k', b'k']]):
        for act in ([[b'expire', b'k', b'70']], [[b'pexpire', b'k', b'1500']], [[b'expireat', b'k', b'2000000']], [[b'pexpireat', b'k', b'2000000000']], [[b'persist', b'k']],
                    [[b'expire', b'k', b'0']], [[b'ttl', b'k']], [[b'getset', b'k', b'']], [[b'append', b'k', b'']], [[b'set', b'k', b'', b'xx']], [[b'move', b'k', b'1'], [b'select', b'1']],
                    [[b'rename', b'k', b'k2'], [b'ttl', b'k2'], [b'pexpire', b'k2', b'900'], [b'pttl', b'k2']], [[b'setnx', b'k', b'v']], [[b'incrbyfloat', b'k', b'0']]):
            yield Always(mk + act + after)
            yield Always(mk + [[b'multi']] + act + after + [[b'exec']])
            yield Always(mk + act + [('adv', 100001)] + after + [[b'dbsize']])
    # one clock reading (inside EXEC) for whole-keyspace views of two databases that trade places: a database nobody has looked at since the
    # deadline passed must still be swept when it is reached through SWAPDB / SELECT / MOVE
    whole = [[b'dbsize'], [b'keys', b'*'], [b'scan', b'0', b'count', b'100'], [b'randomkey']]
    setup = [[b'set', b'zero', b'x'], [b'select', b'1'], [b'set', b'alive', b'x'], [b'set', b'dead', b'x', b'px', b'100'], [b'select', b'0'], ('adv', 1000)]
    travels = ([[b'swapdb', b'0', b'1']], [[b'select', b'1']], [[b'select', b'1'], [b'move', b'dead', b'0'], [b'select', b'0']],
               [[b'select', b'1'], [b'swapdb', b'1', b'0'], [b'select', b'0']], [[b'swapdb', b'0', b'1'], [b'swapdb', b'0', b'1'], [b'select', b'1']])
    for first in whole:
        for travel in travels:
            yield Always(setup + [[b'multi'], first] + travel + whole + [[b'exists', b'dead'], [b'exists', b'alive'], [b'exec']])
            yield Always(setup + [first] + travel + whole + [[b'exists', b'dead']])


def missing_cases(rng, n):
    """every command on missing keys: no key may appear unless it is a write target (C09)"""
    g = gen.Gen(rng, alias=0.5)
    names = [c for c in gen.ALL_MODELLED if c not in gen.FAMILY['pubsub'] + gen.FAMILY['tx'] + ['randomkey', 'flushall', 'flushdb', 'swapdb', 'select', 'move',
                                                                                            'blpop', 'brpop', 'brpoplpush', 'time', 'save', 'bgsave', 'lastsave']]
    for c in names:
        for _ in range(n):
            f = g.command(c)
            yield [f, [b'dbsize'], [b'keys', b'*']]
    for f in ([b'setrange', b'nk', b'0', b''], [b'setrange', b'nk', b'5', b''], [b'append', b'nk', b''], [b'srem', b'nk', b'a'], [b'hdel', b'nk', b'f'], [b'lrem', b'nk', b'0', b'a'],
              [b'ltrim', b'nk', b'0', b'-1'], [b'zrem', b'nk', b'a'], [b'spop', b'nk'], [b'spop', b'nk', b'2'], [b'lpop', b'nk', b'2'], [b'pfadd', b'nk'], [b'sadd', b'nk'],
              [b'zremrangebyrank', b'nk', b'0', b'-1'], [b'sdiffstore', b'nk', b'nk2'], [b'sinterstore', b'nk', b'nk2'], [b'zinterstore', b'nk', b'1', b'nk2'],
              [b'sort', b'nk2', b'store', b'nk'], [b'persist', b'nk'], [b'expire', b'nk', b'10'], [b'rename', b'nk', b'nk'], [b'setbit', b'nk', b'0', b'0'],
              [b'setbit', b'nk', b'9', b'0'], [b'incrbyfloat', b'nk', b'0'], [b'hincrby', b'nk', b'f', b'0'], [b'getset', b'nk', b''], [b'lpushx', b'nk', b'a'],
              [b'smove', b'nk', b'nk2', b'a'], [b'rpoplpush', b'nk', b'nk2'], [b'lmove', b'nk', b'nk2', b'left', b'left'], [b'zadd', b'nk', b'xx', b'1', b'a'],
              [b'zadd', b'nk', b'nx', b'incr', b'1', b'a'], [b'zincrby', b'nk', b'0', b'a'], [b'restore', b'nk', b'0', b'garbage'], [b'dump', b'nk'], [b'watch', b'nk']):
        yield [f, [b'exists', b'nk'], [b'type', b'nk'], [b'dbsize'], [b'keys', b'*'], [b'get', b'nk']]


def scan_filter_cases():
    mk = [[b'set', b'ka', b'1'], [b'set', b'kb', b'2'], [b'rpush', b'kl', b'x'], [b'sadd', b'ks', b'x'], [b'hset', b'kh', b'f', b'v'], [b'zadd', b'kz', b'1', b'x'], [b'set', b'other', b'3']]
    for t in (b'string', b'LIST', b'set', b'hash', b'zset', b'none', b'str'):
        for pat in (None, b'k*', b'k[als]', b'*'):
            for cnt in (b'1', b'3', b'100'):
                f = [b'scan', b'0', b'count', cnt, b'type', t]
                if pat is not None:
                    f = [b'scan', b'0', b'match', pat, b'count', cnt, b'type', t] if cnt != b'3' else [b'scan', b'0', b'type', t, b'match', pat, b'count', cnt]
                yield mk + [f]
    bad = [[b'count', b'0'], [b'count', b'-1'], [b'count', b'x'], [b'foo', b'1'], [b'match'], [b'count', b'1', b'extra'], [b'type', b'string'], [b'match', b'*', b'count', b'0']]
    for cur in (b' 1', b'1 ', b'01', b'1_0', b'+1', b'1\n', b'\t0', b'0x1', b''):
        yield mk + [[b'scan', cur], [b'sscan', b'ks', cur], [b'hscan', b'kh', cur, b'count', b'1'], [b'zscan', b'missing', cur]]
    for other in ([], [[b'select', b'1'], [b'set', b'zz1', b'1'], [b'rpush', b'zz2', b'x'], [b'select', b'0']]):
        yield Always(mk + other + [[b'scan', b'0', b'count', b'100'], [b'swapdb', b'0', b'1'], [b'scan', b'0', b'count', b'100'], [b'scan', b'0', b'type', b'string'],
                            [b'dbsize'], [b'keys', b'*'], [b'select', b'1'], [b'scan', b'0', b'count', b'100'], [b'scan', b'0', b'match', b'k*', b'type', b'list']])
        yield Always(mk + other + [[b'scan', b'0'], [b'flushdb'], [b'scan', b'0'], [b'set', b'n1', b'1'], [b'scan', b'0'], [b'del', b'n1'], [b'scan', b'0'], [b'expire', b'ka', b'1'],
                            ('adv', 2000), [b'scan', b'0', b'count', b'100'], [b'rename', b'kb', b'kbb'], [b'scan', b'0', b'count', b'100'], [b'move', b'kl', b'2'], [b'scan', b'0', b'count', b'100']])
    # literal MATCH patterns (no metacharacter): the element is found on the page it sorts to, in every variant, whatever COUNT
    big = [[b'sadd', b'bs', b'm1', b'm2', b'm3', b'm4'], [b'hset', b'bh', b'm1', b'1', b'm2', b'2', b'm3', b'3'], [b'zadd', b'bz', b'1', b'm1', b'2', b'm2', b'3', b'm3']]
    for pat in (b'm2', b'm3', b'nope', b'ka', b'kz', b'm\\2', b'bs'):
        for cnt in (b'1', b'2', b'10'):
            for cur in (b'0', b'1', b'2'):
                yield Always(mk + big + [[b'scan', cur, b'match', pat, b'count', cnt], [b'sscan', b'bs', cur, b'match', pat, b'count', cnt],
                                         [b'hscan', b'bh', cur, b'match', pat, b'count', cnt], [b'zscan', b'bz', cur, b'match', pat, b'count', cnt],
                                         [b'scan', cur, b'match', pat, b'count', cnt, b'type', b'set']])
    # interleaved iterations on one connection: every page is computed from the CURRENT contents of the key / database it names, whatever was iterated before
    for c1, k1, k2 in ((b'sscan', b'bs', b'ks'), (b'hscan', b'bh', b'kh'), (b'zscan', b'bz', b'kz')):
        yield Always(mk + big + [[c1, k1, b'0', b'count', b'1'], [c1, k2, b'0', b'count', b'1'], [c1, k1, b'1', b'count', b'10'], [c1, k2, b'1', b'count', b'10'],
                                 [c1, k1, b'0', b'count', b'2'], [c1, b'missing', b'0'], [c1, k1, b'2', b'count', b'2']])
        yield Always(mk + big + [[c1, k1, b'0', b'count', b'1'], [b'del', k1], [c1, k1, b'1', b'count', b'10'], [c1, k2, b'0']])
    yield Always(mk + big + [[b'sscan', b'bs', b'0', b'count', b'1'], [b'sadd', b'bs', b'a0', b'zz'], [b'sscan', b'bs', b'1', b'count', b'10'], [b'srem', b'bs', b'm1', b'm2', b'm3'],
                             [b'sscan', b'bs', b'1', b'count', b'10']])
    yield Always(mk + [[b'select', b'1'], [b'mset', b'x1', b'1', b'x2', b'2', b'x3', b'3'], [b'select', b'0'], [b'scan', b'0', b'count', b'2'], [b'select', b'1'], [b'scan', b'0', b'count', b'1'],
                       [b'select', b'0'], [b'scan', b'2', b'count', b'100'], [b'select', b'1'], [b'scan', b'1', b'count', b'100'], [b'scan', b'2', b'count', b'100', b'match', b'x*']])
    yield Always(mk + [[b'scan', b'0', b'count', b'3'], [b'set', b'aa', b'1'], [b'del', b'ka'], [b'scan', b'3', b'count', b'100'], [b'rename', b'kb', b'zz9'], [b'scan', b'3', b'count', b'100'],
                       [b'scan', b'0', b'count', b'5', b'type', b'string'], [b'flushdb'], [b'scan', b'5'], [b'set', b'n', b'1'], [b'scan', b'0', b'type', b'string']])
    for cnt in (b'9223372036854775807', b'9223372036854775806', b'4611686018427387904'):
        for cur in (b'0', b'1', b'3'):
            yield Always(mk + [[b'scan', cur, b'match', b'*', b'count', cnt], [b'scan', cur, b'type', b'string', b'count', cnt], [b'scan', cur, b'count', cnt],
                               [b'sscan', b'ks', cur, b'match', b'*', b'count', cnt], [b'hscan', b'kh', cur, b'match', b'*', b'count', cnt], [b'zscan', b'kz', cur, b'match', b'*', b'count', cnt]])
    for cur in (b'0', b'5', b'99', b'-1', b'x'):
        for opts in bad:
            yield mk + [[b'scan', cur] + opts]
            for c, key in ((b'sscan', b'ks'), (b'hscan', b'kh'), (b'zscan', b'kz'), (b'sscan', b'missing'), (b'hscan', b'missing'), (b'zscan', b'missing')):
                yield mk + [[c, key, cur] + opts]
        yield [[b'scan', cur, b'count', b'0']]
        yield [[b'scan', cur, b'foo', b'1']]


class Always(list):
    """a case that is never dropped by the quick tier's sampling (multi-step scenarios that exist only once in a matrix)"""


def _watch_event(case):
    """connection 99 watches every name that occurs as first or second argument of a command of the case"""
    names = []
    for f in case:
        f = f[2] if isinstance(f, tuple) and f[0] == 'cmd' else f
        if isinstance(f, list):
            for a in f[1:3]:
                if isinstance(a, bytes) and a not in names and len(a) < 40:
                    names.append(a)
    return ('cmd', 99, [b'watch'] + (names or [b'k']))


def run_cases(res, prop, cases, tier, seed, t_end, sample, observers=(), scope=None, versions=(6, 7), label='matrix', watcher=False):
    rng = random.Random(seed * 31 + zlib.crc32(label.encode()) % 997)
    cases = list(cases)
    if tier == 'quick' and len(cases) > sample:
        keep = [c for c in cases if isinstance(c, Always)]
        rest = [c for c in cases if not isinstance(c, Always)]
        cases = keep + rng.sample(rest, max(0, min(len(rest), sample - len(keep))))
    for case in cases:
        if time.time() > t_end:
            res.notes.append('%s: time budget reached' % label)
            return
        evs = list(OPEN)
        if watcher:
            evs.append(('open', 99))
        for j, f in enumerate(case):
            if watcher and j >= 1 and not (isinstance(f, tuple) and f[0] != 'cmd'):
                # another client (re-)watches every key before each command: an error reply must leave its transaction state alone
                if j > 1:
                    evs.append(('cmd', 99, [b'unwatch']))
                evs.append(_watch_event(case))
            evs.append(f if isinstance(f, tuple) else ('cmd', 1, list(f)))
        for version in (versions if tier == 'thorough' else (rng.choice(versions),)):
            s, d = Cp.replay_events(evs, version, seed, observers)
            res.absorb(s)
            res.cells.add((label, Cn.name_of(evs[-1][2]) if evs[-1][0] == 'cmd' else '', len(case)))
            for v in s.violations:
                if res.add({'kind': 'monitor', 'property': v.prop, 'clause': v.clause, 'detail': v.detail, 'matrix': label, 'version': version,
                            'seed': seed, 'events': [corr.ev_json(e) for e in evs]}):
                    return
            if d is not None:
                verdict = Cp.judge(d, scope)
                if verdict == 'out-of-scope':
                    continue
                res.add({'kind': 'divergence', 'verdict': verdict, 'what': d.what, 'matrix': label, 'version': version, 'seed': seed,
                                     'events': [corr.ev_json(e) for e in evs], 'impl': d.impl_side, 'model': d.model_side, 'at': corr.ev_json(d.event)})
                return
    if tier == 'thorough':
        res.notes.append('%s: all %d cases x %d versions' % (label, len(cases), len(versions)))


# ------------------------------------------------------------------ connection life-cycle (C20)

LIFE_ROLES = {
    'sub': [[b'subscribe', b'ch1']],
    'psub': [[b'psubscribe', b'ch*']],
    'both': [[b'subscribe', b'ch1', b'ch2'], [b'psubscribe', b'c?1']],
    'watch': [[b'watch', b'k1']],
    'multi': [[b'watch', b'k1'], [b'multi'], [b'set', b'k1', b'q']],
}


def lifecycle_cases(sizes=(2, 3)):
    """n connections take a role each and are then closed / collected BACK TO BACK (no command in between), in every order of
    roles and kinds; a surviving subscriber (9) and watcher (8) stay.  Afterwards the prober (1) publishes, writes the watched key
    and publishes again, and the surviving watcher runs its transaction: closed connections must have vanished for all of them."""
    import itertools
    out = []
    for n in sizes:
        for roles in itertools.product(sorted(LIFE_ROLES), repeat=n):
            for kinds in itertools.product(('close', 'gc'), repeat=n):
                case = [('open', 9), ('cmd', 9, [b'subscribe', b'ch1']), ('open', 8), ('cmd', 8, [b'watch', b'k1']),
                        ('cmd', 8, [b'multi']), ('cmd', 8, [b'get', b'k1'])]
                for i, r in enumerate(roles):
                    c = 2 + i
                    case.append(('open', c))
                    for f in LIFE_ROLES[r]:
                        case.append(('cmd', c, list(f)))
                # every third case closes / collects the connections while the server is marked disconnected (they must be forgotten all the same)
                outage = (len(out) % 3 == 1)
                if outage:
                    case.append(('conn', 0))
                for i, k in enumerate(kinds):
                    case.append((k, 2 + i))
                if outage:
                    case.append(('conn', 1))
                case += [[b'publish', b'ch1', b'm1'], [b'set', b'k1', b'v'], [b'publish', b'ch1', b'm2'], [b'publish', b'ch2', b'm3'],
                         ('cmd', 8, [b'exec']), ('close', 9), [b'publish', b'ch1', b'm4']]
                out.append(case)
    return out


def last_element_cases():
    """every command that can take the LAST element out of a collection, on collections of one element (also the empty string as element / field /
    value / member, also with the member already present in the destination, also the same key twice, also inside MULTI): afterwards all views of
    the key space are asked - the key must be gone for each of them, and a no-op removal must leave the collection and report 0"""
    E = b''
    probes = [[b'exists', b'k'], [b'type', b'k'], [b'dbsize'], [b'keys', b'*'], [b'scan', b'0'], [b'exists', b'd'], [b'type', b'd'], [b'rpush', b'k', b'x'], [b'type', b'k']]
    groups = []
    for el in (b'a', E):
        groups.append(([[b'hset', b'k', b'f', el]], [[b'hdel', b'k', b'f'], [b'hdel', b'k', b'nofield'], [b'hdel', b'k', b'nofield', b'f'], [b'hdel', b'k', b'f', b'f']]))
        groups.append(([[b'hset', b'k', el, b'v']], [[b'hdel', b'k', el], [b'hdel', b'k', b'zz', el]]))
        groups.append(([[b'hset', b'k', el, el]], [[b'hdel', b'k', el]]))
        groups.append(([[b'sadd', b'k', el]], [[b'srem', b'k', el], [b'srem', b'k', b'zz', el], [b'spop', b'k'], [b'spop', b'k', b'1'], [b'spop', b'k', b'5'], [b'smove', b'k', b'd', el],
                                                [b'smove', b'k', b'k', el], [b'sdiffstore', b'k', b'k', b'k'], [b'sinterstore', b'k', b'k', b'nokey'], [b'sdiffstore', b'd', b'k', b'k']]))
        groups.append(([[b'sadd', b'k', el], [b'sadd', b'd', el]], [[b'smove', b'k', b'd', el], [b'smove', b'd', b'k', el], [b'sdiffstore', b'k', b'k', b'd'], [b'sinterstore', b'd', b'd', b'nokey']]))
        groups.append(([[b'sadd', b'k', el], [b'sadd', b'd', b'other']], [[b'smove', b'k', b'd', el], [b'smove', b'k', b'd', b'other'], [b'smove', b'd', b'k', b'other']]))
        groups.append(([[b'rpush', b'k', el]], [[b'lpop', b'k'], [b'rpop', b'k'], [b'lpop', b'k', b'1'], [b'rpop', b'k', b'9'], [b'lrem', b'k', b'0', el], [b'lrem', b'k', b'-1', el],
                                                 [b'ltrim', b'k', b'1', b'-1'], [b'ltrim', b'k', b'5', b'2'], [b'rpoplpush', b'k', b'd'], [b'lmove', b'k', b'd', b'left', b'right'],
                                                 [b'rpoplpush', b'k', b'k'], [b'blpop', b'k', b'0'], [b'brpop', b'nolist', b'k', b'1'], [b'brpoplpush', b'k', b'd', b'0'], [b'lrem', b'k', b'0', b'zz']]))
        groups.append(([[b'zadd', b'k', b'1', el]], [[b'zrem', b'k', el], [b'zrem', b'k', b'zz', el], [b'zremrangebyrank', b'k', b'0', b'-1'], [b'zremrangebyscore', b'k', b'-inf', b'+inf'],
                                                     [b'zremrangebylex', b'k', b'-', b'+'], [b'zremrangebyscore', b'k', b'(1', b'5'], [b'zinterstore', b'k', b'2', b'k', b'nokey'],
                                                     [b'zunionstore', b'd', b'1', b'nokey']]))
    for mk, removers in groups:
        for rm in removers:
            yield Always(mk + [rm] + probes)
            yield Always(mk + [[b'multi'], rm, [b'exists', b'k'], [b'dbsize'], [b'exec']] + probes)
            yield Always(mk + [[b'expire', b'k', b'100'], rm, [b'ttl', b'k']] + probes)


def lifecycle_name_cases():
    """one connection with a subscription HISTORY in which names coincide (a channel and a pattern spelled alike, a name subscribed twice, partly
    unsubscribed again) is closed / collected; the prober then publishes to every name: nothing of the dead connection may be left in either table"""
    hist = [
        [[b'subscribe', b'ch1'], [b'psubscribe', b'ch1']], [[b'psubscribe', b'ch1'], [b'subscribe', b'ch1']],
        [[b'subscribe', b'ch1'], [b'psubscribe', b'ch1'], [b'unsubscribe', b'ch1']], [[b'subscribe', b'ch1'], [b'psubscribe', b'ch1'], [b'punsubscribe', b'ch1']],
        [[b'psubscribe', b'ch1'], [b'subscribe', b'ch1'], [b'unsubscribe']], [[b'subscribe', b'ch1'], [b'psubscribe', b'ch1'], [b'punsubscribe']],
        [[b'subscribe', b'ch1', b'ch1']], [[b'subscribe', b'ch1'], [b'unsubscribe', b'ch1'], [b'subscribe', b'ch1']],
        [[b'psubscribe', b'ch1', b'c*'], [b'punsubscribe', b'c*']], [[b'subscribe', b'c*'], [b'psubscribe', b'c*'], [b'unsubscribe', b'c*']],
        [[b'subscribe', b'ch1', b'ch2'], [b'unsubscribe', b'ch2'], [b'psubscribe', b'ch2']], [[b'subscribe', b''], [b'psubscribe', b'']],
        [[b'watch', b'k1'], [b'subscribe', b'k1'], [b'psubscribe', b'k1']],
    ]
    for h in hist:
        for kind in ('close', 'gc'):
            for outage in (False, True):
                case = [('open', 9), ('cmd', 9, [b'subscribe', b'ch1']), ('cmd', 9, [b'psubscribe', b'ch1']), ('open', 2)] + [('cmd', 2, list(f)) for f in h]
                case += ([('conn', 0)] if outage else []) + [(kind, 2)] + ([('conn', 1)] if outage else [])
                case += [[b'publish', b'ch1', b'm1'], [b'publish', b'ch2', b'm2'], [b'publish', b'c*', b'm3'], [b'publish', b'', b'm4'], [b'publish', b'k1', b'm5'],
                         ('close', 9), [b'publish', b'ch1', b'm6']]
                yield Always(case)


# ------------------------------------------------------------------ SORT (C02)

def sort_cases():
    """SORT over a list, a sorted set and a single-element set: every combination of BY (none / nosort / weights / hash field / two BYs), ASC|DESC,
    ALPHA, LIMIT, GET, STORE on a small scale"""
    import itertools
    mk = [[b'rpush', b'l', b'3', b'1', b'2', b'1'], [b'zadd', b'z', b'1', b'3', b'2', b'1', b'3', b'2'], [b'sadd', b's', b'7'],
          [b'mset', b'w_1', b'30', b'w_2', b'20', b'w_3', b'10', b'd_1', b'one', b'd_2', b'two', b'w_1->', b'1', b'w_2->', b'3', b'w_3->', b'2', b'h_1->f->', b'9'],
          [b'hset', b'h_1', b'f', b'5', b'', b'50', b'f->', b'7'], [b'hset', b'h_2', b'f', b'4', b'', b'40'], [b'hset', b'h_3', b'f', b'6', b'', b'60'],
          [b'hset', b'w_1', b'', b'100'] if False else [b'hset', b'hh_1', b'', b'1'],
          [b'rpush', b'e_1', b'x'], [b'set', b'e_2', b'E2'], [b'sadd', b'e_7', b'm']]
    bys = [[], [b'by', b'nosort'], [b'by', b'w_*'], [b'by', b'h_*->f'], [b'by', b'nosort', b'by', b'w_*'], [b'by', b'w_*', b'by', b'nosort'], [b'by', b'h_*->'], [b'BY', b'nokey_*'], [b'by', b'w_*->'], [b'by', b'h_*->f->'], [b'by', b'->*']]
    orders = [[], [b'desc'], [b'asc'], [b'alpha'], [b'alpha', b'desc']]
    limits = [[], [b'limit', b'0', b'2'], [b'limit', b'1', b'-1'], [b'limit', b'2', b'5'], [b'limit', b'9', b'1'], [b'limit', b'-1', b'2']]
    gets = [[], [b'get', b'#'], [b'get', b'd_*', b'get', b'#'], [b'get', b'h_*->f'], [b'get', b'w_*->'], [b'get', b'h_*->']]
    for src in (b'l', b'z', b's', b'missing'):
        for by, od, lim, gt in itertools.product(bys, orders, limits, gets):
            if len(lim) and len(gt) > 2 and len(by) > 2:
                continue
            yield mk + [[b'sort', src] + by + od + lim + gt]
        for by, od in itertools.product(bys, orders):
            yield mk + [[b'sort', src] + by + od + [b'store', b'dst'], [b'lrange', b'dst', b'0', b'-1'], [b'type', b'dst']]
        # GET through a key that is missing or holds another type (nil; stored as the empty string), with and without STORE
        for gt, od in itertools.product(([b'get', b'e_*'], [b'get', b'e_*', b'get', b'#'], [b'get', b'd_*'], [b'get', b'e_*->f'], [b'get', b'h_*->nofield'], [b'by', b'e_*', b'get', b'e_*']), orders[:2]):
            yield Always(mk + [[b'sort', src] + gt + od, [b'sort', src] + gt + od + [b'store', b'dst'], [b'lrange', b'dst', b'0', b'-1'], [b'type', b'dst']])
    yield mk + [[b'sort', b'w_1'], [b'sort', b'h_1', b'by', b'nosort'], [b'sort', b'l', b'limit', b'0'], [b'sort', b'l', b'limit', b'a', b'1'], [b'sort', b'l', b'foo'],
                [b'rpush', b'bad', b'1', b'x'], [b'sort', b'bad'], [b'sort', b'bad', b'alpha'], [b'sort', b'bad', b'by', b'nosort'], [b'sort', b'bad', b'store', b'dst2'], [b'exists', b'dst2']]


# ------------------------------------------------------------------ DUMP / RESTORE (C01)

def dump_cases():
    """RESTORE of a DUMP payload yields an independent copy with the requested TTL: the same payload restored twice (two keys, the same key
    again after DEL / with REPLACE), one copy mutated, all copies and the original read back"""
    mutate = {'string': [b'append', b'K', b'!'], 'list': [b'rpush', b'K', b'new'], 'set': [b'sadd', b'K', b'new'], 'hash': [b'hset', b'K', b'nf', b'nv'],
              'zset': [b'zadd', b'K', b'9', b'new']}
    read = {'string': [b'get', b'K'], 'list': [b'lrange', b'K', b'0', b'-1'], 'set': [b'scard', b'K'], 'hash': [b'hlen', b'K'], 'zset': [b'zrange', b'K', b'0', b'-1', b'withscores']}

    def at(f, k):
        return [k if x == b'K' else x for x in f]
    for t, mk in TYPES.items():
        if t not in mutate:
            continue
        reads = [at(read[t], k) for k in (b'k', b'c1', b'c2')] + [[b'ttl', b'c1'], [b'ttl', b'c2'], [b'type', b'c1']]
        for ttl in (b'0', b'5000'):
            for who in (b'c1', b'c2', b'k'):
                yield mk + [[b'dump', b'k'], [b'restore', b'c1', ttl, b'@PAYLOAD'], [b'restore', b'c2', b'0', b'@PAYLOAD'], at(mutate[t], who)] + reads
            yield mk + [[b'dump', b'k'], [b'restore', b'c1', ttl, b'@PAYLOAD'], at(mutate[t], b'c1'), [b'del', b'c1'], [b'restore', b'c1', b'0', b'@PAYLOAD']] + reads
            yield mk + [[b'dump', b'k'], [b'restore', b'c1', ttl, b'@PAYLOAD'], at(mutate[t], b'c1'), [b'restore', b'c1', ttl, b'@PAYLOAD', b'REPLACE'], [b'restore', b'c1', b'0', b'@PAYLOAD']] + reads
            yield mk + [[b'dump', b'k'], [b'select', b'3'], [b'restore', b'c1', ttl, b'@PAYLOAD'], at(mutate[t], b'c1'), [b'select', b'0'], [b'restore', b'c1', b'0', b'@PAYLOAD']] + reads
        yield mk + [[b'dump', b'k'], [b'restore', b'k', b'0', b'@PAYLOAD'], [b'restore', b'c1', b'-1', b'@PAYLOAD'], [b'restore', b'c1', b'x', b'@PAYLOAD'], [b'restore', b'c1', b'0', b'@PAYLOAD', b'absttl'],
                    [b'multi'], [b'restore', b'c2', b'100', b'@PAYLOAD'], at(mutate[t], b'c2'), [b'ttl', b'c2'], [b'exec']] + reads


# ------------------------------------------------------------------ connection / server commands in every mode (C04)

def server_cases():
    """PING / ECHO / SELECT / TIME-free server commands with every argument shape, directly, queued in MULTI, and in subscriber mode"""
    probes = [[b'ping'], [b'ping', b''], [b'ping', b'x'], [b'PING', b'a b'], [b'ping', b'a', b'b'], [b'echo', b''], [b'echo', b'x'], [b'echo'], [b'echo', b'a', b'b'],
              [b'select', b'0'], [b'select', b'15'], [b'select', b'16'], [b'select', b'-1'], [b'select', b''], [b'select', b'1', b'2'], [b'dbsize'], [b'dbsize', b'x'],
              [b'lastsave'], [b'save'], [b'bgsave'], [b'flushdb', b'async'], [b'flushdb', b'sync'], [b'flushdb', b'x'], [b'flushall', b'async'], [b'flushall', b'x', b'y'],
              [b'quit'] if False else [b'ping', b'\r\n'], [b'swapdb', b'0', b'0'], [b'swapdb', b'0', b'16'], [b'swapdb', b'a', b'1'], [b'move', b'k', b'0'], [b'move', b'k', b'16'],
              [b'nosuch'], [b'nosuch', b''], [b''], [b'get'], [b'set', b'k'], [b'unwatch'], [b'unwatch', b'x'], [b'discard'], [b'exec'], [b'multi', b'x'], [b'watch']]
    for f in probes:
        yield [[b'set', b'k', b'v']] + [f, [b'ping']]
        yield [[b'set', b'k', b'v'], [b'multi'], f, [b'ping', b''], [b'exec'], [b'ping']]
        yield [[b'subscribe', b'ch'], f, [b'ping', b''], [b'ping'], [b'unsubscribe'], f]
        yield [[b'psubscribe', b'c*'], f, [b'punsubscribe', b'c*'], f, [b'ping', b'']]
    for a, b in ((x, y) for x in probes[:9] for y in probes[:9]):
        yield [a, b]


# ------------------------------------------------------------------ every command on a key of every type (C08)

HOLDERS = [[b'set', b'H_str', b'text'], [b'set', b'H_empty', b''], [b'set', b'H_int', b'12'], [b'rpush', b'H_list', b'a', b'b'], [b'sadd', b'H_set', b'a', b'b'],
           [b'hset', b'H_hash', b'f', b'1'], [b'zadd', b'H_zset', b'1', b'a', b'2', b'b'], [b'set', b'H_ttl', b'v', b'ex', b'1000']]


def alltype_cases(rng, n):
    """every modelled command with its first (and, separately, its second) argument replaced by a key holding each type - also the EMPTY string, which is falsy
    in Python but a perfectly good string key: a command either works on that type or answers an error and changes nothing"""
    g = gen.Gen(rng, alias=0.5)
    names = [c for c in gen.ALL_MODELLED if c not in gen.FAMILY['pubsub'] + gen.FAMILY['tx'] + ['randomkey', 'flushall', 'flushdb', 'swapdb', 'select', 'time', 'save',
                                                                                            'bgsave', 'lastsave', 'blpop', 'brpop', 'brpoplpush', 'dump', 'restore', 'sort']]
    keys = [h[1] for h in HOLDERS] + [b'H_missing']
    for c in names:
        for _ in range(n):
            f = g.command(c)
            for pos in (1, 2):
                if len(f) <= pos:
                    continue
                for k in keys:
                    f2 = list(f)
                    f2[pos] = k
                    yield HOLDERS + [f2, [b'type', k], [b'ttl', k]]
    for k in keys:
        for f in ([b'lpop', k], [b'rpop', k], [b'lpop', k, b'0'], [b'rpop', k, b'2'], [b'llen', k], [b'lrange', k, b'0', b'-1'], [b'scard', k], [b'hlen', k], [b'zcard', k], [b'strlen', k],
                  [b'getrange', k, b'0', b'-1'], [b'append', k, b''], [b'incr', k], [b'mget', k, b'H_str'], [b'sort', k], [b'sort', k, b'by', b'nosort'], [b'blpop', k, b'H_list', b'1'],
                  [b'brpoplpush', k, b'H_list', b'1'], [b'brpoplpush', b'H_list', k, b'1'], [b'rpoplpush', k, k], [b'smove', k, b'H_set', b'a'], [b'sunionstore', b'd', k, b'H_set'],
                  [b'zunionstore', b'd', b'2', k, b'H_zset'], [b'pfcount', k], [b'pfadd', k, b'x'], [b'getset', k, b'n'], [b'rename', k, b'd'], [b'dump', k], [b'exists', k, k]):
            yield Always(HOLDERS + [f, [b'type', k], [b'exists', b'd'], [b'type', b'd']])


# ------------------------------------------------------------------ subscriber mode (C10)

def subscriber_mode_cases():
    """while subscribed only (P)SUBSCRIBE/(P)UNSUBSCRIBE/PING/QUIT are accepted: every other command, on existing and on missing keys, with good and bad arguments"""
    mk = [[b'set', b'k', b'v'], [b'rpush', b'l', b'a'], [b'set', b'n', b'1']]
    probes = [[b'get', b'k'], [b'get', b'nokey'], [b'llen', b'l'], [b'llen', b'nokey'], [b'lindex', b'nokey', b'0'], [b'lindex', b'l', b'0'], [b'llen', b'k'], [b'set', b'k', b'w'],
              [b'del', b'k'], [b'incr', b'n'], [b'incr', b'k'], [b'exists', b'k'], [b'publish', b'ch', b'm'], [b'multi'], [b'exec'], [b'discard'], [b'watch', b'k'], [b'unwatch'],
              [b'select', b'1'], [b'echo', b'x'], [b'dbsize'], [b'scan', b'0'], [b'type', b'k'], [b'ttl', b'k'], [b'flushall'], [b'lpop', b'nokey'], [b'blpop', b'l', b'0'],
              [b'blpop', b'nokey', b'1'], [b'hget', b'nokey', b'f'], [b'zscore', b'nokey', b'm'], [b'smembers', b'nokey'], [b'get'], [b'nosuch'], [b'time'], [b'sort', b'l'],
              [b'rpoplpush', b'nokey', b'l'], [b'mget', b'k', b'nokey'], [b'strlen', b'nokey'], [b'getrange', b'nokey', b'0', b'1'], [b'script', b'exists', b'x'], [b'save']]
    for sub in ([b'subscribe', b'ch'], [b'psubscribe', b'c*'], [b'subscribe', b'a', b'b']):
        for f in probes:
            yield mk + [sub, f, [b'ping'], [b'unsubscribe'] if sub[0] == b'subscribe' else [b'punsubscribe'], f]


# ------------------------------------------------------------------ glob users never crash (C04, C16)

def glob_crash_cases():
    """every short pattern over the metacharacters, and every range `[x-y]` whose end points are plain, special or escaped characters, through every
    user of the matcher (KEYS, SCAN MATCH, SSCAN MATCH, pattern delivery of PUBLISH to a pattern subscriber): none may raise"""
    import itertools
    alpha = [b'a', b'b', b'[', b']', b'^', b'-', b'\\', b'*', b'?', b'+', b'd']
    pats = [b''.join(t) for n in (1, 2, 3) for t in itertools.product(alpha, repeat=n)]
    ends = alpha + [b'\\d', b'\\\\', b'\\]', b'\\-', b'\xff', b'\n']
    pats += [b'[' + a + b'-' + b + b']' for a in ends for b in ends]
    pats += [b'[^' + a + b'-' + b for a in ends[:8] for b in ends[:8]] + [b'x[' + a + b'-' + b + b']*' for a in (b'+', b'\\', b'a') for b in ends]
    seen = set()
    for p in pats:
        if p in seen:
            continue
        seen.add(p)
        case = [('open', 2), [b'mset', b'ab', b'1', b'd', b'1', b'+', b'1', b'a-b', b'1'], [b'sadd', b'ks', b'a', b'd', b'+', b'-'], [b'keys', p], [b'scan', b'0', b'match', p],
                [b'sscan', b'ks', b'0', b'match', p], ('cmd', 2, [b'psubscribe', p]), [b'publish', b'ab', b'm'], [b'publish', b'd', b'm'], [b'publish', p, b'm'],
                ('cmd', 2, [b'punsubscribe', p]), [b'publish', b'ab', b'm']]
        yield Always(case) if len(p) >= 5 else case


# ------------------------------------------------------------------ databases (C13)

def db_cases():
    """SELECT / MOVE / SWAPDB / FLUSH* directly and queued in MULTI, followed by key commands in the same transaction: every command works on the
    database selected at the moment IT runs; afterwards every database is read back from a second connection"""
    readback = [('cmd', 2, [b'select', d]) for d in ()]
    def back():
        out = []
        for d in (b'0', b'1', b'2', b'5', b'6', b'7'):
            out += [('cmd', 2, [b'select', d]), ('cmd', 2, [b'keys', b'*']), ('cmd', 2, [b'get', b'k']), ('cmd', 2, [b'dbsize'])]
            if d in (b'5', b'6', b'7'):
                out += [('cmd', 2, [b'ttl', b'k']), ('cmd', 2, [b'ttl', b't']), ('cmd', 2, [b'pttl', b'i'])]
        return out
    inner = [
        [[b'select', b'1'], [b'set', b'k', b'in1'], [b'dbsize'], [b'rpush', b'l', b'x']],
        [[b'set', b'k', b'in0'], [b'select', b'1'], [b'set', b'k', b'in1'], [b'select', b'2'], [b'append', b'k', b'in2'], [b'get', b'k']],
        [[b'select', b'1'], [b'select', b'0'], [b'set', b'k', b'back0']],
        [[b'set', b'k', b'v'], [b'move', b'k', b'1'], [b'get', b'k'], [b'select', b'1'], [b'get', b'k']],
        [[b'set', b'k', b'v'], [b'swapdb', b'0', b'1'], [b'get', b'k'], [b'set', b'j', b'w'], [b'select', b'1'], [b'get', b'k'], [b'get', b'j']],
        [[b'select', b'1'], [b'set', b'k', b'v'], [b'flushdb'], [b'set', b'j', b'w'], [b'select', b'0'], [b'dbsize']],
        [[b'select', b'16'], [b'set', b'k', b'still0']], [[b'select', b'x'], [b'set', b'k', b'still0']],
        [[b'select', b'1'], [b'keys', b'*'], [b'scan', b'0'], [b'randomkey'], [b'exists', b'k'], [b'type', b'k'], [b'ttl', b'k']],
        [[b'select', b'1'], [b'expire', b'k', b'100'], [b'ttl', b'k'], [b'rename', b'k', b'k2'], [b'select', b'0'], [b'ttl', b'k']],
        [[b'select', b'1'], [b'blpop', b'l', b'0'], [b'sort', b'l', b'store', b'k'], [b'zunionstore', b'z', b'1', b'zz'], [b'publish', b'ch', b'm']],
        # databases nobody has touched before: they are created while the command runs and must carry the server's clock
        [[b'select', b'5'], [b'set', b'k', b'v', b'ex', b'100'], [b'ttl', b'k'], [b'setex', b'j', b'50', b'w'], [b'pttl', b'j'], [b'psetex', b'i', b'1500', b'x'], [b'ttl', b'i'],
         [b'expire', b'k', b'7'], [b'ttl', b'k'], [b'expireat', b'j', b'1'], [b'exists', b'j'], [b'dbsize']],
        [[b'set', b't', b'v', b'ex', b'100'], [b'move', b't', b'6'], [b'select', b'6'], [b'ttl', b't'], [b'pexpire', b't', b'2500'], [b'ttl', b't'], [b'persist', b't'], [b'ttl', b't']],
        [[b'set', b't', b'v', b'px', b'900'], [b'swapdb', b'0', b'7'], [b'ttl', b't'], [b'select', b'7'], [b'pttl', b't'], [b'set', b'u', b'w', b'ex', b'3'], [b'ttl', b'u'], [b'keys', b'*']],
    ]
    seed = [[b'set', b'k', b'zero'], ('cmd', 2, [b'select', b'1']), ('cmd', 2, [b'mset', b'k', b'one', b'only1', b'x']), ('cmd', 2, [b'rpush', b'l', b'a', b'b']),
            ('cmd', 2, [b'zadd', b'zz', b'1', b'm'])]
    for cmds in inner:
        yield Always([('open', 2)] + seed + [[b'multi']] + cmds + [[b'exec'], [b'get', b'k'], [b'dbsize'], [b'set', b'after', b'1']] + back())
        yield Always([('open', 2)] + seed + cmds + [[b'get', b'k'], [b'dbsize'], [b'set', b'after', b'1']] + back())
        yield Always([('open', 2)] + seed + [[b'multi']] + cmds + [[b'discard'], [b'get', b'k'], [b'set', b'after', b'1']] + back())
        yield Always([('open', 2)] + seed + [[b'watch', b'k'], [b'multi']] + cmds + [('cmd', 2, [b'select', b'0']), ('cmd', 2, [b'set', b'k', b'dirty']), [b'exec'], [b'get', b'k']] + back())


    # MOVE of a key of every type (also the empty string, a key with a deadline, a key that expired) onto a free / an occupied / an expired name
    makers = [[b'set', b'k', b''], [b'set', b'k', b'0'], [b'rpush', b'k', b''], [b'sadd', b'k', b''], [b'hset', b'k', b'', b''], [b'zadd', b'k', b'0', b''],
              [b'set', b'k', b'', b'ex', b'100'], [b'setex', b'k', b'100', b'v'], [b'set', b'k', b'gone', b'px', b'10']]
    targets = [[], [('cmd', 2, [b'set', b'k', b''])], [('cmd', 2, [b'rpush', b'k', b'x'])], [('cmd', 2, [b'set', b'k', b'old', b'px', b'10'])]]
    for mk in makers:
        for tg in targets:
            for wrap in (False, True):
                body = [[b'move', b'k', b'1'], [b'exists', b'k'], [b'ttl', b'k'], [b'type', b'k'], [b'select', b'1'], [b'type', b'k'], [b'ttl', b'k'], [b'dbsize'],
                        [b'move', b'k', b'0'], [b'select', b'0'], [b'type', b'k'], [b'pttl', b'k']]
                yield Always([('open', 2), [b'flushall'], ('cmd', 2, [b'select', b'1'])] + tg + [mk, ('adv', 50)] +
                             ([[b'multi']] + body + [[b'exec']] if wrap else body) + back())


# ------------------------------------------------------------------ pub/sub (C10, C16)

def pubsub_glob_cases():
    """pattern subscriptions with sets, escapes and escape-only patterns (no *, ?, [ at all), published to literally and to what they match"""
    pats = [b'ch[1]', b'a\\*b', b'[ab', b'h[0-9]', b'c?1', b'k\\', b'\\**', b'ab\\**d', b'[^a]*', b'x[a-c]y', b'*', b'[]', b'[^]',
            b'a\\b', b'\\a\\b', b'a\\\\b', b'\\a', b'ab\\', b'a\\?b', b'a\\[b', b'\\h5', b'ab']
    for p in pats:
        chans = [p, b'ch1', b'a*b', b'axb', b'*x', b'ab*zzd', b'ab*d', b'h5', b'xby', b'k\\', b'[ab', b'a', b'ab', b'a\\b', b'a?b', b'a[b', b'ab\\']
        yield Always([('open', 2), ('open', 3), [b'set', p, b'1'], [b'set', b'ch1', b'1'], [b'set', b'ab*d', b'1'], [b'set', b'*x', b'1'], [b'set', b'ab', b'1'], [b'keys', p],
                      [b'scan', b'0', b'match', p], ('cmd', 2, [b'psubscribe', p]), ('cmd', 3, [b'subscribe', b'ab', p])] + [[b'publish', c, b'm'] for c in chans] +
                     [('cmd', 2, [b'punsubscribe', p])] + [[b'publish', c, b'm2'] for c in chans[:6]])


def pubsub_server_cases():
    """subscriptions are server-wide and survive everything that is about databases or scripts"""
    subs = [('open', 2), ('open', 3), ('cmd', 2, [b'subscribe', b'ch1', b'ch2']), ('cmd', 2, [b'psubscribe', b'c*']), ('cmd', 3, [b'select', b'3']), ('cmd', 3, [b'psubscribe', b'ch?'])]
    for act in ([[b'flushall']], [[b'flushdb']], [[b'swapdb', b'0', b'1']], [[b'select', b'5'], [b'flushall']], [[b'script', b'flush']], [[b'multi'], [b'flushall'], [b'exec']],
                [[b'save']], [[b'select', b'2'], [b'swapdb', b'2', b'0']], [('conn', 0), ('conn', 1)], [[b'multi'], [b'publish', b'ch1', b'q'], [b'discard']]):
        yield Always(subs + list(act) + [[b'publish', b'ch1', b'm1'], [b'publish', b'ch2', b'm2'], [b'publish', b'zz', b'm3'], ('cmd', 2, [b'unsubscribe', b'ch1']),
                                         [b'publish', b'ch1', b'm4'], ('cmd', 2, [b'punsubscribe']), ('cmd', 2, [b'unsubscribe']), ('cmd', 3, [b'punsubscribe', b'ch?']),
                                         [b'publish', b'ch1', b'm5']])


# ------------------------------------------------------------------ errors that are found late (C08)

def late_error_cases():
    """commands whose refusal is decided by an argument that stands AFTER the data (a bad option, a huge expire time, a bad later pair, a later key of the
    wrong type), on a key of every type: the error reply must come with nothing written, nothing deleted and no watcher alarmed"""
    HUGE = b'9223372036854775807'
    bad = [
        [b'set', b'k', b'new', b'ex', HUGE], [b'set', b'k', b'new', b'px', HUGE], [b'set', b'k', b'new', b'ex', b'9223372036854775'], [b'set', b'k', b'new', b'ex', b'0'],
        [b'set', b'k', b'new', b'px', b'-1'], [b'set', b'k', b'new', b'ex'], [b'set', b'k', b'new', b'px'], [b'set', b'k', b'new', b'ex', b'abc'], [b'set', b'k', b'new', b'nx', b'xx'],
        [b'set', b'k', b'new', b'keepttl', b'ex', b'5'], [b'set', b'k', b'new', b'ex', b'5', b'px', b'5'], [b'set', b'k', b'new', b'get', b'ex', HUGE], [b'set', b'k', b'new', b'bogus'],
        [b'setex', b'k', HUGE, b'new'], [b'setex', b'k', b'18446744073709561', b'new'], [b'setex', b'k', b'0', b'new'], [b'setex', b'k', b'-5', b'new'], [b'setex', b'k', b'abc', b'new'],
        [b'psetex', b'k', HUGE, b'new'], [b'psetex', b'k', b'9223372036854775806', b'new'], [b'psetex', b'k', b'0', b'new'],
        [b'expire', b'k', HUGE], [b'pexpire', b'k', HUGE], [b'expireat', b'k', HUGE], [b'expire', b'k', b'abc'],
        [b'mset', b'k', b'new', b'j'], [b'msetnx', b'k', b'new', b'j'], [b'hset', b'k', b'f', b'v', b'g'], [b'hmset', b'k', b'f', b'v', b'g'],
        [b'zadd', b'k', b'1', b'a', b'x', b'b'], [b'zadd', b'k', b'1', b'a', b'2'], [b'zadd', b'k', b'nx', b'xx', b'1', b'a'], [b'zadd', b'k', b'incr', b'1', b'a', b'2', b'b'],
        [b'zadd', b'k', b'1', b'a', b'nan', b'b'], [b'zincrby', b'k', b'nan', b'a'], [b'zincrby', b'k', b'x', b'a'],
        [b'linsert', b'k', b'sideways', b'a', b'x'], [b'lmove', b'k', b'j', b'left', b'sideways'], [b'lmove', b'k', b'j', b'up', b'left'], [b'lset', b'k', b'99', b'x'],
        [b'lpop', b'k', b'-1'], [b'rpop', b'k', b'1', b'2'], [b'spop', b'k', b'-1'], [b'spop', b'k', b'1', b'2'], [b'setrange', b'k', b'536870912', b'x'], [b'setrange', b'k', b'-1', b'x'],
        [b'setbit', b'k', b'1', b'2'], [b'setbit', b'k', b'4294967296', b'1'], [b'incrbyfloat', b'k', b'inf'], [b'incrbyfloat', b'k', b'x'], [b'incrby', b'k', b'9223372036854775807'],
        [b'hincrby', b'k', b'f', b'x'], [b'hincrbyfloat', b'k', b'f', b'inf'], [b'hincrbyfloat', b'k', b'f', b'nan'],
        [b'zunionstore', b'k', b'1', b'zz', b'weights', b'x'], [b'zunionstore', b'k', b'1', b'zz', b'aggregate', b'avg'], [b'zunionstore', b'k', b'2', b'zz'], [b'zunionstore', b'k', b'0', b'zz'],
        [b'zinterstore', b'k', b'2', b'nokey', b'str'], [b'zinterstore', b'k', b'2', b'nokey', b'zz', b'weights', b'1'], [b'zinterstore', b'k', b'2', b'zz', b'nokey', b'aggregate', b'x'],
        [b'zunionstore', b'k', b'2', b'zz', b'str'], [b'sinterstore', b'k', b'ss', b'str'], [b'sunionstore', b'k', b'nokey', b'str'], [b'sdiffstore', b'k', b'ss', b'ss', b'str'],
        [b'sinterstore', b'k', b'nokey', b'str'], [b'pfmerge', b'k', b'ss', b'str'], [b'smove', b'ss', b'k', b'm'], [b'smove', b'k', b'str', b'a'], [b'rpoplpush', b'll', b'k'], [b'rpoplpush', b'k', b'str'],
        [b'sort', b'll', b'store', b'k', b'bogus'], [b'sort', b'll', b'limit', b'0', b'store', b'k'], [b'sort', b'll', b'store'], [b'sort', b'lbad', b'store', b'k'], [b'sort', b'll', b'by', b'w_*', b'store', b'k', b'limit', b'x', b'1'],
        [b'rename', b'nokey', b'k'], [b'renamenx', b'nokey', b'k'], [b'restore', b'k', b'-1', b'x'], [b'restore', b'k', b'0', b'garbage', b'replace'], [b'restore', b'k', b'abc', b'x', b'replace'],
        [b'move', b'k', b'16'], [b'move', b'k', b'x'], [b'swapdb', b'0', b'16'], [b'select', b'16'], [b'append', b'k'], [b'getset', b'k'], [b'lpush', b'k'], [b'sadd', b'k'],
        # a malformed number together with a key of another type: the argument error is reported (arguments are converted before keys are looked at)
        [b'incrby', b'k', b'abc'], [b'decrby', b'k', b'1.5'], [b'setrange', b'k', b'x', b'v'], [b'setbit', b'k', b'-1', b'1'], [b'getbit', b'k', b'nope'], [b'getrange', b'k', b'a', b'1'],
        [b'lindex', b'k', b'x'], [b'lrange', b'k', b'0', b'x'], [b'lrem', b'k', b'x', b'a'], [b'ltrim', b'k', b'x', b'1'], [b'hincrby', b'k', b'f', b'1.5'], [b'zrange', b'k', b'0', b'x'],
        [b'zrangebyscore', b'k', b'a', b'1'], [b'zrangebylex', b'k', b'a', b'+'], [b'zcount', b'k', b'1', b'x'], [b'zremrangebyrank', b'k', b'x', b'1'], [b'zincrby', b'k', b'abc', b'm'],
        [b'expire', b'k', b'1.5'], [b'pexpireat', b'k', b''], [b'psetex', b'k', b'x', b'v'], [b'srandmember', b'k', b'x'], [b'spop', b'k', b'x'], [b'sscan', b'k', b'x'], [b'hscan', b'k', b'-1'],
        [b'bitcount', b'k', b'a', b'b'], [b'restore', b'k', b'x', b'p'],
    ]
    for tname, mk in sorted(TYPES.items()) + [('missing', []), ('empty-string', [[b'set', b'k', b'']]), ('string+ttl', [[b'set', b'k', b'v', b'ex', b'100']])]:
        pre = mk + [[b'zadd', b'zz', b'1', b'm'], [b'sadd', b'ss', b'm'], [b'rpush', b'll', b'2', b'1'], [b'rpush', b'lbad', b'1', b'x'], [b'set', b'str', b'v']]
        for f in bad:
            case = pre + [list(f), [b'type', b'k'], [b'ttl', b'k'], [b'dbsize']]
            yield Always(case) if tname in ('string+ttl', 'list', 'missing') else case
