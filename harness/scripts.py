"""C19: EVAL / EVALSHA / SCRIPT through the stand-in Lua host.  The socket subclass records, as hints for the
model, the SHA-1 of the source, every redis.call/pcall with its Lua arguments and the value returned to Lua, and the
script's final Lua value."""
import hashlib, os, random, sys, time
HERE = os.path.dirname(os.path.abspath(__file__))
STANDIN = os.path.join(HERE, 'lupa_standin')
if STANDIN not in sys.path:
    sys.path.insert(0, STANDIN)
import impl as I
import corr, gen, canon as Cn
import campaigns as Cp
from fakeredis import _fakesocket as FS, _helpers as H, _msgs as msgs


def ser(v):
    """Lua value (as the bridge sees it: python objects from the host) -> the model's LuaVal text"""
    import lupa
    if v is None:
        return b'N'
    if v is True:
        return b'T'
    if v is False:
        return b'F'
    if isinstance(v, int):
        return b'I%d;' % v
    if isinstance(v, float):
        return b'D%d;' % I.dbl_bits(v)
    if isinstance(v, bytes):
        return b'S' + v.hex().encode() + b';'
    if isinstance(v, str):
        return b'U' + v.encode('utf-8').hex().encode() + b';'
    if lupa.lua_type(v) == 'table':
        arr = []
        i = 1
        while i in v:
            arr.append(ser(v[i]))
            i += 1
        hashp = []
        for k in sorted(k for k in v.keys() if isinstance(k, bytes)):
            hashp.append(k.hex().encode() + b'=' + ser(v[k]))
        return b'{' + b','.join(arr) + b'|' + b','.join(hashp) + b'}'
    return b'?' + repr(v).encode()


def make_script_socket(base, rnd):
    class SSocket(base):
        _pcall_depth = 0

        def eval(self, script, numkeys, *a):
            rnd.log.append([b'sha', hashlib.sha1(script).hexdigest().encode()])
            n0 = len(rnd.log)
            try:
                return base.eval(self, script, numkeys, *a)
            except H.SimpleError as e:
                # errors that come from the Lua host itself (the model cannot know their text)
                last = rnd.log[-1] if len(rnd.log) > n0 else None
                raised_by_call = last is not None and last[0] == b'exc' and getattr(self, '_last_call_tag', None) == b'call'
                if e.value.startswith('ERR Script attempted to set global variables') and not raised_by_call:
                    rnd.log.append([b'globals', e.value.encode()])
                elif 'Error running script' in e.value and not raised_by_call:
                    rnd.log.append([b'luaerror', e.value.split('@user_script:?: ', 1)[-1].encode()])
                raise
        eval._fakeredis_sig = base.eval._fakeredis_sig

        def script(self, subcmd, *args):
            if H.casematch(subcmd, b'load') and len(args) == 1:
                rnd.log.append([b'sha', hashlib.sha1(args[0]).hexdigest().encode()])
            return base.script(self, subcmd, *args)
        script._fakeredis_sig = base.script._fakeredis_sig

        def _lua_redis_call(self, lua_runtime, expected_globals, op, *args):
            tag = b'pcall' if self._pcall_depth else b'call'
            self._last_call_tag = tag
            gmsg = b''
            try:
                self._check_for_lua_globals(lua_runtime, expected_globals)
            except H.SimpleError as e:
                gmsg = e.value.encode()
            rnd.log.append([tag, gmsg, ser(op)] + [ser(x) for x in args])
            try:
                r = base._lua_redis_call(self, lua_runtime, expected_globals, op, *args)
            except H.SimpleError as e:
                rnd.log.append([b'exc', e.value.encode()])
                raise
            rnd.log.append([b'ret', ser(r)])
            return r

        def _lua_redis_pcall(self, lua_runtime, expected_globals, op, *args):
            self._pcall_depth += 1
            try:
                return base._lua_redis_pcall(self, lua_runtime, expected_globals, op, *args)
            finally:
                self._pcall_depth -= 1

        def _convert_lua_result(self, result, nested=True):
            if nested is False:
                rnd.log.append([b'return', ser(result)])
            return base._convert_lua_result(self, result, nested)
    return SSocket


# ----------------------------------------------------------------------------- script generator
CALLABLE = ['set', 'get', 'incr', 'incrby', 'append', 'del', 'exists', 'lpush', 'rpush', 'lpop', 'lrange', 'llen', 'sadd', 'scard', 'sismember',
            'hset', 'hget', 'hgetall', 'zadd', 'zscore', 'zrange', 'expire', 'ttl', 'type', 'mget', 'strlen', 'getrange', 'ping', 'echo',
            'publish', 'rename', 'setnx', 'hincrby', 'zincrby', 'incrbyfloat', 'dbsize', 'keys']
FORBIDDEN = ['multi', 'exec', 'watch', 'subscribe', 'blpop', 'eval', 'save', 'script', 'discard']


def lua_str(b):
    return "'" + ''.join(chr(c) if 32 <= c < 127 and chr(c) not in "'\\" else '\\%03d' % c for c in b) + "'"


def gen_script(rng, g):
    """-> (source bytes, numkeys, keys_and_args) from the property's grammar"""
    keys = [rng.choice(gen.ALLKEYS) for _ in range(rng.choice([0, 1, 1, 2]))]
    args = [rng.choice(gen.POOLS2['V'][0] + gen.POOLS2['I'][0] + [b'1.5']) for _ in range(rng.choice([0, 1, 2]))]
    lines = []
    nvars = 0

    def arg_expr(b):
        k = rng.random()
        if keys and b in keys and k < 0.5:
            return 'KEYS[%d]' % (keys.index(b) + 1)
        if args and b in args and k < 0.5:
            return 'ARGV[%d]' % (args.index(b) + 1)
        try:
            if k < 0.3 and str(int(b)).encode() == b:
                return rng.choice([str(int(b)), '%d.0' % int(b)])
        except ValueError:
            pass
        return lua_str(b)
    ncalls = rng.choice([0, 1, 1, 2, 3, 4])
    for _ in range(ncalls):
        name = rng.choice(CALLABLE) if rng.random() < 0.9 else rng.choice(FORBIDDEN + ['nosuchcmd'])
        f = g.command(name) if name in gen.TEMPLATES else [name.encode()]
        if rng.random() < 0.08 and len(f) > 1:
            f = g.mutate(f)
            if not f or not f[0]:
                f = [b'get']
        cargs = [arg_expr(x) for x in f[1:]]
        if rng.random() < 0.06:
            cargs.append(rng.choice(['true', 'nil', '{1}', '3.7']))
        fn = rng.choice(['redis.call', 'redis.call', 'redis.pcall'])
        call = '%s(%s)' % (fn, ', '.join([lua_str(f[0])] + cargs))
        k = rng.random()
        if k < 0.55:
            nvars += 1
            lines.append('local v%d = %s' % (nvars, call))
        elif k < 0.9:
            lines.append(call)
        else:
            lines.append('if %s then %s end' % (call, 'redis.call(%s, %s, %s)' % (lua_str(b'set'), lua_str(b'flag'), lua_str(b'1'))))
    if rng.random() < 0.05:
        lines.append('leaked = 1')
    rets = ['nil', 'true', 'false', '1', '-7', '3.7', '-3.7', "'str'", "''", '{1, 2, 3}', "{1, nil, 3}", "{'a', {'b', 2.5}, 3}", '{}',
            "{ok='FINE'}", "{err='ERR custom'}", "redis.status_reply('OKAY')", "redis.error_reply('MY failure')", "{1, {err='inner'}}",
            "{ok=5}", "1e3", "2^53", "{true, false}", "#ARGV", "#KEYS", "tostring(1.5)", "tonumber('42') + 1", "'a' .. 'b'"]
    if keys:
        rets += ['KEYS[1]', "{KEYS[1], ARGV[1]}"]
    if nvars:
        rets += ['v%d' % rng.randint(1, nvars)] * 6 + ['{v%d, 7}' % rng.randint(1, nvars), 'type(v%d)' % rng.randint(1, nvars)]
    if rng.random() < 0.06:
        lines.append("error('boom')" if rng.random() < 0.5 else 'local x = nil + 1')
    if rng.random() < 0.9:
        lines.append('return ' + rng.choice(rets))
    src = '\n'.join(lines).encode('latin-1')
    shown = len(keys)
    if rng.random() < 0.08:
        shown = rng.choice([-1, len(keys) + len(args) + 1, 0])
    return src, shown, keys + args


def plan_scripts(length):
    def plan(s, rng):
        g = Cp.make_gen(s, rng)
        yield ('open', 1)
        yield ('open', 2)
        for f in gen.SEED_COMMANDS:
            yield ('cmd', 1, f)
        shas = []
        for _ in range(length):
            r = rng.random()
            if r < 0.6:
                src, nk, ka = gen_script(rng, g)
                shas.append((hashlib.sha1(src).hexdigest().encode(), nk, ka))
                yield ('cmd', 1, [b'eval', src, str(nk).encode()] + ka)
            elif r < 0.7 and shas:
                sha, nk, ka = rng.choice(shas)
                if rng.random() < 0.2:
                    sha = rng.choice([sha.upper(), b'0' * 40, b'x'])
                yield ('cmd', rng.choice([1, 2]), [b'evalsha', sha, str(nk).encode()] + ka)
            elif r < 0.8:
                k = rng.random()
                if k < 0.4:
                    src, nk, ka = gen_script(rng, g)
                    shas.append((hashlib.sha1(src).hexdigest().encode(), nk, ka))
                    yield ('cmd', 1, [b'script', rng.choice([b'load', b'LOAD']), src])
                elif k < 0.75:
                    ask = [rng.choice(shas)[0] if shas and rng.random() < 0.7 else b'f' * 40 for _ in range(rng.choice([0, 1, 2, 3]))]
                    ask = [rng.choice([a, a, a.upper(), a + b'\x00zz', a[:-1]]) for a in ask]
                    yield ('cmd', 2, [b'script', b'exists'] + ask)
                elif k < 0.9:
                    yield ('cmd', 1, [b'script', b'flush'] + rng.choice([[], [b'sync'], [b'ASYNC'], [b'x'], [b'a', b'b']]))
                else:
                    yield ('cmd', 1, [b'script', rng.choice([b'kill', b'load', b'nosuch'])])
            elif r < 0.85:
                yield ('adv', rng.choice([1, 1000, 5000]))
            else:
                yield ('cmd', rng.choice([1, 2]), g.command(rng.choice(CALLABLE)))
    return plan


def plan_scripts_tx(length):
    """script commands QUEUED inside MULTI: EXEC runs them like direct ones (same conversion, same refusals), one after the other inside the one
    critical section, together with ordinary commands; errors of an inner script are just that element of the EXEC reply"""
    def plan(s, rng):
        g = Cp.make_gen(s, rng)
        yield ('open', 1)
        yield ('open', 2)
        for f in gen.SEED_COMMANDS:
            yield ('cmd', 1, f)
        shas = []
        for _ in range(length):
            src0, nk0, ka0 = gen_script(rng, g)
            if rng.random() < 0.5:
                yield ('cmd', 2, [b'script', b'load', src0])
                shas.append((hashlib.sha1(src0).hexdigest().encode(), nk0, ka0))
            if rng.random() < 0.3:
                yield ('cmd', 1, [b'watch', rng.choice(gen.ALLKEYS)])
                if rng.random() < 0.5:
                    yield ('cmd', 2, g.command(rng.choice(['set', 'lpush', 'del', 'incr'])))
            yield ('cmd', 1, [b'multi'])
            for _ in range(rng.choice([1, 2, 3, 4])):
                r = rng.random()
                if r < 0.5:
                    src, nk, ka = gen_script(rng, g)
                    yield ('cmd', 1, [b'eval', src, str(nk).encode()] + ka)
                elif r < 0.65 and shas:
                    sha, nk, ka = rng.choice(shas)
                    if rng.random() < 0.25:
                        sha = rng.choice([b'0' * 40, sha.upper()])
                    yield ('cmd', 1, [b'evalsha', sha, str(nk).encode()] + ka)
                elif r < 0.75:
                    yield ('cmd', 1, rng.choice([[b'script', b'exists'] + [x[0] for x in shas[:2]], [b'script', b'flush'], [b'script', b'load', src0], [b'script', b'nosuch']]))
                elif r < 0.8:
                    yield ('cmd', 1, rng.choice([[b'eval'], [b'eval', b'return 1'], [b'eval', b'return 1', b'x'], [b'evalsha', b'abc']]))
                else:
                    yield ('cmd', 1, g.command(rng.choice(CALLABLE)))
            yield ('cmd', 1, rng.choice([[b'exec'], [b'exec'], [b'exec'], [b'discard']]))
            yield ('cmd', 2, g.command(rng.choice(['get', 'lrange', 'dbsize', 'keys'])))
            if rng.random() < 0.2:
                yield ('adv', rng.choice([1, 1000]))
    return plan


def available():
    try:
        import lupa  # noqa
        return os.path.dirname(lupa.__file__)
    except ImportError:
        return None
