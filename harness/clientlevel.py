"""Client-level parts: the real redis-py / redis.asyncio clients on FakeServer objects (C13 construction forms,
C17 decode_responses, C20 outage and close/GC).  No Lean model here except the three-line decision rules stated
in the docstrings; these parts are implementation monitors."""
import asyncio, gc, random, time, warnings
import fakeredis
import redis
from fakeredis import aioredis as far
import impl as I
from fakeredis import _fakesocket as FS

warnings.filterwarnings('ignore')


def real_time():
    import time as _t, random as _r
    FS.time = _t
    FS.random = _r


def finding(prop, clause, detail):
    return {'kind': 'client', 'verdict': 'violation', 'property': prop, 'clause': clause, 'detail': detail}


# ----------------------------------------------------------------------------- C13
def run_C13(res, tier, seed, t_end):
    """resolveServer: server= given -> that server; no server -> a fresh empty one; db= / url path select the database"""
    real_time()
    rng = random.Random(seed + 13)
    loop = asyncio.new_event_loop()
    for rnd in range(8 if tier == 'quick' else 120):
        A, B = fakeredis.FakeServer(), fakeredis.FakeServer()
        dbs = [0, rng.randrange(1, 16)]
        forms = []
        for srv, tag in ((A, 'A'), (B, 'B')):
            for db in dbs:
                forms.append((tag, db, 'Strict(server,db)', fakeredis.FakeStrictRedis(server=srv, db=db)))
                forms.append((tag, db, 'Redis(server,db)', fakeredis.FakeRedis(server=srv, db=db)))
                forms.append((tag, db, 'Strict(host,port,db positional)', fakeredis.FakeStrictRedis('localhost', 6379, db, server=srv)))
                forms.append((tag, db, 'Redis(host,port,db positional)', fakeredis.FakeRedis('localhost', 6379, db, None, server=srv)))
                forms.append((tag, db, 'from_url(server)', fakeredis.FakeStrictRedis.from_url('redis://localhost:6379/%d' % db, server=srv)))
                forms.append((tag, db, 'from_url(db kw)', fakeredis.FakeRedis.from_url('redis://localhost:6379', db=db, server=srv)))
                forms.append((tag, db, 'aio(server,db)', far.FakeRedis(server=srv, db=db)))
                forms.append((tag, db, 'aio.from_url', far.FakeRedis.from_url('redis://localhost:6379/%d' % db, server=srv)))
        fresh = [('F%d' % i, 0, 'fresh', f()) for i, f in enumerate([lambda: fakeredis.FakeStrictRedis(host='redis.example'), lambda: fakeredis.FakeStrictRedis(host='redis.example'),
                 lambda: fakeredis.FakeRedis(host='localhost', port=6380), lambda: fakeredis.FakeRedis(host='localhost', port=6380, db=0),
                 lambda: fakeredis.FakeStrictRedis(host='localhost', version=6), lambda: fakeredis.FakeStrictRedis(host='localhost', version=6),
                 lambda: far.FakeRedis(host='redis.example'), lambda: far.FakeRedis(host='redis.example'),lambda: fakeredis.FakeStrictRedis(), lambda: fakeredis.FakeRedis(),
                 lambda: fakeredis.FakeStrictRedis.from_url('redis://localhost'), lambda: far.FakeRedis(),
                 lambda: fakeredis.FakeStrictRedis.from_url('redis://localhost'), lambda: fakeredis.FakeRedis.from_url('redis://localhost/0'),
                 lambda: far.FakeRedis.from_url('redis://localhost'), lambda: far.FakeRedis.from_url('redis://localhost')])]

        def call(cl, *args):
            r = cl.execute_command(*args)
            if asyncio.iscoroutine(r):
                r = loop.run_until_complete(r)
            return r
        expect = {}
        for i, (tag, db, form, cl) in enumerate(forms + fresh):
            key = b'k'
            val = ('%s/%d/%d' % (tag, db, i)).encode()
            # a fresh server must be empty; a shared one must show what earlier clients of the same (server, db) wrote
            got = call(cl, 'GET', key)
            want = expect.get((tag, db))
            res.evaluations += 1
            res.cells.add(('construct', form, db == 0))
            if got != want:
                res.add(finding('C13', 'clients_share_or_isolate', 'client %s of server %s db %d read %r, expected %r' % (form, tag, db, got, want)))
                return
            call(cl, 'SET', key, val)
            expect[(tag, db)] = val
        for tag, db, form, cl in forms + fresh:
            got = call(cl, 'GET', b'k')
            if got != expect[(tag, db)]:
                res.add(finding('C13', 'clients_share_or_isolate', 'after all writes client %s of %s/%d read %r expected %r' % (form, tag, db, got, expect[(tag, db)])))
                return
            if asyncio.iscoroutinefunction(getattr(cl, 'close', None)):
                try:
                    loop.run_until_complete(cl.close())
                except Exception:
                    pass
    loop.close()


# ----------------------------------------------------------------------------- C17
def deep_decode(r, enc='utf-8'):
    if isinstance(r, bytes):
        return r.decode(enc)
    if isinstance(r, (list, tuple)):
        return [deep_decode(x, enc) for x in r]
    if isinstance(r, set):
        return sorted(deep_decode(x, enc) for x in r)
    if isinstance(r, dict):
        return {deep_decode(k, enc): deep_decode(v, enc) for k, v in r.items()}
    return r


def plain(r):
    if isinstance(r, (list, tuple)):
        return [plain(x) for x in r]
    if isinstance(r, set):
        return sorted(plain(x) for x in r)
    if isinstance(r, dict):
        return {k: plain(v) for k, v in r.items()}
    return r


def run_C17(res, tier, seed, t_end, only_buffers=False, prop='C17'):
    """decode_responses=True decodes exactly the bulk strings at every depth; False returns bytes"""
    real_time()
    rng = random.Random(seed + 17)
    if only_buffers:
        rawc = fakeredis.FakeStrictRedis()
        for arg in (memoryview(b'abc\r\ndef'), b'abc\r\ndef', memoryview(b''), memoryview(bytes(range(256)) * 40), bytearray(b'xyz') if False else b'xyz'):
            try:
                rawc.set('mv', arg); got = rawc.get('mv'); rawc.rpush('mvl', arg, b'x', arg); gl = rawc.lrange('mvl', 0, -1); rawc.delete('mvl')
                p = rawc.pipeline(); p.set('mv2', arg); p.get('mv2'); pp = p.execute()
                ok = rawc.ping()
            except Exception as e:      # noqa
                got, gl, ok, pp = repr(e), None, False, None
            res.evaluations += 1
            res.cells.add(('buffer-arg', type(arg).__name__, len(bytes(arg)) > 100))
            if got != bytes(arg) or gl != [bytes(arg), b'x', bytes(arg)] or ok is not True or pp != [True, bytes(arg)]:
                res.add(finding(prop, 'buffer_arguments', 'a %s argument of %d bytes: SET/GET gave %r, RPUSH/LRANGE %r, pipeline %r, then PING %r' % (
                    type(arg).__name__, len(bytes(arg)), str(got)[:80], str(gl)[:80], str(pp)[:80], ok)))
                return
        return
    texts = ['', 'a', 'héllo', '日本', 'x' * 300, '0', '\r\n', 'a b']
    for rnd in range(10 if tier == 'quick' else 200):
        raw = fakeredis.FakeStrictRedis(decode_responses=False)
        dec = fakeredis.FakeStrictRedis(decode_responses=True)
        key, fld, v1, v2 = rng.choice(['k', 'ключ']), rng.choice(texts) or 'f', rng.choice(texts), rng.choice(texts)
        cmds = [('SET', key, v1), ('GET', key), ('DEL', key), ('RPUSH', key, v1, v2), ('LRANGE', key, 0, -1), ('BLPOP', key, 1), ('DEL', key),
                ('HSET', key, fld, v1), ('HGETALL', key), ('HMGET', key, fld, 'nofield'), ('DEL', key), ('ZADD', key, 1.5, v1), ('ZRANGE', key, 0, -1, 'WITHSCORES'),
                ('SCAN', 0), ('TYPE', key), ('ECHO', v2), ('PING',), ('DEL', key), ('SADD', key, v1), ('SMEMBERS', key), ('SSCAN', key, 0), ('EXISTS', key),
                ('INCRBYFLOAT', 'n', '1.5'), ('KEYS', '*'), ('GET', 'missing'), ('LPOP', 'missing')]
        for c in cmds:
            try:
                a, b = raw.execute_command(*c), dec.execute_command(*c)
            except Exception as e:
                res.add(finding('C17', 'decode_deep', '%r raised %r' % (c, e)))
                return
            res.evaluations += 1
            res.cells.add(('decode', c[0]))
            norm = lambda x: sorted(x, key=repr) if isinstance(x, (set, list)) and c[0] in ('SMEMBERS',) else (dict(x) if isinstance(x, dict) else x)   # noqa
            aa = a if not isinstance(a, (set,)) else sorted(a)
            bb = b if not isinstance(b, (set,)) else sorted(b)
            ok = deep_decode(a) == plain(b) or (c[0] in ('ZRANGE', 'INCRBYFLOAT') and _loose_eq(deep_decode(a), plain(b)))
            if not ok:
                res.add(finding('C17', 'decode_deep', '%r: raw %r decoded client %r' % (c, a, b)))
                return
            if not _all_bytes(a):
                res.add(finding('C17', 'raw_is_bytes', '%r with decode_responses=False returned a str inside %r' % (c, a)))
                return
        # DUMP is never decoded, RESTORE takes it back
        dec.execute_command('SET', 'dk', v1)
        try:
            payload = dec.dump('dk')
            ok_dump = isinstance(payload, bytes) and dec.restore('dk2', 0, payload) and dec.get('dk2') == v1
        except Exception as e:
            ok_dump, payload = False, repr(e)
        res.evaluations += 1
        if not ok_dump:
            res.add(finding('C17', 'dump_not_decoded', 'decode_responses=True: DUMP/RESTORE of %r gave %r' % (v1, payload)))
            return
        # the configured error handler is used for bytes that are not valid in the encoding
        rep = fakeredis.FakeStrictRedis(decode_responses=True, encoding_errors='replace')
        raw.execute_command('SET', 'bad', b'ab\xff\xfecd')
        rep2 = fakeredis.FakeStrictRedis(server=raw.connection_pool.connection_kwargs['server'], decode_responses=True, encoding_errors='replace')
        try:
            got = rep2.get('bad')
            lst = rep2.execute_command('MGET', 'bad', 'nokey')
        except Exception as e:
            got, lst = repr(e), None
        res.evaluations += 1
        if got != b'ab\xff\xfecd'.decode('utf-8', 'replace') or lst != [got, None]:
            res.add(finding('C17', 'encoding_errors_honoured', "encoding_errors='replace': GET gave %r, MGET %r" % (got, lst)))
            return
        # every way redis-py offers to configure the codec reaches the connection: the deprecated aliases charset= / errors=, positional construction, from_url
        srv_a = raw.connection_pool.connection_kwargs['server']
        raw.execute_command('SET', 'lat', b'caf\xe9')
        forms = []
        with warnings.catch_warnings():
            warnings.simplefilter('ignore')
            forms.append(("charset='latin-1'", lambda: fakeredis.FakeStrictRedis(server=srv_a, charset='latin-1', decode_responses=True), 'lat', 'caf\xe9'))
            forms.append(("errors='replace'", lambda: fakeredis.FakeStrictRedis(server=srv_a, errors='replace', decode_responses=True), 'bad', b'ab\xff\xfecd'.decode('utf-8', 'replace')))
            forms.append(("errors='ignore'", lambda: fakeredis.FakeStrictRedis(server=srv_a, errors='ignore', decode_responses=True), 'bad', 'abcd'))
            forms.append(("encoding='latin-1'", lambda: fakeredis.FakeStrictRedis(server=srv_a, encoding='latin-1', decode_responses=True), 'lat', 'caf\xe9'))
            forms.append(("from_url encoding", lambda: fakeredis.FakeStrictRedis.from_url('redis://localhost/0', server=srv_a, encoding='latin-1', decode_responses=True), 'lat', 'caf\xe9'))
            for label, mk, key, want in forms:
                try:
                    got = mk().get(key)
                except Exception as e:      # noqa
                    got = repr(e)
                res.evaluations += 1
                res.cells.add(('codec-config', label))
                if got != want:
                    res.add(finding('C17', 'codec_configuration_honoured', 'FakeStrictRedis(%s, decode_responses=True).get(%r) gave %r, expected %r' % (label, key, got, want)))
                    return
        # pipelines and transactions keep the bytes
        blob = bytes(rng.randrange(256) for _ in range(rng.choice([1, 10, 1000])))
        p = raw.pipeline(transaction=rng.random() < 0.5)
        p.set(b'b', blob); p.get(b'b'); p.append(b'b', b'\r\n'); p.get(b'b')
        out = p.execute()
        res.evaluations += 1
        if out[1] != blob or out[3] != blob + b'\r\n':
            res.add(finding('C17', 'stored_bytes_unchanged', 'pipeline stored %r read %r' % (blob, out)))
            return
        # pub/sub messages are decoded too
        ps = dec.pubsub()
        ps.subscribe('ch')
        ps.get_message(timeout=0.1)
        dec.publish('ch', v1)
        m = ps.get_message(timeout=0.5)
        res.evaluations += 1
        if not m or m['data'] != v1 or m['channel'] != 'ch':
            res.add(finding('C17', 'decode_deep', 'pub/sub message %r for %r' % (m, v1)))
            return
        ps.close()
        # messages that were queued before an emulated outage are handed out decoded like any other reply
        srv_o = fakeredis.FakeServer()
        deco = fakeredis.FakeStrictRedis(server=srv_o, decode_responses=True)
        pso = deco.pubsub(); pso.subscribe('ch'); pso.psubscribe('c*'); pso.get_message(timeout=0.1); pso.get_message(timeout=0.1)
        deco.publish('ch', v1 or 'x')
        srv_o.connected = False
        got = []
        for _ in range(2):
            try:
                got.append(pso.get_message(timeout=0.2))
            except Exception as e:      # noqa
                got.append(repr(e))
        srv_o.connected = True
        res.evaluations += 1
        res.cells.add(('decode', 'queued-before-outage'))
        want_d = v1 or 'x'
        if not all(isinstance(m, dict) and m.get('data') == want_d and m.get('channel') == 'ch' for m in got):
            res.add(finding('C17', 'decode_deep', 'decode_responses=True, messages queued before an outage and read during it: %r, expected data %r and channel %r as str' % (got, want_d, 'ch')))
            return
        # encodings that are not ASCII-compatible: the configured codec decides, never a guess from the bytes
        for enc in ('utf-16-le', 'utf-16', 'utf-32-be', 'cp037', 'utf-7'):
            srv_e = fakeredis.FakeServer()
            rawe = fakeredis.FakeStrictRedis(server=srv_e)
            dece = fakeredis.FakeStrictRedis(server=srv_e, decode_responses=True, encoding=enc)
            for text in ('hi', 'A', v2 or 'zz', '12'):
                try:
                    data = text.encode(enc)
                    rawe.set(b'k', data); rawe.delete(b'l'); rawe.rpush(b'l', data, data)
                    got = (dece.execute_command('GET', b'k'), dece.execute_command('LRANGE', b'l', 0, -1), dece.execute_command('MGET', b'k', b'nokey'))
                    want = (data.decode(enc), [data.decode(enc)] * 2, [data.decode(enc), None])
                except UnicodeError:
                    continue
                except Exception as e:      # noqa
                    got, want = repr(e), None
                res.evaluations += 1
                res.cells.add(('decode-encoding', enc))
                if got != want:
                    res.add(finding('C17', 'configured_encoding_decides', 'encoding=%r, stored %r: decoding client read %r, expected %r' % (enc, data, got, want)))
                    return
        # every subscriber gets its own view of a message: a decoding reader must not change what a raw reader receives (and vice versa)
        srv2 = fakeredis.FakeServer()
        rawc, decc, lat = (fakeredis.FakeStrictRedis(server=srv2), fakeredis.FakeStrictRedis(server=srv2, decode_responses=True),
                           fakeredis.FakeStrictRedis(server=srv2, decode_responses=True, encoding='latin-1'))
        subs = [(decc.pubsub(), 'dec'), (rawc.pubsub(), 'raw'), (lat.pubsub(), 'latin-1'), (rawc.pubsub(), 'raw2')]
        if rnd % 2:
            subs.reverse()
        for psx, _ in subs:
            psx.subscribe('ch'); psx.psubscribe('c*')
            psx.get_message(timeout=0.1); psx.get_message(timeout=0.1)
        payload = 'héllo wörld'.encode('utf-8') if rnd % 3 else b'caf\xc3\xa9'
        rawc.publish('ch', payload)
        for psx, kind in subs:
            for _ in range(2):
                m = psx.get_message(timeout=0.5)
                want = payload if kind.startswith('raw') else payload.decode('utf-8' if kind == 'dec' else 'latin-1')
                wch = b'ch' if kind.startswith('raw') else 'ch'
                res.evaluations += 1
                if not m or m['data'] != want or m['channel'] != wch or type(m['data']) is not type(want):
                    res.add(finding('C17', 'subscribers_do_not_share_a_reply', 'subscriber %s got %r, expected data %r' % (kind, m, want)))
                    return
            psx.close()
        # decoding is per client (its own encoding and error handler) and all-or-nothing per reply
        rawc.rpush('mixed', 'text', b'\xff\xfe', 'more'); rawc.set('short', b'caf\xe9'); rawc.set('u', 'é'.encode('utf-8'))
        strict = fakeredis.FakeStrictRedis(server=srv2, decode_responses=True)
        repl = fakeredis.FakeStrictRedis(server=srv2, decode_responses=True, encoding_errors='replace')
        order = [repl, strict, lat] if rnd % 2 else [lat, strict, repl]
        for cl in order:
            for key, cmd in (('short', lambda c: c.get('short')), ('u', lambda c: c.get('u')), ('mixed', lambda c: c.lrange('mixed', 0, -1)),
                             ('pipe', lambda c: (lambda p: (p.get('u'), p.lrange('mixed', 0, -1), p.execute())[-1])(c.pipeline()))):
                try:
                    got = ('ok', cmd(cl))
                except UnicodeDecodeError:
                    got = ('UnicodeDecodeError',)
                except Exception as e:      # noqa
                    got = ('exc', repr(e))
                enc = 'latin-1' if cl is lat else 'utf-8'
                err = 'replace' if cl is repl else 'strict'
                vals = {'short': b'caf\xe9', 'u': 'é'.encode('utf-8')}

                def d(b):
                    return b.decode(enc, err)
                try:
                    if key in vals:
                        want = ('ok', d(vals[key]))
                    elif key == 'mixed':
                        want = ('ok', [d(b'text'), d(b'\xff\xfe'), d(b'more')])
                    else:
                        want = ('ok', [d(vals['u']), [d(b'text'), d(b'\xff\xfe'), d(b'more')]])
                except UnicodeDecodeError:
                    want = ('UnicodeDecodeError',)
                res.evaluations += 1
                if got != want:
                    res.add(finding('C17', 'decoding_is_per_client', '%s/%s client, %s: got %r, expected %r' % (enc, err, key, got, want)))
                    return
        # arguments of every buffer type reach the server as the same bytes
        for arg in (memoryview(b'abc\r\ndef'), b'abc\r\ndef', memoryview(b''), memoryview(bytes(range(256)) * 40)):
            try:
                rawc.set('mv', arg); got = rawc.get('mv'); rawc.rpush('mvl', arg, b'x', arg); gl = rawc.lrange('mvl', 0, -1); rawc.delete('mvl')
                ok = rawc.ping()
            except Exception as e:      # noqa
                got, gl, ok = repr(e), None, False
            res.evaluations += 1
            if got != bytes(arg) or gl != [bytes(arg), b'x', bytes(arg)] or ok is not True:
                res.add(finding('C17', 'buffer_arguments', 'SET/RPUSH with a %s argument of %d bytes: read back %r / %r' % (type(arg).__name__, len(bytes(arg)), str(got)[:80], str(gl)[:80])))
                return


def run_C19_cache(res, tier, seed, t_end):
    """the script cache is changed by SCRIPT LOAD / EVAL / SCRIPT FLUSH only: not by the number of scripts, FLUSHALL, FLUSHDB, outages or other servers"""
    real_time()
    for version in (6, 7):
        srv = fakeredis.FakeServer(version=version)
        r = fakeredis.FakeStrictRedis(server=srv)
        first = r.script_load('return 0')
        shas = [r.script_load('return %d + %d' % (i, version)) for i in range(1, 700 if tier == 'quick' else 3000)]
        steps = [('many scripts', lambda: None), ('FLUSHALL', r.flushall), ('FLUSHALL ASYNC', lambda: r.execute_command('FLUSHALL', 'ASYNC')), ('FLUSHDB', r.flushdb),
                 ('MULTI FLUSHALL EXEC', lambda: (lambda p: (p.flushall(), p.execute()))(r.pipeline())), ('SWAPDB', lambda: r.swapdb(0, 1)),
                 ('outage', lambda: (setattr(srv, 'connected', False), setattr(srv, 'connected', True))),
                 ('another server', lambda: fakeredis.FakeStrictRedis(server=fakeredis.FakeServer()).script_flush())]
        for name, act in steps:
            act()
            got = r.script_exists(first, shas[0], shas[-1], 'f' * 40)
            res.evaluations += 1
            res.cells.add(('script-cache', name))
            if got != [True, True, True, False]:
                res.add(finding('C19', 'cache_changed_only_by_script_commands', 'after %s: SCRIPT EXISTS first/early/last/unknown = %r' % (name, got)))
                return
        r.script_flush()
        if r.script_exists(first, shas[-1]) != [False, False]:
            res.add(finding('C19', 'cache_changed_only_by_script_commands', 'SCRIPT FLUSH left scripts behind'))
            return


def _all_bytes(x):
    if isinstance(x, str):
        return False
    if isinstance(x, (list, tuple, set)):
        return all(_all_bytes(y) for y in x)
    if isinstance(x, dict):
        return all(_all_bytes(k) and _all_bytes(v) for k, v in x.items())
    return True


def _loose_eq(a, b):
    try:
        if isinstance(a, (list, tuple)) and isinstance(b, (list, tuple)) and len(a) == len(b):
            return all(_loose_eq(x, y) for x, y in zip(a, b))
        if isinstance(a, str) and isinstance(b, float):
            return float(a) == b
        return a == b
    except Exception:
        return False


# ----------------------------------------------------------------------------- C20
def run_C20(res, tier, seed, t_end):
    """outage: every command raises ConnectionError and changes nothing; close / GC in any mode forgets the client"""
    real_time()
    rng = random.Random(seed + 20)
    for rnd in range(10 if tier == 'quick' else 150):
        srv = fakeredis.FakeServer()
        r = fakeredis.FakeStrictRedis(server=srv)
        r.set('a', '1'); r.rpush('l', 'x'); r.set('t', 'v', ex=1000); r.script_flush()
        sha = r.script_load('return %d' % rnd)
        before = (r.dbsize(), r.get('a'), r.lrange('l', 0, -1), r.ttl('t') > 0, r.script_exists(sha))
        srv.connected = False
        for c in [('GET', 'a'), ('SET', 'a', '2'), ('DEL', 'a'), ('FLUSHALL',), ('RPUSH', 'l', 'y'), ('PING',), ('MULTI',)]:
            res.evaluations += 1
            try:
                r.execute_command(*c)
                res.add(finding('C20', 'outage_no_effect', '%r succeeded while the server is marked disconnected' % (c,)))
                return
            except redis.ConnectionError:
                pass
            except Exception as e:
                res.add(finding('C20', 'outage_no_effect', '%r raised %r instead of ConnectionError' % (c, e)))
                return
        try:
            p = r.pipeline(); p.set('a', '3'); p.execute()
            res.add(finding('C20', 'outage_no_effect', 'pipeline succeeded during outage'))
            return
        except redis.ConnectionError:
            pass
        srv.connected = True
        after = (r.dbsize(), r.get('a'), r.lrange('l', 0, -1), r.ttl('t') > 0, r.script_exists(sha))
        res.cells.add(('outage', rnd % 3))
        if before != after:
            res.add(finding('C20', 'reconnect_restores', 'before %r after %r' % (before, after)))
            return
        # close / GC in every mode
        pub = fakeredis.FakeStrictRedis(server=srv)
        mode = rng.choice(['subscribed', 'psubscribed', 'watching', 'multi', 'plain'])
        how = rng.choice(['close', 'gc', 'pool_disconnect'])
        victim = fakeredis.FakeStrictRedis(server=srv)
        ps = pipe = None
        if mode in ('subscribed', 'psubscribed'):
            ps = victim.pubsub()
            (ps.subscribe if mode == 'subscribed' else ps.psubscribe)('ch' if mode == 'subscribed' else 'c*')
            ps.get_message(timeout=0.1)
            if pub.publish('ch', 'm') != 1:
                res.add(finding('C20', 'closed_socket_forgotten', 'subscriber not counted before close'))
                return
        elif mode in ('watching', 'multi'):
            pipe = victim.pipeline()
            pipe.watch('a')
            if mode == 'multi':
                pipe.multi(); pipe.set('a', 'from-victim')
        if how == 'close':
            if ps is not None:
                ps.close()
            if pipe is not None:
                pipe.reset()
            victim.close()
        elif how == 'pool_disconnect':
            if ps is not None:
                ps.connection_pool.disconnect() if hasattr(ps, 'connection_pool') else ps.close()
                ps.close()
            victim.connection_pool.disconnect()
        else:
            ps = pipe = victim = None
            gc.collect()
        if rnd % 2:
            # the next command after the close happens on ANOTHER server of the same process: it must not take part in the clean-up
            other = fakeredis.FakeStrictRedis(server=fakeredis.FakeServer())
            other.set('x', '1'); other.publish('ch', 'elsewhere')
        n = pub.publish('ch', 'm2')
        pub.set('a', 'changed')
        res.evaluations += 1
        res.cells.add(('forget', mode, how))
        leftover_subs = sum(len(list(ws)) for ws in list(srv.subscribers.values()) + list(srv.psubscribers.values()))
        if n != 0 or leftover_subs != 0:
            res.add(finding('C20', 'closed_socket_forgotten', 'mode %s closed by %s: PUBLISH counts %d, %d sockets still subscribed' % (mode, how, n, leftover_subs)))
            return
        if pub.get('a') != b'changed':
            res.add(finding('C20', 'closed_socket_forgotten', 'queue of the closed client was executed: a=%r' % pub.get('a')))
            return
        watchers = sum(len(list(ws)) for db in srv.dbs.values() for ws in db._watches.values())
        if watchers != 0:
            res.add(finding('C20', 'closed_socket_forgotten', 'mode %s closed by %s: %d watcher(s) left' % (mode, how, watchers)))
            return


def run_C20_asyncio(res, tier, seed, t_end):
    """asyncio clients: a closed connection is forgotten at once (not only after GC), also when it was parked in a blocking pop"""
    real_time()

    async def scenario(mode):
        srv = fakeredis.FakeServer()
        a = far.FakeRedis(server=srv)
        b = far.FakeRedis(server=srv)
        if mode in ('subscribed', 'psubscribed'):
            ps = a.pubsub()
            await (ps.subscribe('ch') if mode == 'subscribed' else ps.psubscribe('c*'))
            await ps.get_message(timeout=0.1)
            n0 = await b.publish('ch', 'x')
            await ps.close()
            await a.close()
            await a.connection_pool.disconnect()
            n1 = await b.publish('ch', 'x')
            left = sum(len(list(ws)) for ws in list(srv.subscribers.values()) + list(srv.psubscribers.values()))
            return None if (n0 == 1 and n1 == 0 and left == 0) else 'asyncio %s client closed: PUBLISH counted %d before, %d after close, %d sockets still registered' % (mode, n0, n1, left)
        if mode == 'parked':
            t = asyncio.ensure_future(a.blpop('q', 0))
            await asyncio.sleep(0.02)
            t.cancel()
            try:
                await t
            except asyncio.CancelledError:
                pass
            await a.close()
            await a.connection_pool.disconnect()
            await b.rpush('q', 'elem')
            await asyncio.sleep(0.02)
            got = await b.lrange('q', 0, -1)
            cbs = sum(len(db._change_callbacks) for db in srv.dbs.values())
            leftovers.append(srv)
            if cbs:
                return '%d change callback(s) of the closed parked connection are still registered' % cbs
            return None if got == [b'elem'] else 'element pushed after the parked asyncio client was closed is gone: %r' % (got,)
        if mode == 'parked-same-turn':
            # the blocking pop is sent and the connection closed in one turn of the loop: the task is cancelled before its first step
            conn = await a.connection_pool.get_connection('_')
            await conn.send_command('BLPOP', 'q', 0)
            await conn.disconnect()
            await asyncio.sleep(0.02)
            cbs = sum(len(db._change_callbacks) for db in srv.dbs.values())
            leftovers.append(srv)
            if cbs:
                return '%d change callback(s) of a connection closed in the turn it parked are still registered' % cbs
            await b.rpush('q', 'elem')
            got = await b.lrange('q', 0, -1)
            return None if got == [b'elem'] else 'element pushed after the parked asyncio client was closed is gone: %r' % (got,)
        if mode == 'watching':
            async with a.pipeline() as p:
                await p.watch('k')
            await a.close()
            await a.connection_pool.disconnect()
            await b.set('k', '1')
            w = sum(len(list(ws)) for db in srv.dbs.values() for ws in db._watches.values())
            return None if w == 0 else '%d watcher(s) left after the asyncio client was closed' % w
    errors = []
    leftovers = []

    def handler(loop, ctx):
        errors.append(repr(ctx.get('exception') or ctx.get('message')))
    for rnd in range(2 if tier == 'quick' else 20):
        for mode in ('subscribed', 'psubscribed', 'parked', 'parked-same-turn', 'watching'):
            loop = asyncio.new_event_loop()
            loop.set_exception_handler(handler)
            try:
                msg = loop.run_until_complete(scenario(mode))
            finally:
                loop.close()
            res.evaluations += 1
            res.cells.add(('aio-forget', mode))
            if mode in ('parked', 'parked-same-turn') and not msg and leftovers:
                # the loop of the closed client is gone: a later write by anybody must not trip over it
                try:
                    fakeredis.FakeStrictRedis(server=leftovers[-1]).rpush('q', 'later')
                except Exception as e:
                    msg = 'a write after the parked asyncio client and its loop were closed raised %r' % (e,)
            if msg or errors:
                res.add(finding('C20', 'closed_socket_forgotten(asyncio)', msg or ('task exception: %s' % errors[:2])))
                return


# ----------------------------------------------------------------------------- C14 (client level)
def run_cross_thread(res, prop):
    """an asyncio client waits in a blocking pop on an otherwise idle loop (own thread); a SYNC client of the same server pushes from another thread:
    the waiting client is served at once, not when its loop happens to wake up"""
    import threading
    real_time()
    for blk in ('blpop', 'brpoplpush'):
        srv = fakeredis.FakeServer()
        box = {}

        def consumer():
            lp = asyncio.new_event_loop()
            try:
                async def go():
                    r = far.FakeRedis(server=srv)
                    t0 = time.time()
                    box['got'] = await (r.blpop('xq', 4) if blk == 'blpop' else r.brpoplpush('xq', 'xd', 4))
                    box['dt'] = time.time() - t0
                lp.run_until_complete(go())
            except Exception as e:      # noqa
                box['got'] = repr(e)
            finally:
                lp.close()
        th = threading.Thread(target=consumer, daemon=True)
        th.start()
        time.sleep(0.3)
        fakeredis.FakeStrictRedis(server=srv).rpush('xq', 'x')
        th.join(10)
        got, dt = box.get('got'), box.get('dt', 99.0)
        res.evaluations += 1
        res.cells.add(('cross-thread', blk))
        want = (b'xq', b'x') if blk == 'blpop' else b'x'
        if got != want or dt > 3.0:
            res.add(finding(prop, 'served_as_soon_as_pushed(sync producer thread)', 'asyncio %s xq 4 with a push from a sync client on another thread after 0.3 s returned %r after %.2f s' % (blk.upper(), got, dt)))
            return


def sorted_page(page):
    """(cursor, members) of a set scan with the members in a canonical order"""
    try:
        return (page[0], sorted(page[1], key=repr))
    except Exception:      # noqa
        return page


def run_C14(res, tier, seed, t_end):
    """the same operations through FakeStrictRedis and through fakeredis.aioredis.FakeRedis give the same results,
    including the connection-error emulation with replies already queued"""
    real_time()
    rng = random.Random(seed + 14)

    def ops_sync(srv, **kw):
        out = []
        r = fakeredis.FakeStrictRedis(server=srv, **kw)

        def do(f):
            try:
                out.append(('ok', plain(f())))
            except Exception as e:
                out.append(('exc', type(e).__name__))
        do(lambda: r.set('k', 'v')); do(lambda: r.get('k')); do(lambda: r.rpush('l', 'a', 'b')); do(lambda: r.lrange('l', 0, -1))
        do(lambda: r.execute_command('GET', 'l')); do(lambda: r.blpop('l', 1)); do(lambda: r.blpop('nolist', 1))
        # commands whose replies the client treats specially (no decoding, pairs, floats, cursors)
        do(lambda: r.dump('k')); do(lambda: r.restore('k2', 0, r.dump('k'))); do(lambda: r.get('k2')); do(lambda: r.dump('missing'))
        do(lambda: r.hset('h', 'f', 'v')); do(lambda: r.hgetall('h')); do(lambda: r.zadd('z', {'m': 1.5})); do(lambda: r.zrange('z', 0, -1, withscores=True))
        do(lambda: r.scan(0)); do(lambda: r.sscan('nokey', 0)); do(lambda: r.type('z')); do(lambda: r.ttl('k')); do(lambda: r.incrbyfloat('fl', 1.5))
        do(lambda: r.execute_command('BLPOP', 'nolist2', '1000000000000') if False else None)
        p = r.pipeline(); p.set('a', '1'); p.incr('a'); p.lpush('a', 'x'); p.get('a')
        do(lambda: p.execute(raise_on_error=False) and [str(type(x).__name__) if isinstance(x, Exception) else x for x in p.execute(raise_on_error=False)] if False else None)
        p2 = r.pipeline(transaction=True); p2.set('t', '1'); p2.get('t'); do(lambda: p2.execute())
        # replies with arrays inside arrays (cursor pages, EXEC holding lists, blocking-pop pairs): every level is decoded alike
        do(lambda: r.sadd('s', 'm1', 'm2')); do(lambda: sorted_page(r.sscan('s', 0))); do(lambda: r.hscan('h', 0)); do(lambda: r.zscan('z', 0))
        do(lambda: r.execute_command('SCAN', '0', 'MATCH', 'k*')); do(lambda: r.execute_command('HSCAN', 'h', '0'))
        p3 = r.pipeline(transaction=True); p3.rpush('l2', 'x', 'y'); p3.lrange('l2', 0, -1); p3.hgetall('h'); p3.execute_command('SCAN', '0', 'MATCH', 'l2'); do(lambda: p3.execute())
        do(lambda: r.brpop(['l2'], 1)); do(lambda: r.brpoplpush('l2', 'l3', 1)); do(lambda: r.execute_command('BLPOP', 'l3', '1'))
        ps = r.pubsub(); ps.subscribe('ch'); do(lambda: ps.get_message(timeout=0.2))
        do(lambda: ps.get_message(timeout=0.03))         # nothing pending: the poll loop runs into its time-out
        r.publish('ch', 'queued-before-outage')
        srv.connected = False
        do(lambda: ps.get_message(timeout=0.2))          # the reply queued before the outage is still handed out
        do(lambda: ps.get_message(timeout=0.2))          # ... then the connection error shows
        do(lambda: r.get('k'))
        srv.connected = True
        do(lambda: r.get('k'))
        return out

    async def ops_async(srv, **kw):
        out = []
        r = far.FakeRedis(server=srv, **kw)

        async def do(f):
            try:
                out.append(('ok', plain(await f())))
            except Exception as e:
                out.append(('exc', type(e).__name__))
        await do(lambda: r.set('k', 'v')); await do(lambda: r.get('k')); await do(lambda: r.rpush('l', 'a', 'b')); await do(lambda: r.lrange('l', 0, -1))
        await do(lambda: r.execute_command('GET', 'l')); await do(lambda: r.blpop('l', 1)); await do(lambda: r.blpop('nolist', 1))

        async def restore_dump():
            return await r.restore('k2', 0, await r.dump('k'))
        await do(lambda: r.dump('k')); await do(restore_dump); await do(lambda: r.get('k2')); await do(lambda: r.dump('missing'))
        await do(lambda: r.hset('h', 'f', 'v')); await do(lambda: r.hgetall('h')); await do(lambda: r.zadd('z', {'m': 1.5})); await do(lambda: r.zrange('z', 0, -1, withscores=True))
        await do(lambda: r.scan(0)); await do(lambda: r.sscan('nokey', 0)); await do(lambda: r.type('z')); await do(lambda: r.ttl('k')); await do(lambda: r.incrbyfloat('fl', 1.5))
        out.append(('ok', None))
        out.append(('ok', None))
        p2 = r.pipeline(transaction=True); p2.set('t', '1'); p2.get('t'); await do(lambda: p2.execute())

        async def sscan_sorted():
            return sorted_page(await r.sscan('s', 0))
        await do(lambda: r.sadd('s', 'm1', 'm2')); await do(sscan_sorted); await do(lambda: r.hscan('h', 0)); await do(lambda: r.zscan('z', 0))
        await do(lambda: r.execute_command('SCAN', '0', 'MATCH', 'k*')); await do(lambda: r.execute_command('HSCAN', 'h', '0'))
        p3 = r.pipeline(transaction=True); p3.rpush('l2', 'x', 'y'); p3.lrange('l2', 0, -1); p3.hgetall('h'); p3.execute_command('SCAN', '0', 'MATCH', 'l2'); await do(lambda: p3.execute())
        await do(lambda: r.brpop(['l2'], 1)); await do(lambda: r.brpoplpush('l2', 'l3', 1)); await do(lambda: r.execute_command('BLPOP', 'l3', '1'))
        ps = r.pubsub(); await ps.subscribe('ch'); await do(lambda: ps.get_message(timeout=0.2))
        await do(lambda: ps.get_message(timeout=0.03))
        await r.publish('ch', 'queued-before-outage')
        srv.connected = False
        await do(lambda: ps.get_message(timeout=0.2))
        await do(lambda: ps.get_message(timeout=0.2))
        await do(lambda: r.get('k'))
        srv.connected = True
        await do(lambda: r.get('k'))
        return out
    async def burst(srv):
        # several messages reach a subscriber that is already waiting, within one turn of the event loop: they keep their order
        r, r2 = far.FakeRedis(server=srv), far.FakeRedis(server=srv)
        ps = r.pubsub(); await ps.subscribe('ch'); await ps.get_message(timeout=0.2)

        async def pub():
            await asyncio.sleep(0.05)
            p = r2.pipeline(transaction=True); p.publish('ch', 'm1'); p.publish('ch', 'm2'); p.publish('ch', 'm3'); await p.execute()
            await r2.publish('ch', 'm4'); await r2.publish('ch', 'm5')
        t = asyncio.ensure_future(pub())
        got = []
        for _ in range(5):
            m = await ps.get_message(ignore_subscribe_messages=True, timeout=1.0)
            got.append(m and m['data'])
        await t
        return got
    def burst_sync(srv):
        # the same with threads: a subscriber polling with a time-out is handed the messages published meanwhile, in order
        import threading
        r, r2 = fakeredis.FakeStrictRedis(server=srv), fakeredis.FakeStrictRedis(server=srv)
        ps = r.pubsub(); ps.subscribe('ch'); ps.get_message(timeout=0.2)

        def pub():
            time.sleep(0.05)
            p = r2.pipeline(transaction=True); p.publish('ch', 'm1'); p.publish('ch', 'm2'); p.publish('ch', 'm3'); p.execute()
            r2.publish('ch', 'm4'); r2.publish('ch', 'm5')
        t = threading.Thread(target=pub, daemon=True); t.start()
        got = []
        for _ in range(5):
            m = ps.get_message(ignore_subscribe_messages=True, timeout=2.0)
            got.append(m and m['data'])
        t.join(5)
        t0 = time.time(); none = ps.get_message(timeout=0.05); waited = time.time() - t0
        return got, none, waited
    res.evaluations += 1
    try:
        got_s, none_s, waited_s = burst_sync(fakeredis.FakeServer())
    except Exception as e:      # noqa
        got_s, none_s, waited_s = repr(e), None, 1.0
    if got_s != [b'm1', b'm2', b'm3', b'm4', b'm5'] or none_s is not None or waited_s < 0.05:
        res.add(finding('C14', 'sync_messages_in_order', 'a polling sync subscriber received %r, then %r after %.3fs of a 0.05s time-out' % (got_s, none_s, waited_s)))
        return
    run_cross_thread(res, 'C14')
    if res.findings:
        return
    loop = asyncio.new_event_loop()
    try:
        got = loop.run_until_complete(asyncio.wait_for(burst(fakeredis.FakeServer()), 20))
    except Exception as e:      # noqa
        got = repr(e)
    finally:
        loop.close()
    res.evaluations += 1
    if got != [b'm1', b'm2', b'm3', b'm4', b'm5']:
        res.add(finding('C14', 'async_messages_in_order', 'a waiting asyncio subscriber received %r' % (got,)))
        return
    configs = [{}, {'decode_responses': True}, {'decode_responses': True, 'encoding': 'latin-1'}]
    for rnd in range(1 if tier == 'quick' else 3):
      for kw in configs:
        a = ops_sync(fakeredis.FakeServer(), **kw)
        loop = asyncio.new_event_loop()
        try:
            b = loop.run_until_complete(ops_async(fakeredis.FakeServer(), **kw))
        finally:
            loop.close()
        res.evaluations += len(a)
        res.cells.add(('client-diff', rnd, tuple(sorted(kw))))
        if a != b:
            i = next((j for j in range(min(len(a), len(b))) if a[j] != b[j]), min(len(a), len(b)))
            res.add(finding('C14', 'async_client_eq_sync_client', 'client options %r, step %d: sync client %r, asyncio client %r' % (kw, i, a[i:i + 1], b[i:i + 1])))
            return


def run_C20_lockfree_close(res, tier, seed, t_end):
    """close() may be called by the garbage collector at any time, also while the server lock is held: it must not take the lock"""
    import threading
    from fakeredis._fakesocket import FakeSocket
    for mode in ('plain', 'subscribed', 'watching'):
        srv = fakeredis.FakeServer()
        s = FakeSocket(srv)
        if mode == 'subscribed':
            s.sendall(b'*2\r\n$9\r\nsubscribe\r\n$2\r\nch\r\n')
        if mode == 'watching':
            s.sendall(b'*2\r\n$5\r\nwatch\r\n$1\r\nk\r\n')
        done = []
        with srv.lock:
            t = threading.Thread(target=lambda: (s.close(), done.append(1)), daemon=True)
            t.start()
            t.join(1.0)
            blocked = t.is_alive()
        t.join(1.0)
        res.evaluations += 1
        res.cells.add(('lockfree-close', mode))
        if blocked:
            res.add(finding('C20', 'close_is_lock_free', 'FakeSocket.close() of a %s connection blocks while the server lock is held (a GC finaliser inside a command would deadlock)' % mode))
            return


def run_reaper_race(res, prop, tier, seed, t_end):
    """close() is lock-free, so it can land at ANY point of the clean-up of closed sockets that every command runs first (another thread, or a
    finaliser run by the garbage collector inside that very loop).  The interleaving is produced deterministically: the list of closed sockets is
    replaced by one that closes a second subscriber at its k-th access.  Whatever k, both closed subscribers must be forgotten after at most one
    more command."""
    from fakeredis._fakesocket import FakeSocket

    class RacyList(list):
        def __init__(self, items, hook):
            list.__init__(self, items)
            self.hook, self.n = hook, 0

        def _tick(self):
            self.n += 1
            self.hook(self.n)

        def pop(self, *a):
            self._tick()
            try:
                return list.pop(self, *a)
            finally:
                self._tick()

        def __iter__(self):
            self._tick()
            for x in list(list.__iter__(self)):
                yield x
                self._tick()
            self._tick()

        def clear(self):
            self._tick()
            list.clear(self)
            self._tick()

        def __len__(self):
            self._tick()
            return list.__len__(self)

        def __bool__(self):
            self._tick()
            return list.__len__(self) > 0

        def copy(self):
            self._tick()
            return list(list.__iter__(self))

        def __getitem__(self, i):
            self._tick()
            return list.__getitem__(self, i)

    sub = b'*2\r\n$9\r\nsubscribe\r\n$2\r\nch\r\n'
    ping = b'*1\r\n$4\r\nping\r\n'
    pub = b'*3\r\n$7\r\npublish\r\n$2\r\nch\r\n$1\r\nm\r\n'
    for role in ('subscribed', 'watching'):
        for k in range(1, 13):
            srv = fakeredis.FakeServer()
            a, b, p, w = FakeSocket(srv), FakeSocket(srv), FakeSocket(srv), FakeSocket(srv)
            if role == 'subscribed':
                a.sendall(sub); b.sendall(sub)
            else:
                for s in (a, b):
                    s.sendall(b'*2\r\n$5\r\nwatch\r\n$1\r\nk\r\n')
            a.close()
            fired = []

            def hook(n, k=k, b=b, fired=fired):
                if n == k and not fired and b._server is not None:
                    fired.append(n)
                    b.close()
            srv.closed_sockets = RacyList(srv.closed_sockets, hook)
            try:
                p.sendall(ping)
                if not fired and b._server is not None:
                    fired.append(0)
                    b.close()
                p.sendall(ping)
                p.sendall(pub)
                out = []
                while not p.responses.empty():
                    out.append(p.responses.get_nowait())
                left = sum(len(list(ws)) for ws in list(srv.subscribers.values()) + list(srv.psubscribers.values()))
                left += sum(len(list(ws)) for db in srv.dbs.values() for ws in db._watches.values())
                ok = out and out[-1] == 0 and left == 0
                detail = 'PUBLISH counted %r, %d socket(s) still registered' % (out[-1:] or None, left)
            except Exception as e:      # noqa
                ok, detail = False, 'exception %r' % (e,)
            res.evaluations += 1
            res.cells.add(('reaper-race', role, bool(fired)))
            if not ok:
                res.add(finding(prop, 'closed_socket_forgotten(close lands inside the clean-up)',
                                '%s connection closed at access %d of the closed-sockets list during the clean-up of another: %s' % (role, k, detail)))
                return
