"""Canonical form of replies, identical for both sides."""
from impl import RawError, payload_to_model

UNKNOWN = "ERR unknown command '"

# replies whose element order is Python set iteration order
SET_ORDERED = {'smembers', 'sdiff', 'sinter', 'sunion'}


def from_impl(r):
    """python reply object from the implementation -> common structure"""
    if r is None:
        return None
    if isinstance(r, bool):
        return int(r)
    if isinstance(r, int):
        return r
    if isinstance(r, bytes):
        return ('b', r)
    if isinstance(r, RawError):
        v = r.value
        if UNKNOWN in v:
            v = v[:v.index(UNKNOWN) + len(UNKNOWN)]
        return ('e', v)
    if isinstance(r, list):
        return [from_impl(x) for x in r]
    return ('?', repr(r))


def name_of(fields):
    try:
        return fields[0].decode('ascii').lower()
    except Exception:
        return ''


def canon(name, r, queue=None, is_impl=False):
    """order-insensitive replies are sorted; DUMP payloads are translated; EXEC recurses"""
    if name in SET_ORDERED and isinstance(r, list):
        return sorted(r, key=repr)
    if name == 'dump' and is_impl and isinstance(r, tuple) and r[0] == 'b':
        return ('b', payload_to_model(r[1]))
    if name == 'exec' and isinstance(r, list) and queue is not None and len(queue) == len(r):
        return [canon(q, x, None, is_impl) for q, x in zip(queue, r)]
    return r


def show(r):
    if r is None:
        return 'nil'
    if isinstance(r, int):
        return str(r)
    if isinstance(r, tuple):
        if r[0] == 'b':
            return 'b' + repr(r[1])[1:]
        return r[0] + ':' + repr(r[1])
    if isinstance(r, list):
        return '[' + ', '.join(show(x) for x in r) + ']'
    return repr(r)
