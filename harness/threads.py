"""C12: real threads on an instrumented FakeServer.  The trace of lock operations, shared-object accesses and
command call/return events is checked by the Lean lockset checker (`wellLocked`), and the commands are then
replayed in the proven linearization order (last critical section) through the sequential Lean model: every
reply seen by every thread must be explained by that one sequential order."""
import random, sys, threading, time
import impl as I
import corr, gen, canon as Cn
import model as Mo
from fakeredis import _fakesocket as FS
import fakeredis


class Tracer:
    def __init__(self):
        self.ev = []
        self.obj_ids = {}

    def tid(self):
        # a thread the harness did not start (one spawned by the implementation itself) gets an id of its own: whatever it does under the
        # lock happens outside every client command, which the lockset discipline rejects (`acq-outside-command`)
        th = threading.current_thread()
        t = getattr(th, 'tnum', None)
        if t is None:
            self.foreign = getattr(self, 'foreign', 0) + 1
            t = th.tnum = 900 + self.foreign
        return t

    def oid(self, o):
        return self.obj_ids.setdefault(id(o), len(self.obj_ids))


class TracedLock:
    def __init__(self, tr):
        self._l = threading.Lock()
        self.tr = tr

    def acquire(self, blocking=True, timeout=-1):
        ok = self._l.acquire(blocking, timeout)
        if ok:
            self.tr.ev.append('acq:%d' % self.tr.tid())
        return ok

    def release(self):
        self.tr.ev.append('rel:%d' % self.tr.tid())
        self._l.release()

    def __enter__(self):
        self.acquire()
        return self

    def __exit__(self, *a):
        self.release()

    def locked(self):
        return self._l.locked()


def audit_dict(tr, base=dict):
    class AuditDict(base):
        def _a(self, w):
            tr.ev.append('acc:%d:%d:%s' % (tr.tid(), tr.oid(self), 'w' if w else 'r'))

        def __getitem__(self, k):
            self._a(False); return base.__getitem__(self, k)

        def __setitem__(self, k, v):
            self._a(True); return base.__setitem__(self, k, v)

        def __delitem__(self, k):
            self._a(True); return base.__delitem__(self, k)

        def __contains__(self, k):
            self._a(False); return base.__contains__(self, k)

        def __iter__(self):
            self._a(False); return base.__iter__(self)

        def __len__(self):
            self._a(False); return base.__len__(self)

        def get(self, k, d=None):
            self._a(False); return base.get(self, k, d)

        def pop(self, *a):
            self._a(True); return base.pop(self, *a)

        def clear(self):
            self._a(True); return base.clear(self)

        def items(self):
            self._a(False); return base.items(self)

        def keys(self):
            self._a(False); return base.keys(self)

        def values(self):
            self._a(False); return base.values(self)

        def setdefault(self, k, d=None):
            self._a(True); return base.setdefault(self, k, d)
    return AuditDict


class TClock:
    """thread-safe logical clock; readings are logged per thread.  Reading the clock counts as an access to a shared object: the value read becomes the
    server's time, so the reading belongs inside the critical section of the command (a reading taken before the lock is obtained can be older than the time
    another command has already installed)"""
    def __init__(self, tr=None):
        self.n = 0
        self.m = threading.Lock()
        self.logs = {}
        self.tr = tr

    def time(self):
        with self.m:
            self.n += 1
            r = I.BASE + 2 * self.n
        if self.tr is not None and hasattr(threading.current_thread(), 'tnum'):
            self.tr.ev.append('acc:%d:%d:r' % (self.tr.tid(), self.tr.oid(self)))
        self.logs.setdefault(threading.current_thread().tnum, []).append(r)
        return r / 1e7


def make_server(tr, version):
    clock = TClock(tr)
    FS.time = clock
    import random as _r
    FS.random = _r
    srv = fakeredis.FakeServer(version=version)
    srv.lastsave = 0
    srv.lock = TracedLock(tr)
    AD = audit_dict(tr)
    from collections import defaultdict
    orig = srv.dbs.default_factory

    class AuditDbs(defaultdict):
        def __missing__(self, k):
            # creating a database is a write to the database table
            tr.ev.append('acc:%d:%d:w' % (tr.tid(), tr.oid(self)))
            return defaultdict.__missing__(self, k)

    import weakref as _weakref

    def audit_watches(db):
        # the watcher registry of a database is shared by all connections
        w = audit_dict(tr, defaultdict)(_weakref.WeakSet)
        for k, v in db._watches.items():
            defaultdict.__setitem__(w, k, v)
        db._watches = w

    def new_db():
        db = orig()
        db._dict = AD(db._dict)
        audit_watches(db)
        db.condition = threading.Condition(srv.lock)
        return db
    dbs = AuditDbs(new_db)
    for k, db in srv.dbs.items():
        db._dict = AD(db._dict)
        audit_watches(db)
        db.condition = threading.Condition(srv.lock)
        defaultdict.__setitem__(dbs, k, db)
    srv.dbs = dbs
    ADD = audit_dict(tr, defaultdict)
    subs = ADD(srv.subscribers.default_factory)
    psubs = ADD(srv.psubscribers.default_factory)
    srv.subscribers, srv.psubscribers = subs, psubs
    srv.script_cache = AD()
    return srv, clock


class TSock(FS.FakeSocket):
    def _decode_error(self, error):
        return I.RawError(error.value)


def programs(rng, nthreads, ncmds):
    g = gen.Gen(rng, alias=0.4)
    names = ['set', 'get', 'incr', 'append', 'del', 'exists', 'lpush', 'rpush', 'lpop', 'rpop', 'llen', 'lrange', 'sadd', 'srem', 'scard',
             'hset', 'hget', 'hincrby', 'zadd', 'zincrby', 'zscore', 'rename', 'expire', 'ttl', 'mset', 'mget', 'dbsize', 'setnx', 'getset',
             'rpoplpush', 'smove', 'incrby', 'strlen', 'type', 'select', 'move', 'swapdb', 'publish', 'flushdb', 'keys']
    progs = []
    for t in range(nthreads):
        p = []
        i = 0
        while i < ncmds:
            if rng.random() < 0.12:
                block = [[b'multi']] + [g.command(rng.choice(names[:28])) for _ in range(rng.randint(1, 3))] + [[b'exec']]
                p.extend(block)
                i += len(block)
            elif rng.random() < 0.07:
                p.append([b'watch', rng.choice(gen.POOLS['Kk'])])
                i += 1
                if rng.random() < 0.5:
                    # every way of ending a watch: EXEC, DISCARD, UNWATCH, and the EXEC / DISCARD forms that are refused for their arity
                    p.extend(rng.choice([[[b'multi'], [b'exec', b'extra']], [[b'multi'], [b'discard']], [[b'unwatch']], [[b'multi'], [b'exec']],
                                         [[b'multi'], [b'discard', b'extra'], [b'discard']], [[b'exec', b'extra']]]))
                    i += 2
            elif rng.random() < 0.08:
                # a short-lived second connection that subscribes and is closed: its deferred clean-up runs in someone's next command
                p.append(('side', [[rng.choice([b'subscribe', b'psubscribe']), rng.choice([b'ch1', b'c*'])]]))
                p.append([b'publish', b'ch1', b'm'])
                i += 2
            else:
                p.append(g.command(rng.choice(names)))
                i += 1
        progs.append(p)
    return progs


def run_trial(seed, nthreads, ncmds, version=7, switch=1e-6):
    rng = random.Random(seed)
    tr = Tracer()
    old = sys.getswitchinterval()
    sys.setswitchinterval(switch)
    srv, clock = make_server(tr, version)
    progs = programs(rng, nthreads, ncmds)
    cmds = {}
    barrier = threading.Barrier(nthreads)
    errors = []

    def worker(t):
        try:
            barrier.wait()
            sock = TSock(srv)                      # concurrent first connections
            for j, f in enumerate(progs[t]):
                if isinstance(f, tuple) and f[0] == 'side':
                    side = TSock(srv)
                    for sf in f[1]:
                        cid = (t + 1) * 10000 + 5000 + j
                        tr.ev.append('call:%d:%d' % (t + 1, cid))
                        side.sendall(corr.encode_request(sf))
                        tr.ev.append('ret:%d:%d' % (t + 1, cid))
                    side.close()
                    continue
                cid = (t + 1) * 10000 + j
                clock.logs[t + 1] = []
                tr.ev.append('call:%d:%d' % (t + 1, cid))
                crash = None
                try:
                    sock.sendall(corr.encode_request(f))
                except BaseException as e:   # noqa
                    crash = type(e).__name__
                tr.ev.append('ret:%d:%d' % (t + 1, cid))
                out = []
                q = sock.responses
                while not q.empty():
                    out.append(q.get_nowait())
                cmds[cid] = (t + 1, f, out, crash, list(clock.logs.get(t + 1, [])))
        except BaseException as e:   # noqa
            errors.append(repr(e))
    ths = []
    for t in range(nthreads):
        th = threading.Thread(target=worker, args=(t,))
        th.tnum = t + 1
        ths.append(th)
    threading.current_thread().tnum = 0
    [th.start() for th in ths]
    [th.join(timeout=60) for th in ths]
    stuck = [th.tnum for th in ths if th.is_alive()]
    if stuck:
        errors.append('threads %r did not finish within 60 s (dead-lock: the server lock is held or waited for for ever)' % stuck)
    # threads started by the implementation itself finish their work before the trace is judged
    for th in threading.enumerate():
        if getattr(th, 'tnum', 0) >= 900:
            th.join(timeout=5)
    sys.setswitchinterval(old)
    return tr.ev, cmds, errors, srv


def validate(ev, cmds, version, nthreads):
    """-> None or a finding dict"""
    m = corr.get_model(version)
    line = m.ask('lockcheck ' + ' '.join(ev))
    if not line.startswith('L ok'):
        idx = int(line.split()[2]) if len(line.split()) > 2 and line.split()[2].isdigit() else -1
        return {'kind': 'lockset', 'verdict': 'violation', 'property': 'C12', 'clause': 'well_locked', 'detail': line,
                'around': ev[max(0, idx - 6):idx + 3], 'trace_len': len(ev)}
    order = [int(x) for x in line.split('|')[1].split()] if '|' in line else []
    # commands that never entered the lock (unknown command names) have no linearization point: reply is state-independent
    for t in range(1, nthreads + 1):
        m.open(t)
    side_used = any(cid % 10000 >= 5000 for cid in order)
    for cid in order:
        if cid not in cmds:
            continue       # a side connection's (p)subscribe: not part of the sequential replay
        t, f, out, crash, clocks = cmds[cid]
        if side_used and Cn.name_of(f) == 'publish':
            # the number of receivers depends on side subscriptions that the replay does not model: feed the command, skip the reply
            m.cmd(t, f, clocks, [])
            continue
        name = Cn.name_of(f)
        got = m.cmd(t, f, clocks, [])
        om, crash_m, fault = Mo.parse_out(got)
        ci = [Cn.canon(name, Cn.from_impl(r), None, True) for r in out]
        cm = [Cn.canon(name, r, None, False) for r in om.get(t, [])]
        # EXEC replies: inner set-ordered replies are not generated in these programs
        if fault or crash != crash_m or ci != cm:
            return {'kind': 'linearization', 'verdict': 'violation', 'property': 'C12', 'clause': 'replies_explained_by_section_order',
                    'detail': 'command %d %r: threads saw %r, the sequential model in section order gives %r (fault=%s)' % (
                        cid, f, [Cn.show(x) for x in ci], [Cn.show(x) for x in cm], fault)}
    return None
