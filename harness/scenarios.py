"""Small-scope enumerations for MULTI/EXEC/WATCH (C05, C06): the product of
   {what the watched key holds} x {where the interferer is} x {what it does} x {what the watcher queued} x {how it ends}."""
import itertools, random
import corr, campaigns as Cp, canon as Cn

K, K2 = b'k0', b'k9'

HOLDS = {
    'missing': [],
    'string': [[b'set', K, b'orig']],
    'list': [[b'rpush', K, b'a', b'b']],
    'set': [[b'sadd', K, b'a', b'b']],
    'hash': [[b'hset', K, b'f', b'v']],
    'zset': [[b'zadd', K, b'1', b'a']],
    'string+ttl': [[b'set', K, b'orig', b'ex', b'1000']],
}

# (name, commands of the interferer, on the watcher's database unless stated)
ACTIONS = [
    ('none', []), ('get', [[b'get', K]]), ('set', [[b'set', K, b'new']]), ('set-same', [[b'set', K, b'orig']]),
    ('append', [[b'append', K, b'x']]), ('del', [[b'del', K]]), ('del-missing', [[b'del', b'nokey']]),
    ('expire', [[b'expire', K, b'100']]), ('persist', [[b'persist', K]]), ('rename-away', [[b'rename', K, K2]]),
    ('rename-onto', [[b'set', K2, b'z'], [b'rename', K2, K]]), ('change-and-back', [[b'set', K, b'tmp'], [b'set', K, b'orig']]),
    ('incr', [[b'incr', K]]), ('lpush', [[b'lpush', K, b'x']]), ('lpop', [[b'lpop', K]]), ('sadd-existing', [[b'sadd', K, b'a']]),
    ('sadd-new', [[b'sadd', K, b'zz']]), ('srem-missing', [[b'srem', K, b'nope']]), ('hset', [[b'hset', K, b'f', b'v2']]),
    ('hdel-missing', [[b'hdel', K, b'nofield']]), ('zadd-same', [[b'zadd', K, b'1', b'a']]), ('zadd-new', [[b'zadd', K, b'2', b'a']]),
    ('zrem', [[b'zrem', K, b'a']]), ('sunionstore', [[b'sadd', b't9', b'q'], [b'sunionstore', K, b't9']]),
    ('sort-store', [[b'rpush', b'l9', b'3', b'1'], [b'sort', b'l9', b'store', K]]), ('flushdb', [[b'flushdb']]), ('flushall', [[b'flushall']]),
    ('multi-set', [[b'multi'], [b'set', K, b'new'], [b'exec']]), ('multi-discard', [[b'multi'], [b'set', K, b'new'], [b'discard']]),
    ('move-out', [[b'move', K, b'OTHER']]), ('setrange-empty', [[b'setrange', K, b'0', b'']]), ('lset-oob', [[b'lset', K, b'99', b'x']]),
    ('lmove-bad', [[b'lmove', K, K2, b'left', b'sideways']]), ('restore-replace', [[b'set', b'src', b'p'], [b'dump', b'src']]),
    ('rpoplpush-self', [[b'rpoplpush', K, K]]), ('smove-self', [[b'smove', K, K, b'a']]), ('getset', [[b'getset', K, b'orig']]),
    ('setnx-existing', [[b'setnx', K, b'zzz']]), ('expire-missing', [[b'expire', b'nokey', b'10']]), ('pexpire-now', [[b'pexpire', K, b'0']]),
    ('sort-store-empty', [[b'sort', b'nolist', b'store', K]]), ('sort-store-limit00', [[b'rpush', b'l9', b'3', b'1'], [b'sort', b'l9', b'limit', b'0', b'0', b'store', K]]),
    ('sinterstore-empty', [[b'sadd', b't9', b'q'], [b'sinterstore', K, b't9', b'nokey']]), ('sdiffstore-empty', [[b'sdiffstore', K, b'nokey']]),
    ('zinterstore-empty', [[b'zadd', b'z9', b'1', b'm'], [b'zinterstore', K, b'2', b'z9', b'nokey']]), ('zunionstore-empty', [[b'zunionstore', K, b'1', b'nokey']]),
    ('pfmerge', [[b'pfadd', b'h9', b'x'], [b'pfmerge', K, b'h9']]), ('lmove-onto', [[b'rpush', b'l8', b'e'], [b'lmove', b'l8', K, b'left', b'right']]),
    ('smove-onto', [[b'sadd', b't9', b'q'], [b'smove', b't9', K, b'q']]), ('ltrim-empty', [[b'ltrim', K, b'5', b'9']]), ('spop', [[b'spop', K]]),
    ('zremrangebyrank', [[b'zremrangebyrank', K, b'0', b'-1']]), ('msetnx-refused', [[b'set', b'o9', b'1'], [b'msetnx', K, b'x', b'o9', b'y']]),
    ('hincrby', [[b'hincrby', K, b'n', b'1']]), ('setbit', [[b'setbit', K, b'1', b'1']]), ('getrange', [[b'getrange', K, b'0', b'-1']]),
    ('zunionstore', [[b'zadd', b'z9', b'1', b'm'], [b'zunionstore', K, b'1', b'z9']]), ('brpoplpush', [[b'rpush', b'l8', b'e'], [b'brpoplpush', b'l8', K, b'0']]),
    # every command that takes something out of / edits a collection in place, on a collection that keeps other elements
    ('blpop', [[b'blpop', K, b'0']]), ('brpop', [[b'brpop', K, b'0']]), ('blpop-second-key', [[b'blpop', b'nolist', K, b'0']]),
    ('brpoplpush-from', [[b'brpoplpush', K, b'l7', b'0']]), ('rpop', [[b'rpop', K]]), ('lpop-count', [[b'lpop', K, b'1']]), ('rpoplpush-from', [[b'rpoplpush', K, b'l7']]),
    ('lmove-from', [[b'lmove', K, b'l7', b'right', b'left']]), ('linsert', [[b'linsert', K, b'before', b'b', b'x']]), ('linsert-nopivot', [[b'linsert', K, b'before', b'zz', b'x']]),
    ('lrem', [[b'lrem', K, b'0', b'a']]), ('lrem-missing', [[b'lrem', K, b'0', b'zz']]), ('lset', [[b'lset', K, b'0', b'x']]), ('lset-same', [[b'lset', K, b'0', b'a']]),
    ('ltrim-part', [[b'ltrim', K, b'1', b'-1']]), ('ltrim-all', [[b'ltrim', K, b'0', b'-1']]), ('rpushx', [[b'rpushx', K, b'x']]),
    ('srem', [[b'srem', K, b'a']]), ('spop-count', [[b'spop', K, b'1']]), ('smove-from', [[b'smove', K, b't7', b'a']]), ('hdel', [[b'hdel', K, b'f']]),
    ('hsetnx-existing', [[b'hsetnx', K, b'f', b'w']]), ('hincrbyfloat', [[b'hincrbyfloat', K, b'n', b'1.5']]), ('hset-same', [[b'hset', K, b'f', b'v']]),
    ('zincrby', [[b'zincrby', K, b'1', b'a']]), ('zincrby-zero', [[b'zincrby', K, b'0', b'a']]), ('zremrangebyscore-none', [[b'zremrangebyscore', K, b'5', b'6']]),
    ('zremrangebylex', [[b'zremrangebylex', K, b'-', b'+']]), ('zadd-xx-ch', [[b'zadd', K, b'xx', b'ch', b'3', b'a']]), ('zadd-nx-existing', [[b'zadd', K, b'nx', b'3', b'a']]),
    ('incrbyfloat', [[b'incrbyfloat', K, b'1.5']]), ('decrby', [[b'decrby', K, b'2']]), ('setrange', [[b'setrange', K, b'1', b'zz']]), ('setex', [[b'setex', K, b'100', b'orig']]),
    ('pexpireat-past', [[b'pexpireat', K, b'1']]), ('expire-same', [[b'expire', K, b'1000']]), ('mset', [[b'mset', K, b'orig', b'o9', b'y']]), ('sadd-two', [[b'sadd', K, b'a', b'c']]),
]
# cross-database interference, run from the OTHER database
CROSS = [
    ('move-in', [[b'set', K, b'fromother'], [b'move', K, b'WATCHED']]), ('swapdb', [[b'swapdb', b'0', b'1']]),
    ('swapdb-with-key-there', [[b'set', K, b'there'], [b'swapdb', b'0', b'1']]), ('set-other-db', [[b'set', K, b'elsewhere']]),
    ('flushdb-other', [[b'flushdb']]), ('flushall-other', [[b'flushall']]), ('swapdb-same', [[b'swapdb', b'1', b'1']]),
    ('swapdb-unrelated', [[b'swapdb', b'2', b'3']]),
]
QUEUES = {
    'valid': [[b'set', b'out', b'1'], [b'incr', b'cnt']],
    'runtime-error': [[b'set', b'out', b'1'], [b'lpush', b'out', b'x'], [b'incr', b'cnt']],
    'unknown-command': [[b'set', b'out', b'1'], [b'nosuchcmd', b'x'], [b'incr', b'cnt']],
    'arity-error': [[b'set', b'out', b'1'], [b'get'], [b'incr', b'cnt']],
    'empty': [],
    'dangling-repeat': [[b'set', b'out', b'1'], [b'mset', b'k5', b'v', b'dangling'], [b'incr', b'cnt']],
    'dangling-repeat-hset': [[b'set', b'out', b'1'], [b'hset', b'h5', b'f', b'v', b'dangling'], [b'incr', b'cnt']],
    'unknown-then-valid': [[b'nosuchcmd'], [b'set', b'out', b'1']],
    'watch-inside': [[b'watch', b'other'], [b'set', b'out', b'1']],
    'nested-multi': [[b'multi'], [b'set', b'out', b'1']],
    'blocking-inside': [[b'blpop', b'nolist', b'0'], [b'set', b'out', b'1']],
    'select-inside': [[b'select', b'3'], [b'set', b'out', b'1'], [b'select', b'0']],
}
ENDINGS = {
    'exec': [[b'exec']], 'discard-then-exec': [[b'discard'], [b'exec']], 'exec-twice': [[b'exec'], [b'exec']],
    'exec-bad-arity': [[b'exec', b'x'], [b'exec']],
    'exec-then-tx': [[b'exec'], [b'multi'], [b'set', b'later', b'1'], [b'exec']],
    'discard-then-tx': [[b'discard'], [b'multi'], [b'set', b'later', b'1'], [b'exec'], [b'get', b'later']],
    'unwatch-inside-then-exec': [[b'unwatch'], [b'exec']],
}
PRE = {'watch-two-dbs': lambda: [[b'watch', K], [b'select', b'2'], [b'watch', K], [b'select', b'0']],
       'watch': lambda: [[b'watch', K]], 'watch-two': lambda: [[b'watch', K, K2]], 'watch-unwatch': lambda: [[b'watch', K], [b'unwatch']],
       'no-watch': lambda: [], 'watch-twice': lambda: [[b'watch', K], [b'watch', K]]}


def scenario(holds, act, cross, pre, queue, ending, wdb):
    odb = 1 - wdb
    evs = [('open', 1), ('open', 2), ('open', 3)]
    if wdb:
        evs.append(('cmd', 1, [b'select', b'1']))
    evs.append(('cmd', 2, [b'select', str(odb if cross else wdb).encode()]))
    evs.append(('cmd', 3, [b'select', str(wdb).encode()]))
    for f in HOLDS[holds]:
        evs.append(('cmd', 3, f))
    for f in PRE[pre]():
        evs.append(('cmd', 1, f))
    # a second watcher of the same key that gives up first (its removal must not disturb the first)
    if pre == 'watch-two':
        evs += [('cmd', 3, [b'watch', K]), ('cmd', 3, [b'unwatch'])]
    for f in act:
        f = [x.replace(b'OTHER', str(odb).encode()).replace(b'WATCHED', str(wdb).encode()) for x in f]
        evs.append(('cmd', 2, f))
    evs.append(('cmd', 1, [b'multi']))
    for f in QUEUES[queue]:
        evs.append(('cmd', 1, f))
    for f in ENDINGS[ending]:
        evs.append(('cmd', 1, f))
    evs += [('cmd', 3, [b'get', b'out']), ('cmd', 3, [b'get', b'cnt']), ('cmd', 1, [b'ping'])]
    return evs


def all_scenarios():
    for holds in HOLDS:
        for wdb in (0, 1):
            for (aname, act) in ACTIONS:
                yield ('%s/db%d/%s' % (holds, wdb, aname), (holds, act, False, 'watch', 'valid', 'exec', wdb))
            for (aname, act) in CROSS:
                yield ('%s/db%d/cross:%s' % (holds, wdb, aname), (holds, act, True, 'watch', 'valid', 'exec', wdb))
    for act in ([[b'select', b'2'], [b'set', K, b'indb2']], [[b'select', b'2'], [b'get', K]], [[b'select', b'0'], [b'set', K, b'indb0']], [[b'select', b'3'], [b'set', K, b'x']]):
        yield ('two-dbs/%s' % act[0][1].decode(), ('string', act, False, 'watch-two-dbs', 'valid', 'exec', 0))
    for pre in PRE:
        for queue in QUEUES:
            for ending in ENDINGS:
                for (aname, act) in (('none', []), ('set', [[b'set', K, b'new']])):
                    yield ('%s/%s/%s/%s' % (pre, queue, ending, aname), ('string', act, False, pre, queue, ending, 0))


def raw_scenarios():
    """watches that have been consumed never influence a later transaction - also when the watched database was swapped meanwhile"""
    for end in ([[b'exec']], [[b'discard']], [[b'unwatch'], [b'discard']], [[b'exec', b'x']]):
        for swap in ([b'swapdb', b'0', b'1'], [b'swapdb', b'1', b'0'], [b'swapdb', b'0', b'0'], [b'flushall'], [b'select', b'0']):
            for wdb in (b'0', b'1'):
                evs = [('open', 1), ('open', 2), ('cmd', 1, [b'select', wdb]), ('cmd', 2, [b'set', K, b'orig']), ('cmd', 1, [b'watch', K, K2]), ('cmd', 2, list(swap)),
                       ('cmd', 1, [b'multi']), ('cmd', 1, [b'set', b'out', b'1'])] + [('cmd', 1, list(f)) for f in end]
                # the old watches are gone: writes to the key in either database must not disturb the next transaction
                for db in (b'0', b'1'):
                    evs += [('cmd', 2, [b'select', db]), ('cmd', 2, [b'set', K, b'later']), ('cmd', 2, [b'del', K2])]
                evs += [('cmd', 1, [b'multi']), ('cmd', 1, [b'incr', b'cnt']), ('cmd', 1, [b'exec']), ('cmd', 1, [b'get', b'cnt']),
                        # ... and a fresh watch works in the swapped database
                        ('cmd', 1, [b'watch', K]), ('cmd', 2, [b'select', wdb]), ('cmd', 2, [b'append', K, b'!']), ('cmd', 1, [b'multi']), ('cmd', 1, [b'incr', b'cnt']), ('cmd', 1, [b'exec'])]
                yield ('consumed-watch/%s/%s/db%s' % (end[0][0].decode(), swap[0].decode() + swap[-1].decode(), wdb.decode()), evs)


def run(res, prop, tier, seed, t_end, observers, scope=None):
    import time
    scs = list(all_scenarios())
    rng = random.Random(seed * 13 + 5)
    if tier == 'quick':
        scs = rng.sample(scs, min(len(scs), 5000))
    scs += [(n, ('raw', e)) for n, e in raw_scenarios()]
    for name, args in scs:
        if time.time() > t_end:
            res.notes.append('scenario enumeration: time budget reached')
            return
        evs = args[1] if args[0] == 'raw' else scenario(*args)
        for version in ((6, 7) if tier == 'thorough' else (rng.choice([6, 7]),)):
            s, d = Cp.replay_events(evs, version, seed, observers)
            res.absorb(s)
            res.cells.add(('scenario', name.split('/')[-1], args[0]))
            if s.violations:
                v = s.violations[0]
                res.add({'kind': 'monitor', 'property': v.prop, 'clause': v.clause, 'detail': v.detail, 'scenario': name,
                                     'version': version, 'seed': seed, 'events': [corr.ev_json(e) for e in evs]})
                return
            if d is not None:
                verdict = Cp.judge(d, scope)
                if verdict == 'out-of-scope':
                    continue
                res.add({'kind': 'divergence', 'verdict': verdict, 'what': d.what, 'scenario': name, 'version': version, 'seed': seed,
                                     'events': [corr.ev_json(e) for e in evs], 'impl': d.impl_side, 'model': d.model_side, 'at': corr.ev_json(d.event)})
                return
    if tier == 'thorough':
        res.exhaustive = True
        res.notes.append('exhaustive scenario product: %d scenarios x 2 versions' % len(scs))
