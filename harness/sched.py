"""Scheduler harness for blocking pops (C11): every client command runs in its own worker thread, but only
the thread the scheduler names is runnable.  `Database.condition` is replaced by a hand-off condition:
`wait()` releases the server lock, reports "parked" to the scheduler and blocks until the scheduler resumes
it with a verdict (True = notified, False = timed out).  The order of critical sections is therefore an
explicit, replayable event list, identical for the Lean model."""
import threading
import impl as I


class SchedCondition:
    def __init__(self, sched, lock):
        self.sched, self.lock = sched, lock

    def wait(self, timeout=None):
        c = threading.current_thread().conn
        w = {'cond': self, 'timeout': timeout, 'go': threading.Event(), 'verdict': None, 'notified': False}
        self.sched.waiters[c] = w
        self.lock.release()
        self.sched.turn.set()            # hand control back to the scheduler
        w['go'].wait()
        self.lock.acquire()
        del self.sched.waiters[c]
        return w['verdict']

    def notify(self, n=1):
        for w in self.sched.waiters.values():
            if w['cond'] is self and not w['notified'] and n > 0:
                w['notified'] = True
                n -= 1

    def notify_all(self):
        for w in self.sched.waiters.values():
            if w['cond'] is self:
                w['notified'] = True


class SchedImpl(I.Impl):
    def __init__(self, version=7, seed=0):
        super().__init__(version, seed, fake_condition=False)
        self.waiters = {}
        self.turn = threading.Event()
        self.threads = {}
        self.crash = {}
        orig = self.srv.dbs.default_factory

        def new_db():
            db = orig()
            db.condition = SchedCondition(self, self.srv.lock)
            return db
        self.srv.dbs.default_factory = new_db
        for db in self.srv.dbs.values():
            db.condition = SchedCondition(self, self.srv.lock)

    def _run_worker(self, c, data):
        try:
            self.socks[c].sendall(data)
        except BaseException as e:   # noqa
            self.crash[c] = type(e).__name__
        finally:
            self.threads.pop(c, None)
            self.turn.set()

    def _wait_turn(self):
        if not self.turn.wait(timeout=20):
            raise RuntimeError('scheduler: worker neither finished nor parked')
        self.turn.clear()

    def send(self, c, data):
        self.clock.log = []
        self.rnd.log = []
        self.crash.pop(c, None)
        t = threading.Thread(target=self._run_worker, args=(c, data), daemon=True)
        t.conn = c
        self.threads[c] = t
        self.turn.clear()
        t.start()
        self._wait_turn()
        return self.drain(), self.crash.get(c), list(self.clock.log), [list(p) for p in self.rnd.log]

    def resume(self, c, verdict):
        """wake (verdict True) or time out (False) the parked connection c"""
        self.clock.log = []
        self.rnd.log = []
        w = self.waiters[c]
        w['verdict'] = verdict
        self.turn.clear()
        w['go'].set()
        self._wait_turn()
        return self.drain(), self.crash.get(c), list(self.clock.log), [list(p) for p in self.rnd.log]

    def parked_info(self):
        return {c: ('!' if w['notified'] else '') for c, w in self.waiters.items()}

    def shutdown(self):
        for c in list(self.waiters):
            try:
                self.resume(c, False)
            except Exception:
                pass
