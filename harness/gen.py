"""Structured command generators.

Every command has one or more templates in a small DSL:
  lower-case word   literal keyword (random case flips are applied sometimes)
  K Kk Kl Kh Kt Kz  key (any / biased to the pool of strings, lists, hashes, sets, zsets)
  V F M             value / hash field / member
  I N X             integer from the boundary pool / small non-negative count / index-like integer
  T Tm A Am         relative ttl (s / ms), absolute timestamp (s / ms)
  D S L P           float literal / score bound / lex bound / glob pattern
  B O Os b C        db index / bit offset / small bit offset / bit value / scan cursor
  W                 blocking timeout
  [a|b]  optional alternative, (a|b) mandatory alternative, {..}* / {..}+ repetition (0..3 / 1..3)
"""
import random

TEMPLATES = {
 # connection / server
 'echo': ['V'], 'ping': ['[V]'], 'select': ['B'], 'swapdb': ['B B'],
 'dbsize': [''], 'flushdb': ['[async]'], 'flushall': ['[async]'], 'lastsave': [''], 'save': [''],
 'bgsave': ['[schedule]'], 'time': [''],
 # keys
 'del': ['{K}+'], 'unlink': ['{K}+'], 'exists': ['{K}+'], 'expire': ['K Te'], 'expireat': ['K A'],
 'pexpire': ['K Tme'], 'pexpireat': ['K Am'], 'ttl': ['K'], 'pttl': ['K'], 'type': ['K'], 'persist': ['K'],
 'keys': ['P'], 'move': ['K B'], 'randomkey': [''], 'rename': ['K K'], 'renamenx': ['K K'],
 'scan': ['C {(match P|count N|type (string|list|set|zset|hash|V))}*'],
 'sort': ['(Kl|Kt|Kz|K) {(asc|desc|alpha|limit X X|by (nosort|w_*|w_*->F|P)|get (#|w_*|w_*->F|P)|store K)}*'],
 'dump': ['K'], 'restore': ['K Tm0 R [replace]'],
 # strings
 'append': ['Kk V'], 'bitcount': ['Kk [X X]'], 'decr': ['Kk'], 'decrby': ['Kk I'], 'incr': ['Kk'],
 'incrby': ['Kk I'], 'incrbyfloat': ['Kk D'], 'get': ['Kk'], 'getbit': ['Kk O'], 'setbit': ['Kk Os b'],
 'getrange': ['Kk X X'], 'substr': ['Kk X X'], 'getset': ['Kk V'], 'mget': ['{K}+'], 'mset': ['{K V}+'],
 'msetnx': ['{K V}+'], 'set': ['K V {(nx|xx|ex T|px Tm|keepttl|get)}*'], 'setex': ['K T V'],
 'psetex': ['K Tm V'], 'setnx': ['K V'], 'setrange': ['Kk Os V'], 'strlen': ['Kk'],
 # hashes
 'hdel': ['Kh {F}+'], 'hexists': ['Kh F'], 'hget': ['Kh F'], 'hgetall': ['Kh'], 'hincrby': ['Kh F I'],
 'hincrbyfloat': ['Kh F D'], 'hkeys': ['Kh'], 'hlen': ['Kh'], 'hmget': ['Kh {F}+'], 'hmset': ['Kh {F V}+'],
 'hscan': ['Kh C {(match P|count N|type V)}*'], 'hset': ['Kh {F V}+'], 'hsetnx': ['Kh F V'],
 'hstrlen': ['Kh F'], 'hvals': ['Kh'],
 # lists
 'blpop': ['{Kl}+ W'], 'brpop': ['{Kl}+ W'], 'brpoplpush': ['Kl Kl W'], 'lindex': ['Kl X'],
 'linsert': ['Kl (before|after|V) M M'], 'llen': ['Kl'], 'lmove': ['Kl Kl (left|right|V) (left|right|V)'],
 'lpop': ['Kl [N]'], 'rpop': ['Kl [N]'], 'lpush': ['Kl {M}+'], 'rpush': ['Kl {M}+'], 'lpushx': ['Kl {M}+'],
 'rpushx': ['Kl {M}+'], 'lrange': ['Kl X X'], 'lrem': ['Kl X M'], 'lset': ['Kl X M'], 'ltrim': ['Kl X X'],
 'rpoplpush': ['Kl Kl'],
 # sets
 'sadd': ['Kt {M}+'], 'scard': ['Kt'], 'sdiff': ['{Kt}+'], 'sdiffstore': ['K {Kt}+'], 'sinter': ['{Kt}+'],
 'sinterstore': ['K {Kt}+'], 'sismember': ['Kt M'], 'smismember': ['Kt {M}+'], 'smembers': ['Kt'],
 'smove': ['Kt Kt M'], 'spop': ['Kt [N]'], 'srandmember': ['Kt [Ns]'], 'srem': ['Kt {M}+'],
 'sscan': ['Kt C {(match P|count N|type V)}*'], 'sunion': ['{Kt}+'], 'sunionstore': ['K {Kt}+'],
 'pfadd': ['Kt {M}*'], 'pfcount': ['{Kt}+'], 'pfmerge': ['Kt {Kt}+'],
 # zsets
 'zadd': ['Kz {(nx|xx|ch|incr)}* {D M}+'], 'zcard': ['Kz'], 'zcount': ['Kz S S'], 'zincrby': ['Kz D M'],
 'zlexcount': ['Kz L L'], 'zrange': ['Kz X X [withscores]'], 'zrevrange': ['Kz X X [withscores]'],
 'zrangebylex': ['Kz L L [limit X X]'], 'zrevrangebylex': ['Kz L L [limit X X]'],
 'zrangebyscore': ['Kz S S {(withscores|limit X X)}*'], 'zrevrangebyscore': ['Kz S S {(withscores|limit X X)}*'],
 'zrank': ['Kz M'], 'zrevrank': ['Kz M'], 'zrem': ['Kz {M}+'], 'zremrangebylex': ['Kz L L'],
 'zremrangebyscore': ['Kz S S'], 'zremrangebyrank': ['Kz X X'],
 'zscan': ['Kz C {(match P|count N|type V)}*'], 'zscore': ['Kz M'],
 'zunionstore': ['K Z {(weights D D|weights D|aggregate (sum|min|max|V))}*'],
 'zinterstore': ['K Z {(weights D D|weights D|aggregate (sum|min|max|V))}*'],
 # transactions
 'multi': [''], 'exec': [''], 'discard': [''], 'watch': ['{K}+'], 'unwatch': [''],
 # pubsub
 'subscribe': ['{H}+'], 'unsubscribe': ['{H}*'], 'psubscribe': ['{P}+'], 'punsubscribe': ['{P}*'],
 'publish': ['H V'],
}

FAMILY = {
 'str': ['append', 'bitcount', 'decr', 'decrby', 'incr', 'incrby', 'incrbyfloat', 'get', 'getbit', 'setbit',
         'getrange', 'substr', 'getset', 'mget', 'mset', 'msetnx', 'set', 'setex', 'psetex', 'setnx', 'setrange',
         'strlen'],
 'key': ['del', 'unlink', 'exists', 'type', 'rename', 'renamenx', 'keys', 'randomkey', 'dbsize', 'dump', 'restore'],
 'ttl': ['expire', 'expireat', 'pexpire', 'pexpireat', 'ttl', 'pttl', 'persist'],
 'hash': ['hdel', 'hexists', 'hget', 'hgetall', 'hincrby', 'hincrbyfloat', 'hkeys', 'hlen', 'hmget', 'hmset',
          'hset', 'hsetnx', 'hstrlen', 'hvals'],
 'list': ['lindex', 'linsert', 'llen', 'lmove', 'lpop', 'rpop', 'lpush', 'rpush', 'lpushx', 'rpushx', 'lrange',
          'lrem', 'lset', 'ltrim', 'rpoplpush', 'blpop', 'brpop', 'brpoplpush'],
 'set': ['sadd', 'scard', 'sdiff', 'sdiffstore', 'sinter', 'sinterstore', 'sismember', 'smismember', 'smembers',
         'smove', 'spop', 'srandmember', 'srem', 'sunion', 'sunionstore', 'pfadd', 'pfcount', 'pfmerge'],
 'zset': ['zadd', 'zcard', 'zcount', 'zincrby', 'zlexcount', 'zrange', 'zrevrange', 'zrangebylex',
          'zrevrangebylex', 'zrangebyscore', 'zrevrangebyscore', 'zrank', 'zrevrank', 'zrem', 'zremrangebylex',
          'zremrangebyscore', 'zremrangebyrank', 'zscore', 'zunionstore', 'zinterstore'],
 'scan': ['scan', 'hscan', 'sscan', 'zscan'],
 'sort': ['sort'],
 'server': ['echo', 'ping', 'select', 'swapdb', 'flushdb', 'flushall', 'lastsave', 'save', 'bgsave', 'time',
            'move'],
 'tx': ['multi', 'exec', 'discard', 'watch', 'unwatch'],
 'pubsub': ['subscribe', 'unsubscribe', 'psubscribe', 'punsubscribe', 'publish'],
}
ALL_MODELLED = sorted(set(sum(FAMILY.values(), [])))

I64MAX = 2 ** 63 - 1
_I = lambda n: str(n).encode()
# name -> (mostly-valid pool, odd pool); the odd pool is used with probability ODD
ODD = 0.15
POOLS2 = {
 'Kk': ([b'k0', b'k1', b'k2'], []), 'Kl': ([b'l0', b'l1'], []), 'Kh': ([b'h0', b'h1'], []),
 'Kt': ([b't0', b't1', b't2'], []), 'Kz': ([b'z0', b'z1'], []),
 'V': ([b'a', b'b', b'10', b'-1', b'3.5', b'abc', b'hello world', b'0', b'7'],
       [b'', b'\x00\xff', _I(I64MAX), b'1e3', b' 1', b'007', _I(-I64MAX - 1), b'\r\n', b'x' * 40, b'1_0', b'inf', b'-inf', b'nan', b'1e308', b'-1e308']),
 'F': ([b'f0', b'f1', b'f2'], [b'']),
 'M': ([b'a', b'b', b'c', b'd', b'm1', b'10', b'2'], [b'', b'\xff', b'aa', b'B']),
 'I': ([b'0', b'1', b'-1', b'2', b'-2', b'5', b'10', b'-10', b'100'],
       [_I(I64MAX), _I(-I64MAX - 1), _I(I64MAX + 1), b'x', b'', b'1.0', b' 1', b'+1', b'01', b'-0', _I(I64MAX - 1)]),
 'N': ([b'0', b'1', b'2', b'3', b'5', b'10'], [b'-1', b'x', b'100']),
 'Ns': ([b'0', b'1', b'2', b'3', b'-1', b'-2', b'-3', b'5'], [b'x']),
 'X': ([_I(i) for i in range(-6, 7)], [b'100', b'-100', b'x', _I(I64MAX), b'7', b'-7', b'8', b'-8']),
 'T': ([b'1', b'10', b'100', b'2', b'1000000'], [b'0', b'-1', b'x', _I(I64MAX), b'9223372036854775807']),
 'Tm': ([b'1', b'1500', b'2500', b'10000', b'500', b'100000'], [b'0', b'-5', b'x', _I(I64MAX)]),
 'Te': ([b'1', b'10', b'100', b'1000000', b'2', b'3'], [b'0', b'-1', b'x', b'-100']),
 'Tme': ([b'1', b'1500', b'2500', b'10000', b'500', b'100000', b'999'], [b'0', b'-5', b'x']),
 'Tm0': ([b'0', b'0', b'1500', b'10000'], [b'-5', b'x']),
 'D': ([b'0', b'1', b'-1', b'1.5', b'0.1', b'0.2', b'2', b'3', b'-2.5', b'2.5', b'100', b'1e3', b'3.0e0', b'.5', b'5.',
        b'0.30000000000000004', b'9007199254740993', b'1e+2', b'1E2', b'12345678901234567890', b'-0', b'0.0', b'-0.0'],
       [b'inf', b'-inf', b'+inf', b'nan', b'1e400', b'-1e400', b'1e-400', b' 1', b'1 ', b'0x10', b'1_0', b'', b'abc',
        b'1e', b'infinity', b'-Infinity', b'1.7976931348623157e308', b'5e-324', b'2.5e-324', b'1e308', b'1\x002',
        b'\t1', b'--1', b'+-1', b'1e-320', b'4.9e-324', b'-1e308', b'1e22', b'1e23', b'0.000001', b'123456789.123456789']),
 'S': ([b'0', b'1', b'2', b'3', b'-1', b'(0', b'(1', b'(2', b'-inf', b'+inf', b'1.5', b'(1.5', b'2.5', b'100', b'(3'],
       [b'inf', b'(inf', b'(-inf', b'', b'(', b'x', b'(x', b' 1', b'1\x00x', b'nan', b'-0', b'(-0']),
 'L': ([b'-', b'+', b'[a', b'(a', b'[b', b'(b', b'[c', b'(c', b'[m1', b'[d', b'(d'],
       [b'[', b'(', b'a', b'[\xff', b'(\xff', b'[aa', b'']),
 'P': ([b'*', b'k*', b'?0', b'[kl]*', b'h[0-9]', b'[^k]*', b'*0', b'k0', b'ch*', b'c?1', b'[a-c]', b'*[0-1]', b'?*', b'a*'],
       [b'\\k0', b'k[', b'a*b*', b'[a-', b'[]', b'[^]', b'k\\', b'**', b'[z-a]*', b'', b'\\*', b't[\\0-1]']),
 'H': ([b'ch1', b'ch2', b'c01', b'a'], [b'', b'h[0-9]', b'[a-', b'k\\', b'c?1', b'a*', b'\\k0', b'[^k]*']),
 'B': ([b'0', b'1', b'2', b'15', b'0', b'1'], [b'16', b'-1', b'a']),
 'O': ([b'0', b'1', b'7', b'8', b'9', b'15', b'16', b'100'], [b'4294967295', b'4294967296', b'-1', b'x']),
 'Os': ([b'0', b'1', b'7', b'8', b'9', b'15', b'16', b'100', b'130', b'3'], [b'-1', b'x']),
 'b': ([b'0', b'1'], [b'2', b'x']),
 'C': ([b'0', b'0', b'1', b'2', b'5', b'10', b'3'], [b'-1', b'x', b'100']),
 'W': ([b'0', b'1', b'2'], [b'-1', b'x', b'1.5']),
}
POOLS = {k: v[0] + v[1] for k, v in POOLS2.items()}
ALLKEYS = sum([POOLS[k] for k in ('Kk', 'Kl', 'Kh', 'Kt', 'Kz')], []) + [b'nx', b'w_a', b'w_b', b'w_10', b'w_2']
POOLS['K'] = ALLKEYS
POOLS2['K'] = (ALLKEYS, [])


def pick(rng, name):
    good, odd = POOLS2[name]
    if odd and rng.random() < ODD:
        return rng.choice(odd)
    return rng.choice(good)


# commands that populate the key space with every type (run at the start of most histories)
SEED_COMMANDS = [
 [b'set', b'k0', b'10'], [b'set', b'k1', b'abc'], [b'rpush', b'l0', b'a', b'b', b'c', b'b'], [b'rpush', b'l1', b'2', b'10', b'm1'],
 [b'hset', b'h0', b'f0', b'1', b'f1', b'abc'], [b'sadd', b't0', b'a', b'b', b'c'], [b'sadd', b't1', b'b', b'c', b'd', b'10', b'2'],
 [b'zadd', b'z0', b'1', b'a', b'2', b'b', b'2', b'c', b'3.5', b'd', b'inf', b'pinf', b'-inf', b'ninf'], [b'zadd', b'z1', b'0', b'a', b'0', b'b', b'0', b'c', b'0', b'm1'],
 [b'set', b'w_a', b'3'], [b'set', b'w_b', b'1'], [b'hset', b'w_10', b'f0', b'5'], [b'set', b'w_2', b'x'],
]


def tokenize(t):
    out, i = [], 0
    while i < len(t):
        c = t[i]
        if c.isspace():
            i += 1
        elif c in '[](){}|':
            if c == '}' and i + 1 < len(t) and t[i + 1] in '*+':
                out.append('}' + t[i + 1])
                i += 2
            else:
                out.append(c)
                i += 1
        else:
            j = i
            while j < len(t) and not t[j].isspace() and t[j] not in '[](){}|':
                j += 1
            out.append(t[i:j])
            i = j
    return out


def parse(tokens):
    """-> sequence AST: list of ('lit', w) | ('slot', name) | ('opt', [alts]) | ('alt', [alts]) | ('rep', seq, min)"""
    pos = 0

    def seq(stop):
        nonlocal pos
        items = []
        while pos < len(tokens) and tokens[pos] not in stop:
            tk = tokens[pos]
            if tk == '[':
                pos += 1
                items.append(('opt', alts(']')))
            elif tk == '(':
                pos += 1
                items.append(('alt', alts(')')))
            elif tk == '{':
                pos += 1
                body = seq(('}*', '}+'))
                mn = 0 if tokens[pos] == '}*' else 1
                pos += 1
                items.append(('rep', body, mn))
            else:
                pos += 1
                items.append(('slot', tk) if tk in POOLS or tk in ('A', 'Am', 'R', 'Z') else ('lit', tk))
        return items

    def alts(close):
        nonlocal pos
        out = [seq(('|', close))]
        while tokens[pos] == '|':
            pos += 1
            out.append(seq(('|', close)))
        pos += 1
        return out
    return seq(())


_AST = {}


def ast_of(name, idx):
    key = (name, idx)
    if key not in _AST:
        _AST[key] = parse(tokenize(TEMPLATES[name][idx]))
    return _AST[key]


class Gen:
    def __init__(self, rng, now_ticks=lambda: 0, alias=0.3, payloads=None):
        self.rng = rng
        self.now = now_ticks
        self.alias = alias
        self.last_key = None
        self.payloads = payloads if payloads is not None else []

    def slot(self, name):
        r = self.rng
        if name in ('A', 'Am'):
            now_s = self.now() // 10_000_000
            base = now_s + r.choice([-5, 0, 1, 2, 10, 100, 1000])
            if name == 'A':
                return r.choice([str(base).encode(), b'0', b'-1', b'x', str(base).encode()])
            return r.choice([str(base * 1000 + r.choice([0, 1, 500, 999])).encode(), b'0', b'x'])
        if name == 'R':
            if self.payloads and r.random() < 0.8:
                return r.choice(self.payloads)
            return r.choice([b'', b'garbage', b'\x00' * 25])
        if name == 'Z':   # numkeys + keys for zunionstore
            n = r.choice([1, 1, 2, 2, 3])
            keys = [r.choice(POOLS['Kz'] + POOLS['Kt'] + [b'nx', b'k0']) for _ in range(n)]
            shown = r.choice([n, n, n, n, 0, -1, n + 1, n + 5])
            return [str(shown).encode()] + keys
        if name.startswith('K'):
            if self.last_key is not None and r.random() < self.alias:
                return self.last_key
            pool = POOLS[name] if (name == 'K' or r.random() < 0.85) else ALLKEYS
            k = r.choice(pool)
            self.last_key = k
            return k
        return pick(r, name)

    def expand(self, seq, out):
        r = self.rng
        for it in seq:
            kind = it[0]
            if kind == 'lit':
                w = it[1]
                if r.random() < 0.15:
                    w = w.upper() if r.random() < 0.7 else ''.join(c.upper() if r.random() < .5 else c for c in w)
                out.append(w.encode())
            elif kind == 'slot':
                v = self.slot(it[1])
                out.extend(v) if isinstance(v, list) else out.append(v)
            elif kind == 'opt':
                if r.random() < 0.5:
                    self.expand(r.choice(it[1]), out)
            elif kind == 'alt':
                self.expand(r.choice(it[1]), out)
            elif kind == 'rep':
                n = r.choice([it[2], 1, 1, 2, 3]) if it[2] == 0 else r.choice([1, 1, 2, 3])
                for _ in range(n):
                    self.expand(it[1], out)

    def command(self, name):
        self.last_key = None
        tpl = self.rng.randrange(len(TEMPLATES[name]))
        out = [name.encode() if self.rng.random() < 0.9 else name.upper().encode()]
        self.expand(ast_of(name, tpl), out)
        return sanitize(out)

    def mutate(self, fields):
        """malformed stream: drop / duplicate / replace one argument, change case, inject NUL"""
        r = self.rng
        f = list(fields)
        op = r.randrange(6)
        if op == 0 and len(f) > 1:
            del f[r.randrange(1, len(f))]
        elif op == 1 and len(f) > 1:
            i = r.randrange(1, len(f))
            f.insert(i, f[i])
        elif op == 2 and len(f) > 1:
            i = r.randrange(1, len(f))
            f[i] = r.choice(POOLS[r.choice(['V', 'I', 'D', 'K', 'X', 'P'])])
        elif op == 3:
            f.append(r.choice(POOLS[r.choice(['V', 'I', 'K'])]))
        elif op == 4 and len(f) > 1:
            i = r.randrange(1, len(f))
            f[i] = f[i] + b'\x00zz'
        else:
            f[0] = r.choice([f[0].swapcase(), f[0] + b'x', b'_' + f[0], b'nosuch', b'', b'\xff\xfe', f[0] + b'\r\n'])
        return sanitize(f)


FLOAT_TIME = {b'expire', b'pexpire', b'expireat', b'pexpireat', b'restore'}


def sanitize(fields):
    """Deadlines are Python floats in the code: EXPIRE-family / RESTORE ttl arguments beyond 10^12 are outside the
    modelled band (the float rounding of such deadlines is not modelled; Redis 6.2+ refuses them, DESIGN F17)."""
    if fields and fields[0].lower() in FLOAT_TIME:
        out = list(fields)
        for i in range(1, len(out)):
            try:
                if abs(int(out[i])) > 10 ** 12 and out[i] == str(int(out[i])).encode():
                    out[i] = b'1000000'
            except ValueError:
                pass
        return out
    return fields
