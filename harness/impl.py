"""Implementation side of the correspondence: the real fakeredis objects, in-process,
under a logical clock, recorded random choices and (single-threaded mode) a condition
variable whose wait() reports a time-out at once."""
import os, sys, struct, pickle, hashlib, random as _random, threading, weakref

REPO = os.environ.get('FR_REPO', '/repo')
if REPO not in sys.path:
    sys.path.insert(0, REPO)

import fakeredis                       # noqa: E402
from fakeredis import _fakesocket as FS, _helpers as H, _commands as C, _server as SV  # noqa: E402
from fakeredis._zset import ZSet       # noqa: E402

TICKS = 10_000_000
BASE = (1 << 20) * TICKS               # 2^20 s in 100 ns ticks


def _held(lock):
    """is the lock held (by anybody)?  A lock type that cannot tell (RLock before 3.14) switches the monitor off rather than failing"""
    f = getattr(lock, 'locked', None)
    try:
        return True if f is None else bool(f())
    except Exception:
        return True


class Clock:
    """time.time() replacement: the n-th reading is BASE + adv + 2n ticks (always even)."""
    def __init__(self):
        self.adv = 0
        self.n = 0
        self.log = []
        self.frozen = False
        self.last = BASE
        self.aliased_results = []
        self.lock = None                # the server lock: every clock reading of the command path is taken while it is held
        self.unlocked = []              # what happened outside the lock that must happen inside (clock readings, deliveries to other connections)
        self.tl = threading.local()     # .current: the socket whose request this thread is processing

    def time(self):
        if self.lock is not None and not self.frozen and not _held(self.lock):
            self.unlocked.append('the clock was read while the server lock was not held')
        if self.frozen:
            return self.last / 1e7
        self.n += 1
        r = BASE + self.adv + 2 * self.n
        self.last = r
        self.log.append(r)
        return r / 1e7

    def advance_ms(self, ms):
        self.adv += ms * 10_000

    def sleep(self, s):        # never used by the code paths we drive
        raise RuntimeError('sleep called')


class Rand:
    """random replacement: real choices (seeded), every result recorded as a pick."""
    def __init__(self, seed):
        self.r = _random.Random(seed)
        self.log = []

    def sample(self, population, k):
        out = self.r.sample(population, k)
        self.log.append(list(out))
        return out

    def choice(self, seq):
        x = self.r.choice(seq)
        self.log.append([x])
        return x


class FakeCondition:
    """Database.condition in single-threaded runs: wait() times out immediately."""
    def __init__(self):
        self.notified = 0

    def wait(self, timeout=None):
        return False

    def notify_all(self):
        self.notified += 1

    def notify(self, n=1):
        self.notified += 1


class RawError:
    def __init__(self, value):
        self.value = value

    def __repr__(self):
        return 'RawError(%r)' % (self.value,)


def make_socket_class(clock, rnd):
    class HSocket(FS.FakeSocket):
        def _decode_error(self, error):
            return RawError(error.value)

        def _process_command(self, fields):
            prev = getattr(clock.tl, 'current', None)
            clock.tl.current = self
            try:
                return FS.FakeSocket._process_command(self, fields)
            finally:
                clock.tl.current = prev

        def put_response(self, msg):
            # a reply or message handed to ANOTHER connection (PUBLISH deliveries) belongs to the critical section of the command that causes it
            cur = getattr(clock.tl, 'current', None)
            if cur is not None and cur is not self and clock.lock is not None and not _held(clock.lock):
                clock.unlocked.append('a message was handed to another connection after the server lock had been released')
            return FS.FakeSocket.put_response(self, msg)

        def _decode_result(self, result):
            # runs after the server lock was released: the command's result must not be a container that is stored in a database
            if isinstance(result, (list, dict, set)) and self._server is not None:
                for i, db in self._server.dbs.items():
                    for k, it in db._dict.items():
                        v = it.value
                        if v is result or getattr(v, '_byscore', None) is result or getattr(v, '_bylex', None) is result:
                            clock.aliased_results.append((i, k))
            return FS.FakeSocket._decode_result(self, result)

        def sort(self, key, *args):
            # list(set) order is a Python runtime choice: record it as a hint for the model
            if isinstance(key.value, set):
                rnd.log.append(list(key.value))
            return FS.FakeSocket.sort(self, key, *args)
        sort._fakeredis_sig = FS.FakeSocket.sort._fakeredis_sig
    return HSocket


class Impl:
    def __init__(self, version=7, seed=0, fake_condition=True):
        self.clock = Clock()
        self.rnd = Rand(seed)
        FS.time = self.clock
        FS.random = self.rnd
        self.srv = fakeredis.FakeServer(version=version)
        self.srv.lastsave = 0
        self.clock.lock = self.srv.lock
        self.fake_condition = fake_condition
        if fake_condition:
            orig = self.srv.dbs.default_factory

            def new_db():
                db = orig()
                db.condition = FakeCondition()
                return db
            self.srv.dbs.default_factory = new_db
            for db in self.srv.dbs.values():
                db.condition = FakeCondition()
        self.Sock = make_socket_class(self.clock, self.rnd)
        self.socks = {}
        self.closed = set()

    # -- events ---------------------------------------------------------
    def open(self, c):
        self.socks[c] = self.Sock(self.srv)

    def close(self, c):
        self.socks[c].close()
        self.closed.add(c)

    def send(self, c, data):
        """returns (outputs per connection, crash kind or None, clock log, pick log)"""
        self.clock.log = []
        self.rnd.log = []
        crash = None
        try:
            self.socks[c].sendall(data)
        except BaseException as e:       # noqa
            crash = type(e).__name__
        return self.drain(), crash, list(self.clock.log), [list(p) for p in self.rnd.log]

    def drain(self):
        out = {}
        for c, s in self.socks.items():
            q = s.responses
            if q is None:
                continue
            lst = []
            while not q.empty():
                lst.append(q.get_nowait())
            if lst:
                out[c] = lst
        return out

    # -- snapshot ---------------------------------------------------------
    def now_ticks(self):
        return round(self.srv.dbs[0].time * 1e7)

    def snapshot_struct(self):
        """all stored entries (also the expired-but-not-yet-purged ones) with their deadlines in ticks"""
        dbs = {}
        for i in sorted(self.srv.dbs.keys()):
            db = self.srv.dbs[i]
            dbs[i] = [(k.hex(), dump_value(it.value), None if it.expireat is None else round(it.expireat * 1e7))
                      for k, it in db._dict.items()]
        tables = {}
        for name, tbl in (('subs', self.srv.subscribers), ('psubs', self.srv.psubscribers)):
            tables[name] = [(ch.hex(), sorted(c for c, s in self.socks.items() if s in ws)) for ch, ws in tbl.items()]
        conns = {}
        dbidx = {id(d): i for i, d in self.srv.dbs.items()}
        for c in sorted(self.socks):
            s = self.socks[c]
            pk = getattr(self, 'parked_kind', {}).get(c) if c in getattr(self, 'waiters', {}) else None
            if getattr(s, '_paused', False) and hasattr(self, 'loop'):
                pk = getattr(self, 'parked_kind', {}).get(c, 'blocked')
            conns[c] = dict(parked='-' if pk is None else pk + ('!' if c in getattr(self, 'waiters', {}) and self.waiters[c]['notified'] else ''),
                            paused=bool(getattr(s, '_paused', False)),
                            db=s._db_num, tx='-' if s._transaction is None else str(len(s._transaction)),
                            failed=s._transaction_failed, wn=s._watch_notified,
                            watch=sorted({'%d/%s' % (dbidx.get(id(d), -1), k.hex()) for (k, d) in s._watches}),
                            stale=(not (c in self.closed) and s._db is not None and self.srv.dbs.get(s._db_num) is not s._db),
                            pubsub=s._pubsub, closed=c in self.closed, dead=s._parser.gi_frame is None)
        return dict(dbs=dbs, tables=tables, conns=conns, lastsave=self.srv.lastsave, connected=self.srv.connected,
                    now=self.now_ticks())

    def snapshot(self):
        return render_snapshot(self.snapshot_struct())


def live_view(st, now=None):
    """per database the live entries at time `now` (default: the snapshot's own clock)"""
    now = st['now'] if now is None else now
    return {i: [e for e in ents if e[2] is None or e[2] >= now] for i, ents in st['dbs'].items()}


def render_snapshot(st):
    parts = []
    lv = live_view(st)
    for i in sorted(lv):
        if lv[i]:
            parts.append('db%d{%s}' % (i, ','.join('%s=%s@%s' % (k, v, '-' if e is None else str(e)) for k, v, e in lv[i])))
    for name in ('subs', 'psubs'):
        parts.append('%s{%s}' % (name, ','.join('%s=%s' % (ch, '+'.join(map(str, ids))) for ch, ids in st['tables'][name])))
    for c, x in sorted(st['conns'].items()):
        parts.append('c%d{db=%d,tx=%s,failed=%s,wn=%s,watch=%s,pubsub=%d,closed=%s,dead=%s,parked=%s}' % (
            c, x['db'], x['tx'], b(x['failed']), b(x['wn']), '+'.join(x['watch']), x['pubsub'], b(x['closed']), b(x['dead']),
            x.get('parked', '-') + (',paused' if x.get('paused') else '') + (',STALE-DATABASE-OBJECT' if x.get('stale') else '')))
    parts.append('lastsave=%d' % st['lastsave'])
    parts.append('connected=%s' % b(st['connected']))
    return 'S ' + ' '.join(parts)


def b(x):
    return 'true' if x else 'false'


def dbl_bits(x):
    return struct.unpack('>Q', struct.pack('>d', x))[0]


def hexb(x):
    return x.hex() if x else '_'


def dump_value(v):
    """canonical text of a stored value; identical to FR.Cmd.dumpValue in the model"""
    if isinstance(v, bytes):
        return 'S' + hexb(v)
    if isinstance(v, list):
        return 'L' + ','.join(hexb(x) for x in v)
    if isinstance(v, set):
        return 'T' + ','.join(hexb(x) for x in sorted(v))
    if isinstance(v, ZSet):
        return 'Z' + ','.join('%s=%d' % (hexb(m), dbl_bits(s)) for (s, m) in v._byscore)
    if isinstance(v, dict):
        return 'H' + ','.join('%s=%s' % (hexb(k), hexb(x)) for k, x in v.items())
    return '?' + repr(v)


def payload_to_model(p):
    """real DUMP payload (sha1 + pickle) -> model payload text; anything else is passed through"""
    if isinstance(p, bytes) and len(p) >= 20 and hashlib.sha1(p[20:]).digest() == p[:20]:
        try:
            v = pickle.loads(p[20:])
            d = dump_value(v)
            if not d.startswith('?'):
                return b'FRDUMP:' + d.encode()
        except Exception:
            pass
    return p
