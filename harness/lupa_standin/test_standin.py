"""Tests for the pure-Python lupa stand-in: (1) interpreter unit tests, (2) fakeredis end-to-end.

Run:  /venv/bin/python -m pytest /tmp/agent_lua/test_standin.py -q -p no:cacheprovider
"""
import sys

sys.path.insert(0, '/tmp/agent_lua/lupa_standin')

import pytest  # noqa: E402
import lupa  # noqa: E402
from lupa import LuaError, LuaRuntime, as_attrgetter, lua_type  # noqa: E402


def new_rt():
    return LuaRuntime(encoding=None, unpack_returned_tuples=True)


def run(script, *args):
    return new_rt().execute(script if isinstance(script, bytes) else script.encode('latin-1'), *args)


# (script, expected python value)
CASES = [
    # literals / numbers / conversions
    ("return nil", None),
    ("return", None),
    ("return true, false", (True, False)),
    ("return 3, 3.0, 3.5, -2, 0x10, 1e2, .5, 3.", (3, 3, 3.5, -2, 16, 100, 0.5, 3)),
    ("return 10/2, 7/2, 7%3, -7%3, 7%-3, 2^10, -2^2, 2^-1", (5, 3.5, 1, 2, -2, 1024, -4, 0.5)),
    ("return 1/0 > 1e308, -1/0 < -1e308, 0/0 ~= 0/0", (True, True, True)),
    ("return 'a\\n\\t\\\\\\'\\\"', \"x\\65\\066\\x41\\0y\"", (b'a\n\t\\\'"', b'xABA\0y')),
    ("return [[long\nstring]], [==[a]]b]==], [[\nskipfirst]]", (b'long\nstring', b'a]]b', b'skipfirst')),
    (b"return '\xff\xfe\x00\x80'", b'\xff\xfe\x00\x80'),
    ("-- comment\nreturn 1 -- trailing\n--[[ long\ncomment ]] ", 1),
    ("--[==[ x ]] y ]==] return 2;", 2),
    # locals, assignment, globals
    ("local x = 1 local a, b, c = 2, 3 return x, a, b, c", (1, 2, 3, None)),
    ("local a, b = 1, 2 a, b = b, a return a, b", (2, 1)),
    ("local t = {} t.f = 1 t['g'] = 2 t[1+1] = 3 return t.f, t.g, t[2]", (1, 2, 3)),
    ("g = 5 local function f() g = g + 1 end f() f() return g", 7),
    ("local x = 1 do local x = 2 end return x", 1),
    ("local i = 1 local t = {} i, t[i] = i + 1, 20 return i, t[1], t[2]", (2, 20, None)),
    # control flow
    ("local x = 5 if x < 3 then return 'a' elseif x < 10 then return 'b' else return 'c' end", b'b'),
    ("if nil then return 1 end if false then return 2 end if 0 then return 3 end", 3),
    ("local s = 0 for i = 1, 10 do s = s + i end return s", 55),
    ("local s = 0 for i = 10, 1, -3 do s = s + i end return s", 22),
    ("local s = 0 for i = 1, 0 do s = s + 1 end return s", 0),
    ("local s = 0 for i = 1, 2, 0.5 do s = s + i end return s", 4.5),
    ("local n = 0 while n < 5 do n = n + 1 end return n", 5),
    ("local n = 0 while true do n = n + 1 if n == 7 then break end end return n", 7),
    ("local n = 0 repeat local k = n n = n + 1 until k >= 3 return n", 4),
    ("for i = 1, 3 do for j = 1, 3 do if j == 2 then break end end if i == 2 then return i end end", 2),
    ("local t = {10, 20, 30} local s = 0 for i, v in ipairs(t) do s = s + i * v end return s", 140),
    ("local t = {a=1, b=2, 3} local n = 0 for k, v in pairs(t) do n = n + v end return n", 6),
    ("local t = {1, 2, nil, 4} local n = 0 for i, v in ipairs(t) do n = n + 1 end return n", 2),
    ("local t = {1,2,3} for k in pairs(t) do t[k] = nil end return next(t)", None),
    # functions, closures, varargs, recursion
    ("local function f(a, b) return a + b end return f(1, 2)", 3),
    ("function gf(a) return a * 2 end local r = gf(4) gf = nil return r", 8),
    ("local function fact(n) if n <= 1 then return 1 end return n * fact(n - 1) end return fact(10)", 3628800),
    ("local function mk() local c = 0 return function() c = c + 1 return c end end "
     "local a, b = mk(), mk() a() a() return a(), b()", (3, 1)),
    ("local fs = {} for i = 1, 3 do fs[i] = function() return i end end return fs[1](), fs[2](), fs[3]()", (1, 2, 3)),
    ("local function f(...) return select('#', ...), ... end return f(1, nil, 3)", (3, 1, None, 3)),
    ("local function f(...) local t = {...} return #t, (...) end return f(7, 8, 9)", (3, 7)),
    ("local function f() return 1, 2, 3 end local t = {f(), f()} return #t, (f())", (4, 1)),
    ("local function f() return 1, 2 end local a, b, c = f() return a, b, c", (1, 2, None)),
    ("local function f() end return f(), type(f)", (None, b'function')),
    ("local t = {} function t.add(a, b) return a + b end function t:me() return self end "
     "return t.add(1, 2), t:me() == t", (3, True)),
    ("return type'x', #{n=1, 1, 2}, (function(t) return t[1] end){9}", (b'string', 2, 9)),
    # operators
    ("return 1 + 2 * 3, (1 + 2) * 3, 2 * 3 % 4, 2 ^ 3 ^ 2, 1 .. 2 .. 3", (7, 9, 2, 512, b'123')),
    ("return 1 < 2, 2 <= 2, 3 > 4, 3 >= 4, 1 == 1.0, 1 ~= 2, 'a' < 'b', 'a' == 'a', '1' == 1",
     (True, True, False, False, True, True, True, True, False)),
    ("return nil and 1, false or 'x', 1 and 2, nil or false, not nil, not 0, 1 or error('no')",
     (None, b'x', 2, False, True, False, 1)),
    ("return {} == {}, (function() local t = {} return t == t end)()", (False, True)),
    ("return '10' + 5, '3' * '4', 10 .. '', -'2', '0x10' + 0, ' 5 ' + 0", (15, 12, b'10', -2, 16, 5)),
    ("return 'a' .. 1.5 .. 'b' .. 2^53 .. 1e100", b'a1.5b9.007199254741e+151e+100'),
    ("return #'abc', #{1, 2, 3}, #{}, #''", (3, 3, 0, 0)),
    ("return 1 == true, 0 == false, nil == false", (False, False, False)),
    ("local t = {} t[1] = 'n' t[true] = 'b' t['1'] = 's' t[1.5] = 'f' return t[1], t[true], t['1'], t[1.5], t[1.0]",
     (b'n', b'b', b's', b'f', b'n')),
    # table constructors
    ("local t = {1, 2, 'x', k = 'v', ['k2'] = 'v2', [3] = 'three', {5, {6}}} "
     "return t[1], t[3], t.k, t.k2, t[4][1], t[4][2][1]", (1, b'x', b'v', b'v2', 5, 6)),
    ("local t = {1, 2; 3,} return #t", 3),
    # standard library
    ("return tonumber('42'), tonumber('4.5'), tonumber('x'), tonumber(nil), tonumber(7), tonumber('1e1'), tonumber('')",
     (42, 4.5, None, None, 7, 10, None)),
    ("return tostring(3), tostring(3.5), tostring(10/2), tostring(nil), tostring(true), tostring('s'), tostring(-0.1)",
     (b'3', b'3.5', b'5', b'nil', b'true', b's', b'-0.1')),
    ("return type(nil), type(1), type('s'), type({}), type(print), type(true)",
     (b'nil', b'number', b'string', b'table', b'function', b'boolean')),
    ("return unpack({1, 2, 3})", (1, 2, 3)),
    ("return table.unpack({1, 2, 3}, 2)", (2, 3)),
    ("local t = {} table.insert(t, 'a') table.insert(t, 'c') table.insert(t, 2, 'b') return table.concat(t, ',')", b'a,b,c'),
    ("local t = {1, 2, 3} local r = table.remove(t) local f = table.remove(t, 1) return r, f, #t, t[1]", (3, 1, 1, 2)),
    ("return table.concat({1, 'a', 2.5}), table.concat({}, 'x'), table.concat({1, 2, 3}, '-', 2, 3)", (b'1a2.5', b'', b'2-3')),
    ("local t = {3, 1, 2} table.sort(t) local u = {3, 1, 2} table.sort(u, function(a, b) return a > b end) "
     "return table.concat(t), table.concat(u)", (b'123', b'321')),
    ("return string.len('abc'), string.sub('hello', 2, 4), string.sub('hello', -3), string.sub('hello', 2), "
     "string.sub('hello', 0), string.sub('hello', 4, 2), string.sub('hello', 2, 100)",
     (3, b'ell', b'llo', b'ello', b'hello', b'', b'ello')),
    ("return string.rep('ab', 3), string.rep('x', 0), string.upper('aBc'), string.lower('aBc'), string.reverse('abc')",
     (b'ababab', b'', b'ABC', b'abc', b'cba')),
    ("return string.byte('A'), string.char(72, 105), string.byte('abc', 1, -1)", (65, b'Hi', 97, 98, 99)),
    ("return string.format('%d %s %5.2f %g %x %%', 42, 'hi', 3.14159, 0.5, 255), string.format('%05d|%-3s|%q', 7, 'a', 'q\"')",
     (b'42 hi  3.14 0.5 ff %', b'00007|a  |"q\\""')),
    ("return string.format('%s %s %s', nil, true, 12), string.format('%.3f', 2/3), string.format('%d', 3.0)",
     (b'nil true 12', b'0.667', b'3')),
    ("local s = 'hello' return s:len(), s:upper(), ('x'):rep(2)", (5, b'HELLO', b'xx')),
    ("return math.floor(3.7), math.floor(-3.2), math.ceil(3.2), math.max(1, 5, 3), math.min(4, 2), math.abs(-3), "
     "math.huge > 1e308, math.sqrt(16), math.fmod(7, 3)", (3, -4, 4, 5, 2, 3, True, 4, 1)),
    ("return select('#'), select('#', nil, nil), select(2, 'a', 'b', 'c'), select(-1, 'a', 'b')", (0, 2, b'b', b'b')),
    ("return select(2, 'a', 'b', 'c')", (b'b', b'c')),
    ("return assert(1, 'm'), select('#', assert(true, 2, 3))", (1, 3)),
    ("return pcall(function() return 1, 2 end)", (True, 1, 2)),
    ("return pcall(error, 'boom')", (False, b'boom')),
    ("local ok, e = pcall(function() local x = nil return x.y end) return ok, e",
     (False, b"attempt to index local 'x' (a nil value)")),
    ("local ok, e = pcall(error, {code = 7}) return ok, e.code", (False, 7)),
    ("return rawget({a = 1}, 'a'), rawequal('a', 'a'), next({}), _G.tostring == tostring, _VERSION",
     (1, True, None, True, b'Lua 5.1')),
    ("local f = loadstring('return 1 + 1') return f(), (loadstring('return +'))", (2, None)),
    # Lua patterns (beyond the required subset)
    ("return string.find('hello world', 'wor')", (7, 9)),
    ("return string.find('a.b', '.', 1, true)", (2, 2)),
    ("return string.find('abc', 'x'), string.find('hello', 'l+')", (None, 3, 4)),
    ("return string.find('hello', 'l', 4), string.find('hello', 'xl', 1, true), string.find('hello', '(l)(l)')",
     (4, None, 3, 4, b'l', b'l')),
    ("return string.match('key:123', '(%a+):(%d+)')", (b'key', b'123')),
    ("return string.match('  x ', '^%s*(.-)%s*$'), string.match('abc', '^b'), string.match('abc', 'b', 3)", (b'x', None, None)),
    ("return string.gsub('hello world', 'o', '0')", (b'hell0 w0rld', 2)),
    ("return string.gsub('abc', '%w', '%0%0', 2)", (b'aabbc', 2)),
    ("return string.gsub('x y', '(%w) (%w)', '%2 %1')", (b'y x', 1)),
    ("return string.gsub('hello', '^h', 'J'), string.gsub('a.b', '%.', '%%')", (b'Jello', b'a%b', 1)),
    ("return (string.gsub('a b', '%w', {a = '1'})), (string.gsub('ab', '.', function(c) return c:upper() end)), "
     "(string.gsub('abc', '', '-'))", (b'1 b', b'AB', b'-a-b-c-')),
    ("local t = {} for k, v in string.gmatch('a=1, b=2', '(%w+)=(%w+)') do t[#t + 1] = k .. v end return table.concat(t, ';')",
     b'a1;b2'),
    ("return string.match('f(a(b)c)d', '%b()'), string.match('THE (quick) fox', '%f[%a]%a+'), string.find('abc', '()b()')",
     (b'(a(b)c)', b'THE', 2, 2, 2, 3)),
    ("return string.match('[x]', '%[(.-)%]'), string.match('aXb', '[^%l]'), string.match('2024-01-02', '(%d+)-(%d+)-(%d+)')",
     (b'x', b'X', b'2024', b'01', b'02')),
    ("return string.match('aab', '(a*)%1b'), string.match('x=1', '(%w+)=(%w*)'), string.match('abc', '[a-b]+'), string.match('a-b', '[%-]')",
     (b'a', b'x', b'ab', b'-')),
]


@pytest.mark.parametrize('script,expected', CASES, ids=[str(i) for i in range(len(CASES))])
def test_script(script, expected):
    assert run(script) == expected


# (script, substring of LuaError message)
ERRORS = [
    ("return nil + 1", "attempt to perform arithmetic on a nil value"),
    ("local t = {} return t + 1", "attempt to perform arithmetic on local 't' (a table value)"),
    ("return 'abc' + 1", "attempt to perform arithmetic on a string value"),
    ("return undefinedvar.x", "attempt to index global 'undefinedvar' (a nil value)"),
    ("local t = {} return t.a.b", "attempt to index field 'a' (a nil value)"),
    ("nosuchfn()", "attempt to call global 'nosuchfn' (a nil value)"),
    ("local t = {} t.f()", "attempt to call field 'f' (a nil value)"),
    ("local x = 5 x()", "attempt to call local 'x' (a number value)"),
    ("return (nil)()", "attempt to call a nil value"),
    ("return 1 < 'a'", "attempt to compare number with string"),
    ("return {} < {}", "attempt to compare two table values"),
    ("return nil > 1", "attempt to compare number with nil"),
    ("return 'a' .. nil", "attempt to concatenate a nil value"),
    ("return 'a' .. {}", "attempt to concatenate a table value"),
    ("return #nil", "attempt to get length of a nil value"),
    ("return -{}", "attempt to perform arithmetic on a table value"),
    ("local t = {} t[nil] = 1", "table index is nil"),
    ("local t = {} t[0/0] = 1", "table index is NaN"),
    ("local n = nil n.x = 1", "attempt to index local 'n' (a nil value)"),
    ("error('my message')", "my message"),
    ("error({})", "table: "),
    ("assert(false)", "assertion failed!"),
    ("assert(nil, 'custom')", "custom"),
    ("for i = 1, 'x' do end", "'for' limit must be a number"),
    ("string.rep()", "bad argument #1 to 'rep' (string expected, got no value)"),
    ("table.concat({{}})", "invalid value (at index 1) in table for 'concat'"),
    ("return setmetatable({}, {})", "attempt to call global 'setmetatable' (a nil value)"),
    ("local function f() return f() + 1 end return f()", "stack overflow"),
    # syntax errors
    ("return '", "unfinished string"),
    ("return [[abc", "unfinished long string"),
    ("x = = 1", "unexpected symbol near '='"),
    ("if x then", "'end' expected near '<eof>'"),
    ("local 1 = 2", "'<name>' expected near '1'"),
    ("return 1 2", "'<eof>' expected near '2'"),
    ("x = 3x", "malformed number near '3x'"),
    ("local function f() return ... end", "cannot use '...' outside a vararg function"),
    ("return 1 +", "unexpected symbol near '<eof>'"),
    ("for i = 1 do end", "',' expected near 'do'"),
    ("x = }", "unexpected symbol near '}'"),
    ("f(", "unexpected symbol near '<eof>'"),
    ("return '\\300'", "escape sequence too large"),
    ("a.b:c = 1", "function arguments expected near '='"),
    ("\n\nreturn @", '[string "<python>"]:3: unexpected symbol near \'@\''),
]


@pytest.mark.parametrize('script,msg', ERRORS, ids=[str(i) for i in range(len(ERRORS))])
def test_error(script, msg):
    with pytest.raises(LuaError) as ei:
        run(script)
    assert msg in str(ei.value)


def test_syntax_error_is_luaerror_subclass():
    with pytest.raises(lupa.LuaSyntaxError):
        run("return '")
    assert issubclass(lupa.LuaSyntaxError, LuaError)


def test_lua_type_and_table_api():
    rt = new_rt()
    t = rt.execute(b"return {1, 2, nil, 4, ok = 'x', [true] = 'b', sub = {7}}")
    assert lua_type(t) == 'table'
    assert lua_type(rt.eval('function() end')) == 'function'
    assert lua_type(rt.eval('tostring')) == 'function'
    for plain in (1, 1.5, b'x', True, None, 'str', [1], {}):
        assert lua_type(plain) is None
    assert 1 in t and 2 in t and 3 not in t and 4 in t and 5 not in t
    assert b'ok' in t and b'err' not in t and True in t and False not in t
    assert t[1] == 1 and type(t[1]) is int and t[3] is None and t[b'ok'] == b'x' and t[True] == b'b'
    assert len(t) in (2, 4)
    assert lua_type(t[b'sub']) == 'table' and t[b'sub'][1] == 7
    assert sorted(map(repr, t.keys())) == sorted(map(repr, [1, 2, 4, b'ok', True, b'sub']))
    assert dict(t.items())[b'ok'] == b'x' and b'x' in list(t.values())
    t[b'new'] = 3
    t[5] = b'five'
    assert t[b'new'] == 3 and t[5] == b'five'
    t[b'new'] = None
    assert b'new' not in t
    del t[5]
    assert 5 not in t


def test_table_from_and_value_mapping():
    rt = new_rt()
    lst = rt.table_from([b'a', 2, 3.5, True, 'pystr'])
    assert [lst[i] for i in range(1, 6)] == [b'a', 2, 3.5, True, 'pystr'] and len(lst) == 5
    assert type(lst[2]) is int and type(lst[3]) is float and type(lst[5]) is str
    d = rt.table_from({b'ok': b'v', b'n': 1})
    assert d[b'ok'] == b'v' and b'ok' in d and len(d) == 0
    nested = rt.table_from([[1, 2]])  # not recursive, like lupa: inner list stays a Python object
    assert nested[1] == [1, 2] and lua_type(nested[1]) is None
    assert len(rt.table_from([])) == 0 and 1 not in rt.table_from([])
    f = rt.eval('function(t, s) return type(t), #t, t[1], type(s), s end')
    assert f(lst, 'opaque') == (b'table', 5, b'a', b'userdata', 'opaque')
    ident = rt.eval('function(...) return ... end')
    assert ident(3.0, 2.5, b'b', None, False, 'u') == (3, 2.5, b'b', None, False, 'u')
    assert type(ident(3.0)) is int and ident(2 ** 53) == 2 ** 53 and ident() is None
    assert ident(d) is d


def test_python_callables_from_lua():
    rt = new_rt()
    seen = []

    def cb(*args):
        seen.append(args)
        return rt.table_from([b'r', len(args)])

    def multi():
        return (1, b'two', None)

    class Boom(Exception):
        pass

    def boom():
        raise Boom('x')

    f = rt.eval('function(cb, multi) local t = cb("s", 1, 2.5, true, nil, {9}) local a, b, c = multi() '
                'return t[1], t[2], a, b, c end')
    assert f(cb, multi) == (b'r', 6, 1, b'two', None)
    args = seen[0]
    assert args[:5] == (b's', 1, 2.5, True, None) and type(args[1]) is int and lua_type(args[5]) == 'table'
    with pytest.raises(Boom):
        rt.eval('function(f) f() end')(boom)
    with pytest.raises(Boom):  # also through nested Lua frames and loops
        rt.eval('function(f) for i = 1, 2 do (function() f() end)() end end')(boom)
    ok, err = rt.eval('function(f) return pcall(f) end')(boom)  # lupa: pcall sees the exception object
    assert ok is False and isinstance(err, Boom)


def test_globals_and_bootstrap_like_fakeredis():
    import functools
    rt = new_rt()
    set_globals = rt.eval("""
        function(keys, argv, redis_call, redis_pcall, redis_log, redis_log_levels)
            redis = {}
            redis.call = redis_call
            redis.pcall = redis_pcall
            redis.log = redis_log
            for level, pylevel in python.iterex(redis_log_levels.items()) do
                redis[level] = pylevel
            end
            redis.error_reply = function(msg) return {err=msg} end
            redis.status_reply = function(msg) return {ok=msg} end
            KEYS = keys
            ARGV = argv
        end
        """)
    before = set(rt.globals().keys())
    assert {b'string', b'table', b'math', b'tostring', b'pairs', b'python', b'_G'} <= before
    assert all(type(k) is bytes for k in before)
    calls = []
    call = functools.partial(lambda tag, *a: calls.append((tag,) + a) or b'OK', 'call')
    set_globals(rt.table_from([b'k1']), rt.table_from([b'a1', b'a2']), call, call, call,
                as_attrgetter({b'LOG_DEBUG': 0, b'LOG_WARNING': 3}))
    after = set(rt.globals().keys())
    assert after - before == {b'redis', b'KEYS', b'ARGV'}
    assert rt.execute(b"return redis.call('set', KEYS[1], ARGV[2], 5, 2.5)") == b'OK'
    assert calls == [('call', b'set', b'k1', b'a2', 5, 2.5)]
    assert rt.execute(b"return redis.LOG_WARNING, redis.LOG_DEBUG, #ARGV") == (3, 0, 2)
    r = rt.execute(b"return redis.error_reply('E')")
    assert b'err' in r and r[b'err'] == b'E' and b'ok' not in r
    assert set(rt.globals().keys()) == after
    rt.execute(b"local x = 1")
    assert set(rt.globals().keys()) == after
    rt.execute(b"leak = 1")
    assert set(rt.globals().keys()) - after == {b'leak'}
    rt.execute(b"leak = nil")
    assert set(rt.globals().keys()) == after


def test_multiple_return_values_and_switch():
    assert run("return 1, 2") == (1, 2)  # real lupa returns a tuple
    rt = LuaRuntime(encoding=None, unpack_returned_tuples=True, multi_return_first_only=True)
    assert rt.execute(b"return 1, 2") == 1


def test_encoding_mode_and_determinism():
    rt = LuaRuntime()  # encoding='UTF-8': strings come back as str
    assert rt.eval("'hé' .. 1") == 'hé1'
    assert rt.eval('function(s) return #s, s end')('hé') == (3, 'hé')
    assert rt.globals().math.floor(2.5) == 2
    assert run("return tostring({}), math.random(100), math.random()") == run("return tostring({}), math.random(100), math.random()")


def test_runtimes_are_isolated():
    a, b = new_rt(), new_rt()
    a.execute(b"shared = 1")
    assert b.execute(b"return shared") is None and a.execute(b"return shared") == 1


# ---------------------------------------------------------------------------------------------
# fakeredis end-to-end
# ---------------------------------------------------------------------------------------------
import redis  # noqa: E402
import fakeredis  # noqa: E402


@pytest.fixture
def r():
    return fakeredis.FakeStrictRedis()


def test_fr_basic(r):
    assert r.eval("return redis.call('set', KEYS[1], ARGV[1])", 1, 'k', 'v') == b'OK'
    assert r.eval("return redis.call('get', KEYS[1])", 1, 'k') == b'v'
    assert r.eval("return {1, 2, 3.7, 'x', {5}}", 0) == [1, 2, 3, b'x', [5]]
    assert r.eval("return {1, nil, 3}", 0) == [1]
    assert r.eval("return true", 0) == 1
    assert r.eval("return false", 0) is None
    assert r.eval("return nil", 0) is None
    assert r.eval("return 3.9", 0) == 3 and r.eval("return -3.9", 0) == -3
    assert r.eval("return redis.status_reply('PONG')", 0) == b'PONG'
    assert r.eval("return {KEYS[1], KEYS[2], ARGV[1], ARGV[2]}", 2, 'a', 'b', 'c', 'd') == [b'a', b'b', b'c', b'd']
    assert r.eval(b"return '\xff\x00\x80'", 0) == b'\xff\x00\x80'


def test_fr_errors(r):
    with pytest.raises(redis.ResponseError) as ei:
        r.eval("return redis.error_reply('ERR my')", 0)
    assert str(ei.value) == 'my'
    with pytest.raises(redis.ResponseError, match='(?i)unknown command'):
        r.eval("return redis.pcall('nosuch')", 0)
    with pytest.raises(redis.ResponseError, match='(?i)unknown command'):
        r.eval("return redis.call('nosuch')", 0)
    with pytest.raises(redis.ResponseError, match='Script attempted to set global variables: x'):
        r.eval("x = 1 return x", 0)
    with pytest.raises(redis.ResponseError, match='Script attempted to set global variables'):
        r.eval("x = 1 redis.call('set', 'a', 'b')", 0)
    assert r.get('a') is None
    with pytest.raises(redis.ResponseError, match='Error running script.*CRASH'):
        r.eval("error('CRASH')", 0)
    with pytest.raises(redis.ResponseError, match='unfinished string'):
        r.eval("return '", 0)
    with pytest.raises(redis.ResponseError, match='arithmetic on a nil value'):
        r.eval("return nil + 1", 0)
    with pytest.raises(redis.ResponseError, match='command arguments must be strings or integers'):
        r.eval("return redis.call('set', KEYS[1], true)", 1, 'k')
    r.set('str', 'x')
    with pytest.raises(redis.ResponseError, match='WRONGTYPE'):
        r.eval("return redis.call('lpush', 'str', 1)", 0)
    assert r.eval("local e = redis.pcall('lpush', 'str', 1) return type(e) == 'table' and e.err ~= nil", 0) == 1


def test_fr_types_and_conversions(r):
    r.rpush('l', 'a', 'b', 'c')
    assert r.eval("local t = redis.call('lrange', KEYS[1], 0, -1) return #t", 1, 'l') == 3
    assert r.eval("local t = redis.call('lrange', KEYS[1], 0, -1) return t[#t] .. t[1]", 1, 'l') == b'ca'
    assert r.eval("return redis.call('incrby', KEYS[1], 2.0)", 1, 'n') == 2
    assert r.eval("return redis.call('incr', KEYS[1]) + 1", 1, 'n') == 4
    assert r.eval("return tonumber(ARGV[1]) + 1", 0, '41') == 42
    assert r.eval("return ARGV[1] + 1", 0, '41') == 42
    assert r.eval("return redis.call('get', 'missing') == false", 0) == 1
    assert r.eval("return type(redis.call('get', 'n'))", 0) == b'string'
    assert r.eval("return type(redis.call('llen', 'l'))", 0) == b'number'
    assert r.eval("local v = redis.call('set', 'a', 1) return {type(v), v.ok}", 0) == [b'table', b'OK']
    assert r.eval("return redis.call('mget', 'a', 'missing', 'n')", 0) == [b'1', None, b'3']
    r.hset('h', mapping={'f1': 'v1', 'f2': 'v2'})
    assert r.eval("""
        local flat = redis.call('hgetall', KEYS[1])
        local out = {}
        for i = 1, #flat, 2 do out[#out + 1] = flat[i] .. '=' .. flat[i + 1] end
        table.sort(out)
        return out""", 1, 'h') == [b'f1=v1', b'f2=v2']
    assert r.eval("return {ok = 'fine'}", 0) == b'fine'
    assert r.eval("return {{ok = 'nested'}, {1, {2, {3}}}}", 0) == [b'nested', [1, [2, [3]]]]


def test_fr_control_flow_scripts(r):
    script = """
        local key, limit = KEYS[1], tonumber(ARGV[1])
        local n = redis.call('incr', key)
        if n == 1 then
            redis.call('expire', key, 60)
        end
        if n > limit then
            return 'over:' .. n
        elseif n == limit then
            return 'at:' .. n
        else
            return 'under:' .. n
        end"""
    assert [r.eval(script, 1, 'rate', 2) for _ in range(3)] == [b'under:1', b'at:2', b'over:3']
    assert 0 < r.ttl('rate') <= 60
    assert r.eval("""
        for i = 1, tonumber(ARGV[1]) do redis.call('rpush', KEYS[1], 'item' .. i) end
        local n, total = 0, 0
        while true do
            local v = redis.call('lpop', KEYS[1])
            if not v then break end
            n = n + 1
            total = total + #v
        end
        return {n, total, redis.call('exists', KEYS[1])}""", 1, 'q', 12) == [12, 5 * 9 + 6 * 3, 0]
    r.zadd('z', {'a': 1, 'b': 2, 'c': 3})
    assert r.eval("""
        local members = redis.call('zrange', KEYS[1], 0, -1, 'withscores')
        local sum, names = 0, {}
        for i, v in ipairs(members) do
            if i % 2 == 0 then sum = sum + tonumber(v) else table.insert(names, v) end
        end
        return {sum, table.concat(names, ','), string.format('%d/%s', #names, string.upper(names[1]))}""",
                  1, 'z') == [6, b'a,b,c', b'3/A']
    assert r.eval("""
        local function cas(key, old, new)
            local cur = redis.call('get', key)
            if cur == old then redis.call('set', key, new) return true end
            return false
        end
        redis.call('set', KEYS[1], 'v1')
        return {cas(KEYS[1], 'v0', 'x') and 1 or 0, cas(KEYS[1], 'v1', 'v2') and 1 or 0, redis.call('get', KEYS[1])}""",
                  1, 'cas') == [0, 1, b'v2']


def test_fr_script_commands(r):
    src = "return {KEYS[1], ARGV[1], redis.call('incr', KEYS[1])}"
    sha = r.script_load(src)
    assert isinstance(sha, str) and len(sha) == 40
    assert r.script_exists(sha, '0' * 40) == [True, False]
    assert r.evalsha(sha, 1, 'cnt', 'arg') == [b'cnt', b'arg', 1]
    assert r.evalsha(sha, 1, 'cnt', 'arg') == [b'cnt', b'arg', 2]
    with pytest.raises(redis.exceptions.NoScriptError):
        r.evalsha('f' * 40, 0)
    script = r.register_script("return ARGV[1] .. ':' .. redis.call('incrby', KEYS[1], ARGV[2])")
    assert script(keys=['cnt'], args=['x', 10]) == b'x:12'
    pipe = r.pipeline()
    script(keys=['cnt'], args=['y', 1], client=pipe)
    assert pipe.execute() == [b'y:13']
    r.script_flush()
    assert r.script_exists(sha) == [False]
    assert script(keys=['cnt'], args=['z', 1]) == b'z:14'  # re-loaded transparently by redis-py


def test_fr_log_and_multi_return(r, caplog):
    import logging
    with caplog.at_level(logging.DEBUG):
        assert r.eval("redis.log(redis.LOG_WARNING, 'w', 1, 2.5) return 1", 0) == 1
    assert any(rec.getMessage() == 'w 1 2.5' for rec in caplog.records)
    with pytest.raises(redis.ResponseError):
        r.eval("redis.log(99, 'bad level')", 0)
    # `return 1, 2`: like real lupa the stand-in hands fakeredis a tuple, which fakeredis does not handle
    with pytest.raises(Exception):
        r.eval("return 1, 2", 0)
    lupa.MULTI_RETURN_FIRST_ONLY = True
    try:
        assert r.eval("return 1, 2", 0) == 1
    finally:
        lupa.MULTI_RETURN_FIRST_ONLY = False


if __name__ == '__main__':
    sys.exit(pytest.main([__file__, '-q', '-p', 'no:cacheprovider'] + sys.argv[1:]))
