"""Pure-Python stand-in for the ``lupa`` package (Lua 5.1 subset, tree-walking interpreter).

Implements the part of lupa's API that fakeredis' EVAL uses: ``LuaRuntime`` (eval, execute,
globals, table, table_from), ``LuaError``, ``lua_type``, ``as_attrgetter``.  Lua numbers are
Python floats internally and become ``int`` when integral on the way out; Lua strings are
``bytes`` (``encoding=None``) or ``str`` (when an encoding is given).  Not supported:
metatables, coroutines, goto, os/io/debug libraries.
"""
import functools
import math
import random as _random
import re
import string as _st
import sys

__all__ = ['LuaRuntime', 'LuaError', 'LuaSyntaxError', 'LuaTable', 'LuaFunction', 'lua_type',
           'as_attrgetter', 'as_itemgetter', 'LUA_VERSION']
__version__ = '0.0+standin'
LUA_VERSION = (5, 1)
_CHUNK = '[string "<python>"]'
_RECLIMIT = 7000
# Real lupa returns a tuple when a chunk/function returns several values.  Set to True to make
# eval/execute/function calls hand only the first value back to Python (Redis' own EVAL semantics).
MULTI_RETURN_FIRST_ONLY = False


class LuaError(Exception):
    """Lua syntax/runtime error.  ``lua_value`` holds the Lua error value (for pcall)."""

    def __init__(self, msg='', value=None):
        if isinstance(msg, bytes):
            value = msg if value is None else value
            try:
                msg = msg.decode('utf-8')
            except UnicodeDecodeError:
                msg = msg.decode('latin-1')
        Exception.__init__(self, msg)
        self.lua_value = msg.encode('utf-8') if value is None else value


class LuaSyntaxError(LuaError):
    pass


# ---------------------------------------------------------------------------------------------
# Lexer
# ---------------------------------------------------------------------------------------------
_KW = frozenset('and break do else elseif end false for function if in local nil not or repeat '
                'return then true until while'.split())
_TOK = re.compile(r'(?P<name>[A-Za-z_][A-Za-z_0-9]*)'
                  r'|(?P<num>0[xX][0-9a-fA-F]+|(?:[0-9]+\.?[0-9]*|\.[0-9]+)(?:[eE][+-]?[0-9]+)?)'
                  r'|(?P<op>\.\.\.|\.\.|==|~=|<=|>=|[-+*/%^#<>=(){}\[\];:,.])')
_LONG = re.compile(r'\[(=*)\[')
_ESC = {'a': '\a', 'b': '\b', 'f': '\f', 'n': '\n', 'r': '\r', 't': '\t', 'v': '\v',
        '\\': '\\', '"': '"', "'": "'"}


def _syntax(line, msg, near):
    raise LuaSyntaxError("%s:%d: %s near '%s'" % (_CHUNK, line, msg, near))


def _lex(src):
    """Tokens are (kind, value, line, raw); kind is 'name', 'num', 'str', 'eof' or the keyword/operator."""
    toks, i, n, line = [], 0, len(src), 1
    while i < n:
        c = src[i]
        if c == '\n':
            line += 1
            i += 1
            continue
        if c in ' \t\r\f\v':
            i += 1
            continue
        m = None
        if c == '-' and src.startswith('--', i):
            i += 2
            m = _LONG.match(src, i)
            if not m:
                j = src.find('\n', i)
                i = n if j < 0 else j
                continue
        elif c == '[':
            m = _LONG.match(src, i)
        if m:  # long string or long comment
            close = ']' + m.group(1) + ']'
            j = src.find(close, m.end())
            if j < 0:
                _syntax(line, 'unfinished long %s' % ('string' if c == '[' else 'comment'), '<eof>')
            body = src[m.end():j]
            if c == '[':
                text = body[2:] if body.startswith('\r\n') else body[1:] if body[:1] in ('\n', '\r') else body
                toks.append(('str', text.encode('latin-1'), line, src[i:j + len(close)]))
            line += body.count('\n')
            i = j + len(close)
            continue
        if c == '"' or c == "'":
            j, buf = i + 1, []
            while True:
                if j >= n:
                    _syntax(line, 'unfinished string', '<eof>')
                ch = src[j]
                if ch == c:
                    break
                if ch == '\n':
                    _syntax(line, 'unfinished string', src[i:j])
                if ch != '\\':
                    buf.append(ch)
                    j += 1
                    continue
                j += 1
                e = src[j] if j < n else ''
                if e in _ESC:
                    buf.append(_ESC[e])
                    j += 1
                elif e == '\n' or e == '\r':
                    buf.append('\n')
                    line += 1
                    j += 2 if src[j:j + 2] in ('\r\n', '\n\r') else 1
                elif e == 'x':
                    h = src[j + 1:j + 3]
                    if not re.fullmatch('[0-9a-fA-F]{2}', h):
                        _syntax(line, 'hexadecimal digit expected', src[i:j + 3])
                    buf.append(chr(int(h, 16)))
                    j += 3
                elif e == 'z':
                    j += 1
                    while j < n and src[j] in ' \t\r\n\f\v':
                        line += src[j] == '\n'
                        j += 1
                elif '0' <= e <= '9':
                    d = re.match('[0-9]{1,3}', src[j:j + 3]).group()
                    if int(d) > 255:
                        _syntax(line, 'escape sequence too large', src[i:j + len(d)])
                    buf.append(chr(int(d)))
                    j += len(d)
                elif e:
                    buf.append(e)
                    j += 1
            toks.append(('str', ''.join(buf).encode('latin-1'), line, src[i:j + 1]))
            i = j + 1
            continue
        m = _TOK.match(src, i)
        if not m:
            _syntax(line, 'unexpected symbol', c)
        raw = m.group()
        i = m.end()
        if m.lastgroup == 'name':
            toks.append((raw, raw, line, raw) if raw in _KW else ('name', raw, line, raw))
        elif m.lastgroup == 'num':
            m2 = re.compile('[A-Za-z_0-9.]+').match(src, i)
            if m2:
                _syntax(line, 'malformed number', raw + m2.group())
            toks.append(('num', float(int(raw, 16)) if raw[:2] in ('0x', '0X') else float(raw), line, raw))
        else:
            toks.append((raw, raw, line, raw))
    toks.append(('eof', None, line, '<eof>'))
    return toks


# ---------------------------------------------------------------------------------------------
# Parser -> tuple AST
# ---------------------------------------------------------------------------------------------
_BINPRI = {'or': (1, 1), 'and': (2, 2), '<': (3, 3), '>': (3, 3), '<=': (3, 3), '>=': (3, 3),
           '~=': (3, 3), '==': (3, 3), '..': (5, 4), '+': (6, 6), '-': (6, 6), '*': (7, 7),
           '/': (7, 7), '%': (7, 7), '^': (10, 9)}
_BLOCK_END = frozenset(['end', 'else', 'elseif', 'until', 'eof'])
_MULTI = frozenset(['call', 'method', 'vararg'])


class _Parser:
    def __init__(self, src):
        self.toks = _lex(src)
        self.i = 0
        self.k = self.toks[0][0]
        self.va = [True]  # is the enclosing function vararg?

    def err(self, msg):
        t = self.toks[self.i]
        _syntax(t[2], msg, t[3])

    def next(self):
        t = self.toks[self.i]
        self.i += 1
        self.k = self.toks[self.i][0]
        return t

    def accept(self, k):
        if self.k == k:
            self.next()
            return True
        return False

    def expect(self, k, what=None):
        if self.k != k:
            self.err("'%s' expected" % (what or k))
        return self.next()

    def name(self):
        return self.expect('name', '<name>')[1]

    def chunk(self):
        body = self.block()
        if self.k != 'eof':
            self.err("'<eof>' expected")
        return body

    def block(self):
        out = []
        while self.k not in _BLOCK_END:
            if self.k == 'return':
                self.next()
                ex = [] if self.k in _BLOCK_END or self.k == ';' else self.explist()
                self.accept(';')
                if self.k not in _BLOCK_END:
                    self.err("'<eof>' expected")
                out.append(('return', ex))
                break
            st = self.stat()
            if st is not None:
                out.append(st)
            self.accept(';')
        return out

    def stat(self):
        k, line = self.k, self.toks[self.i][2]
        if k == ';':
            return None
        if k == 'if':
            self.next()
            clauses, other = [], None
            while True:
                cond = self.expr()
                self.expect('then')
                clauses.append((cond, self.block()))
                if self.accept('elseif'):
                    continue
                if self.accept('else'):
                    other = self.block()
                self.expect('end')
                return ('if', clauses, other)
        if k == 'while':
            self.next()
            cond = self.expr()
            self.expect('do')
            body = self.block()
            self.expect('end')
            return ('while', cond, body)
        if k == 'do':
            self.next()
            body = self.block()
            self.expect('end')
            return ('do', body)
        if k == 'for':
            self.next()
            names = [self.name()]
            if self.accept('='):
                a = self.expr()
                self.expect(',')
                b = self.expr()
                step = self.expr() if self.accept(',') else None
                self.expect('do')
                body = self.block()
                self.expect('end')
                return ('fornum', names[0], a, b, step, body)
            while self.accept(','):
                names.append(self.name())
            self.expect('in')
            ex = self.explist()
            self.expect('do')
            body = self.block()
            self.expect('end')
            return ('forin', names, ex, body)
        if k == 'repeat':
            self.next()
            body = self.block()
            self.expect('until')
            return ('repeat', body, self.expr())
        if k == 'function':
            self.next()
            n = self.name()
            target, full, is_method = ('name', n, n.encode('latin-1')), n, False
            while self.k in ('.', ':'):
                is_method = self.next()[0] == ':'
                n = self.name()
                full += ('.', ':')[is_method] + n
                target = ('index', target, ('const', n.encode('latin-1')), line)
                if is_method:
                    break
            return ('assign', [target], [self.funcbody(full, is_method)])
        if k == 'local':
            self.next()
            if self.accept('function'):
                n = self.name()
                return ('localfunc', n, self.funcbody(n))
            names = [self.name()]
            while self.accept(','):
                names.append(self.name())
            return ('local', names, self.explist() if self.accept('=') else [])
        if k == 'break':
            self.next()
            return ('break',)
        e = self.suffixed()
        if e[0] in ('call', 'method'):
            return ('callstat', e)
        targets = [e]
        while self.accept(','):
            targets.append(self.suffixed())
        for t in targets:
            if t[0] not in ('name', 'index'):
                self.err('syntax error')
        self.expect('=')
        return ('assign', targets, self.explist())

    def explist(self):
        out = [self.expr()]
        while self.accept(','):
            out.append(self.expr())
        return out

    def funcbody(self, name='anonymous', is_method=False):
        self.expect('(')
        params, vararg = (['self'] if is_method else []), False
        while self.k != ')':
            if self.accept('...'):
                vararg = True
                break
            params.append(self.name())
            if not self.accept(','):
                break
        self.expect(')')
        self.va.append(vararg)
        body = self.block()
        self.va.pop()
        self.expect('end')
        return ('func', params, vararg, body, name)

    def expr(self, limit=0):
        k = self.k
        if k == 'not' or k == '-' or k == '#':
            self.next()
            e = self.expr(8)
            e = ('const', -e[1]) if k == '-' and e[0] == 'const' and type(e[1]) is float else ('un', k, e)
        else:
            e = self.simple()
        while True:
            op = self.k
            p = _BINPRI.get(op)
            if p is None or p[0] <= limit:
                return e
            self.next()
            r = self.expr(p[1])
            e = (op, e, r) if op in ('and', 'or') else ('bin', op, e, r)

    def simple(self):
        k = self.k
        if k == 'num' or k == 'str':
            return ('const', self.next()[1])
        if k in ('nil', 'true', 'false'):
            self.next()
            return ('const', {'nil': None, 'true': True, 'false': False}[k])
        if k == '...':
            if not self.va[-1]:
                self.err("cannot use '...' outside a vararg function")
            self.next()
            return ('vararg',)
        if k == '{':
            return self.table()
        if k == 'function':
            self.next()
            return self.funcbody()
        return self.suffixed()

    def table(self):
        self.expect('{')
        items = []
        while self.k != '}':
            if self.k == '[':
                self.next()
                key = self.expr()
                self.expect(']')
                self.expect('=')
                items.append((key, self.expr()))
            elif self.k == 'name' and self.toks[self.i + 1][0] == '=':
                key = ('const', self.next()[1].encode('latin-1'))
                self.next()
                items.append((key, self.expr()))
            else:
                items.append((None, self.expr()))
            if not (self.accept(',') or self.accept(';')):
                break
        self.expect('}')
        return ('table', items)

    def suffixed(self):
        line = self.toks[self.i][2]
        if self.k == 'name':
            n = self.next()[1]
            e = ('name', n, n.encode('latin-1'))
        elif self.accept('('):
            e = ('paren', self.expr())
            self.expect(')')
        else:
            self.err('unexpected symbol')
        while True:
            k = self.k
            if k == '.':
                self.next()
                e = ('index', e, ('const', self.name().encode('latin-1')), line)
            elif k == '[':
                self.next()
                e = ('index', e, self.expr(), line)
                self.expect(']')
            elif k == ':':
                self.next()
                n = self.name().encode('latin-1')
                e = ('method', e, n, self.args(), line)
            elif k == '(' or k == 'str' or k == '{':
                e = ('call', e, self.args(), line)
            else:
                return e

    def args(self):
        if self.k == 'str':
            return [('const', self.next()[1])]
        if self.k == '{':
            return [self.table()]
        if self.k != '(':
            self.err('function arguments expected')
        self.next()
        out = [] if self.k == ')' else self.explist()
        self.expect(')')
        return out


# ---------------------------------------------------------------------------------------------
# Values
# ---------------------------------------------------------------------------------------------
class _Key:  # stand-ins for boolean table keys (True == 1 in Python dicts)
    def __init__(self, v):
        self.v = v


_BKEY = {True: _Key(True), False: _Key(False)}
_BREAK = object()


class _PyWrap:
    """Result of as_attrgetter/as_itemgetter: Python object with explicit Lua indexing protocol."""

    def __init__(self, obj, attr):
        self.obj, self.attr = obj, attr

    def __getattr__(self, name):
        return getattr(self.obj, name)


def as_attrgetter(obj):
    return _PyWrap(obj.obj if isinstance(obj, _PyWrap) else obj, True)


def as_itemgetter(obj):
    return _PyWrap(obj.obj if isinstance(obj, _PyWrap) else obj, False)


class _LuaObject:
    pass


class LuaTable(_LuaObject):
    """Lua table.  ``d`` maps Lua keys (float/bytes/_Key/objects) to non-nil Lua values."""

    def __init__(self, rt):
        self._rt = rt
        self.d = {}
        self.n = 0  # border hint
        rt._ids += 1
        self.id = rt._ids

    def length(self):
        d, n = self.d, self.n
        while n > 0 and n not in d:
            n -= 1
        while n + 1 in d:
            n += 1
        self.n = n
        return n

    def _k(self, key):
        key = self._rt._p2l(key)
        return _BKEY[key] if type(key) is bool else key

    def _keys(self):
        return [k.v if type(k) is _Key else k for k in self.d]

    def __getitem__(self, key):
        return self._rt._l2p(self.d.get(self._k(key)))

    def __setitem__(self, key, value):
        self._rt._setindex(self, self._rt._p2l(key), self._rt._p2l(value))

    def __delitem__(self, key):
        self.d.pop(self._k(key), None)

    def __contains__(self, key):
        return self._k(key) in self.d

    def __len__(self):
        return self.length()

    def __iter__(self):
        return self.keys()

    def keys(self):
        return iter([self._rt._l2p(k) for k in self._keys()])

    def values(self):
        return iter([self._rt._l2p(v) for v in list(self.d.values())])

    def items(self):
        l2p = self._rt._l2p
        return iter([(l2p(k), l2p(v)) for k, v in zip(self._keys(), list(self.d.values()))])

    def __getattr__(self, name):
        if name.startswith('_'):
            raise AttributeError(name)
        return self[name if self._rt.encoding else name.encode('utf-8')]

    def __repr__(self):
        return '<Lua table at 0x%08x>' % self.id


class _LuaCallable(_LuaObject):
    def __call__(self, *args):  # call from Python
        rt = self._rt
        return rt._run(lambda: self.call([rt._p2l(a) for a in args]))

    def __repr__(self):
        return '<Lua function at 0x%08x>' % self.id


class _Scope:
    __slots__ = ('v', 'p')

    def __init__(self, p):
        self.v = {}
        self.p = p


class LuaFunction(_LuaCallable):
    def __init__(self, rt, node, env):
        self._rt, self.env = rt, env
        _, self.params, self.vararg, self.body, self.name = node
        rt._ids += 1
        self.id = rt._ids

    def call(self, args):
        env = _Scope(self.env)
        v, n = env.v, len(args)
        for i, p in enumerate(self.params):
            v[p] = args[i] if i < n else None
        if self.vararg:
            v['...'] = args[len(self.params):]
        r = self._rt._block(self.body, env)
        return r if type(r) is list else []


class _Builtin(_LuaCallable):
    """Python-implemented Lua function: takes Lua values, returns one Lua value or a list of them."""

    def __init__(self, rt, fn, name):
        self._rt, self.fn, self.name = rt, fn, name
        code = fn.__code__
        self.nmax = None if code.co_flags & 4 else code.co_argcount
        rt._ids += 1
        self.id = rt._ids

    def call(self, args):
        r = self.fn(*args[:self.nmax])
        if type(r) is list:
            return r
        return [float(r) if type(r) is int else r]


def lua_type(obj):
    if isinstance(obj, LuaTable):
        return 'table'
    if isinstance(obj, _LuaCallable):
        return 'function'
    return None


def _type(v):
    if v is None:
        return 'nil'
    t = type(v)
    if t is float or t is int:
        return 'number'
    if t is bytes:
        return 'string'
    if t is bool:
        return 'boolean'
    if t is LuaTable:
        return 'table'
    return 'function' if isinstance(v, _LuaCallable) else 'userdata'


def _numstr(v):
    return ('%.14g' % v).encode()


_NUMRE = re.compile(rb'\s*([-+]?)(0[xX][0-9a-fA-F]+|(?:[0-9]+\.?[0-9]*|\.[0-9]+)(?:[eE][-+]?[0-9]+)?)\s*\Z')


def _tonum(v):
    if type(v) is float:
        return v
    if type(v) is bytes:
        m = _NUMRE.match(v)
        if m:
            body = m.group(2)
            r = float(int(body, 16)) if body[:2] in (b'0x', b'0X') else float(body)
            return -r if m.group(1) == b'-' else r
    return None


def _eq(a, b):
    if type(a) is float:
        return type(b) is float and a == b
    return a is b or (type(a) is type(b) and a == b)


def _div(a, b):
    if b == 0:
        return math.nan if a == 0 or a != a else math.copysign(math.inf, a) * math.copysign(1.0, b)
    return a / b


def _mod(a, b):
    if b == 0 or a in (math.inf, -math.inf):
        return math.nan
    if b in (math.inf, -math.inf):
        return a if (a >= 0) == (b > 0) else b
    return a % b


def _pow(a, b):
    try:
        return math.pow(a, b)
    except ValueError:
        return math.nan
    except OverflowError:
        return math.inf


_ARITH = {'+': float.__add__, '-': float.__sub__, '*': float.__mul__, '/': _div, '%': _mod, '^': _pow}


# ---------------------------------------------------------------------------------------------
# Lua patterns (port of lstrlib.c matcher)
# ---------------------------------------------------------------------------------------------
def _ords(s):
    return frozenset(map(ord, s))


_CLASSES = {ord('a'): _ords(_st.ascii_letters), ord('c'): frozenset(list(range(32)) + [127]),
            ord('d'): _ords(_st.digits), ord('l'): _ords(_st.ascii_lowercase),
            ord('p'): _ords(_st.punctuation), ord('s'): frozenset([9, 10, 11, 12, 13, 32]),
            ord('u'): _ords(_st.ascii_uppercase), ord('w'): _ords(_st.ascii_letters + _st.digits),
            ord('x'): _ords(_st.hexdigits), ord('z'): frozenset([0])}


def _cls(c, cl):
    st = _CLASSES.get(cl | 32) if 65 <= cl <= 90 or 97 <= cl <= 122 else None
    if st is None:
        return cl == c
    return (c in st) == (cl >= 97)


class _Match:
    def __init__(self, src, pat):
        self.src, self.pat, self.cap = src, pat, []  # cap: [start, len]; len -1 open, -2 position

    def match(self, si, pi):
        src, pat = self.src, self.pat
        slen, plen = len(src), len(pat)
        while True:
            if pi == plen:
                return si
            pc = pat[pi]
            if pc == 40:  # (
                if pi + 1 < plen and pat[pi + 1] == 41:
                    return self.startcap(si, pi + 2, -2)
                return self.startcap(si, pi + 1, -1)
            if pc == 41:  # )
                for cap in reversed(self.cap):
                    if cap[1] == -1:
                        break
                else:
                    raise LuaError('invalid pattern capture')
                cap[1] = si - cap[0]
                r = self.match(si, pi + 1)
                if r == -1:
                    cap[1] = -1
                return r
            if pc == 36 and pi + 1 == plen:  # $
                return si if si == slen else -1
            if pc == 37 and pi + 1 < plen:  # %
                nx = pat[pi + 1]
                if nx == 98:  # %bxy
                    if pi + 3 >= plen:
                        raise LuaError('unbalanced pattern')
                    if si >= slen or src[si] != pat[pi + 2]:
                        return -1
                    b, e, cont, i = pat[pi + 2], pat[pi + 3], 1, si + 1
                    while i < slen:
                        if src[i] == e:
                            cont -= 1
                            if cont == 0:
                                break
                        elif src[i] == b:
                            cont += 1
                        i += 1
                    else:
                        return -1
                    si, pi = i + 1, pi + 4
                    continue
                if nx == 102:  # %f[set]
                    pi += 2
                    if pi >= plen or pat[pi] != 91:
                        raise LuaError("missing '[' after '%f' in pattern")
                    ep = self.classend(pi)
                    prev, cur = (src[si - 1] if si > 0 else 0), (src[si] if si < slen else 0)
                    if not self.bracket(prev, pi, ep - 1) and self.bracket(cur, pi, ep - 1):
                        pi = ep
                        continue
                    return -1
                if 48 <= nx <= 57:  # back reference
                    l = nx - 49
                    if l < 0 or l >= len(self.cap) or self.cap[l][1] == -1:
                        raise LuaError('invalid capture index')
                    b = src[self.cap[l][0]:self.cap[l][0] + self.cap[l][1]]
                    if not src.startswith(b, si):
                        return -1
                    si, pi = si + len(b), pi + 2
                    continue
            ep = self.classend(pi)
            m = si < slen and self.single(src[si], pi, ep)
            epc = pat[ep] if ep < plen else 0
            if epc == 63:  # ?
                if m:
                    r = self.match(si + 1, ep + 1)
                    if r != -1:
                        return r
                pi = ep + 1
            elif epc == 42 or epc == 43:  # * +
                if epc == 43:
                    if not m:
                        return -1
                    si += 1
                i = 0
                while si + i < slen and self.single(src[si + i], pi, ep):
                    i += 1
                while i >= 0:
                    r = self.match(si + i, ep + 1)
                    if r != -1:
                        return r
                    i -= 1
                return -1
            elif epc == 45:  # -
                while True:
                    r = self.match(si, ep + 1)
                    if r != -1:
                        return r
                    if si < slen and self.single(src[si], pi, ep):
                        si += 1
                    else:
                        return -1
            elif not m:
                return -1
            else:
                si, pi = si + 1, ep

    def startcap(self, si, pi, what):
        self.cap.append([si, what])
        r = self.match(si, pi)
        if r == -1:
            self.cap.pop()
        return r

    def classend(self, pi):
        pat, plen = self.pat, len(self.pat)
        c = pat[pi]
        pi += 1
        if c == 37:
            if pi >= plen:
                raise LuaError("malformed pattern (ends with '%')")
            return pi + 1
        if c == 91:
            if pi < plen and pat[pi] == 94:
                pi += 1
            while True:
                if pi >= plen:
                    raise LuaError("malformed pattern (missing ']')")
                c = pat[pi]
                pi += 1
                if c == 37 and pi < plen:
                    pi += 1
                if pi < plen and pat[pi] == 93:
                    return pi + 1
        return pi

    def single(self, c, pi, ep):
        pc = self.pat[pi]
        if pc == 46:
            return True
        if pc == 37:
            return _cls(c, self.pat[pi + 1])
        if pc == 91:
            return self.bracket(c, pi, ep - 1)
        return pc == c

    def bracket(self, c, pi, ec):
        pat, sig = self.pat, True
        if pat[pi + 1] == 94:
            sig = False
            pi += 1
        pi += 1
        while pi < ec:
            if pat[pi] == 37:
                pi += 1
                if _cls(c, pat[pi]):
                    return sig
            elif pi + 2 < ec and pat[pi + 1] == 45:
                if pat[pi] <= c <= pat[pi + 2]:
                    return sig
                pi += 2
            elif pat[pi] == c:
                return sig
            pi += 1
        return not sig

    def captures(self, si, ei, whole):
        if not self.cap:
            return [self.src[si:ei]] if whole else []
        out = []
        for st, l in self.cap:
            if l == -1:
                raise LuaError('unfinished capture')
            out.append(float(st + 1) if l == -2 else self.src[st:st + l])
        return out


_FMT = re.compile(r'%([-+ #0]*)([0-9]*)(?:\.([0-9]*))?(.)', re.S)


# ---------------------------------------------------------------------------------------------
# Runtime / interpreter
# ---------------------------------------------------------------------------------------------
class LuaRuntime:
    """Stand-in for lupa.LuaRuntime.  ``multi_return_first_only=True`` (default: module-level
    ``MULTI_RETURN_FIRST_ONLY``) makes eval/execute return only the first of several returned values
    (real lupa returns a tuple)."""

    lua_version = LUA_VERSION
    lua_implementation = 'Lua 5.1 (pure-Python stand-in)'

    def __init__(self, encoding='UTF-8', source_encoding=None, attribute_filter=None,
                 attribute_handlers=None, register_eval=True, unpack_returned_tuples=False,
                 register_builtins=True, overflow_handler=None, multi_return_first_only=None, **_kw):
        self.encoding = encoding
        self.source_encoding = source_encoding or encoding or 'UTF-8'
        self.unpack_returned_tuples = unpack_returned_tuples
        self.first_only = MULTI_RETURN_FIRST_ONLY if multi_return_first_only is None else multi_return_first_only
        self._ids = 0
        self._depth = 0
        self._random = _random.Random(0)
        self.G = LuaTable(self)
        self.E = {'const': self.e_const, 'name': self.e_name, 'index': self.e_index, 'call': self.e_call,
                  'method': self.e_call, 'bin': self.e_bin, 'and': self.e_and, 'or': self.e_or,
                  'un': self.e_un, 'table': self.e_table, 'func': self.e_func, 'paren': self.e_paren,
                  'vararg': self.e_vararg}
        self.X = {'local': self.s_local, 'assign': self.s_assign, 'callstat': self.s_callstat,
                  'if': self.s_if, 'while': self.s_while, 'fornum': self.s_fornum, 'forin': self.s_forin,
                  'repeat': self.s_repeat, 'do': self.s_do, 'return': self.s_return,
                  'break': self.s_break, 'localfunc': self.s_localfunc}
        self._install()

    # ---- public API --------------------------------------------------------------------------
    def _compile(self, code, prefix=''):
        if isinstance(code, str):
            code = code.encode(self.source_encoding)
        body = _Parser(prefix + bytes(code).decode('latin-1')).chunk()
        return LuaFunction(self, ('func', [], True, body, 'main chunk'), None)

    def execute(self, lua_code, *args):
        f = self._compile(lua_code)
        return f(*args)

    def eval(self, lua_code, *args):
        f = self._compile(lua_code, 'return ')
        return f(*args)

    def compile(self, lua_code):
        return self._compile(lua_code)

    def globals(self):
        return self.G

    def table(self, *items, **kwargs):
        return self.table_from(items, kwargs)

    def table_from(self, *args, **_kw):
        t, i = LuaTable(self), 0
        for arg in args:
            if isinstance(arg, LuaTable):
                arg = dict(arg.items())
            if hasattr(arg, 'keys') and hasattr(arg, '__getitem__'):
                for k in arg.keys():
                    t[k] = arg[k]
            else:
                for v in arg:
                    i += 1
                    t[i] = v
        return t

    # ---- conversions -------------------------------------------------------------------------
    def _p2l(self, v):
        t = type(v)
        if t is bytes or t is float or t is bool or v is None:
            return v
        if t is int:
            return float(v)
        if t is str:
            return v.encode(self.encoding) if self.encoding else v
        if isinstance(v, int):
            return float(v)
        return v

    def _l2p(self, v):
        t = type(v)
        if t is float:
            return int(v) if v.is_integer() and -2.0 ** 63 <= v < 2.0 ** 63 else v
        if t is bytes and self.encoding:
            return v.decode(self.encoding)
        if t is _PyWrap:
            return v.obj
        return v

    def _run(self, thunk):
        old = sys.getrecursionlimit()
        if self._depth == 0 and old < _RECLIMIT:
            sys.setrecursionlimit(_RECLIMIT)
        self._depth += 1
        try:
            res = thunk()
        except RecursionError:
            raise LuaError('stack overflow') from None
        finally:
            self._depth -= 1
            if self._depth == 0:
                sys.setrecursionlimit(old)
        if not res:
            return None
        if len(res) == 1 or self.first_only:
            return self._l2p(res[0])
        return tuple(self._l2p(v) for v in res)

    # ---- core operations ---------------------------------------------------------------------
    def _what(self, node, env, v):
        """Lua-style operand description, e.g. "global 'x' (a nil value)"."""
        kind = None
        if node is not None and node[0] == 'name':
            while env is not None and node[1] not in env.v:
                env = env.p
            kind = "%s '%s'" % ('global' if env is None else 'local', node[1])
        elif node is not None and node[0] == 'index' and node[2][0] == 'const' and type(node[2][1]) is bytes:
            kind = "field '%s'" % node[2][1].decode('latin-1')
        elif node is not None and node[0] == 'method':
            kind = "method '%s'" % node[2].decode('latin-1')
        return '%s (a %s value)' % (kind, _type(v)) if kind else 'a %s value' % _type(v)

    def _index(self, o, k, node=None, env=None):
        t = type(o)
        if t is LuaTable:
            return o.d.get(_BKEY[k] if type(k) is bool else k)
        if t is bytes:
            return self.string.d.get(k)
        if o is None or t is float or t is bool or isinstance(o, _LuaCallable):
            raise LuaError('attempt to index %s' % self._what(node and node[1], env, o))
        if t is _PyWrap:
            o, attr = o.obj, o.attr
        else:
            attr = not hasattr(o, '__getitem__')
        if attr:
            return self._p2l(getattr(o, k.decode(self.source_encoding) if type(k) is bytes else k))
        return self._p2l(o[self._l2p(k)])

    def _setindex(self, o, k, v, node=None, env=None):
        t = type(o)
        if t is LuaTable:
            if type(k) is bool:
                k = _BKEY[k]
            elif k is None:
                raise LuaError('table index is nil')
            elif k != k:
                raise LuaError('table index is NaN')
            if v is None:
                o.d.pop(k, None)
            else:
                o.d[k] = v
        elif o is None or t in (float, bool, bytes) or isinstance(o, _LuaCallable):
            raise LuaError('attempt to index %s' % self._what(node and node[1], env, o))
        elif t is _PyWrap and o.attr:
            setattr(o.obj, k.decode(self.source_encoding) if type(k) is bytes else k, self._l2p(v))
        else:
            (o.obj if t is _PyWrap else o)[self._l2p(k)] = self._l2p(v)

    def _call(self, f, args, node=None, env=None):
        if isinstance(f, _LuaCallable):
            return f.call(args)
        if f is None or type(f) in (float, bool, bytes, LuaTable) or not callable(f):
            raise LuaError('attempt to call %s' % self._what(node and (node if node[0] == 'method' else node[1]), env, f))
        l2p, p2l = self._l2p, self._p2l
        r = (f.obj if type(f) is _PyWrap else f)(*[l2p(a) for a in args])
        if type(r) is tuple and self.unpack_returned_tuples:
            return [p2l(x) for x in r]
        return [p2l(r)]

    def _tostring(self, v):
        t = type(v)
        if t is bytes:
            return v
        if t is float:
            return _numstr(v)
        if v is None:
            return b'nil'
        if t is bool:
            return b'true' if v else b'false'
        if t is LuaTable:
            return b'table: 0x%08x' % v.id
        if isinstance(v, _LuaCallable):
            return ('function: builtin: %s' % v.name).encode() if t is _Builtin else b'function: 0x%08x' % v.id
        return str(v.obj if t is _PyWrap else v).encode('utf-8')

    def _lt(self, a, b):
        ta, tb = type(a), type(b)
        if ta is tb and (ta is float or ta is bytes):
            return a < b
        if _type(a) == _type(b):
            raise LuaError('attempt to compare two %s values' % _type(a))
        raise LuaError('attempt to compare %s with %s' % (_type(a), _type(b)))

    def _le(self, a, b):
        ta, tb = type(a), type(b)
        if ta is tb and (ta is float or ta is bytes):
            return a <= b
        return self._lt(a, b)  # raises

    # ---- expressions -------------------------------------------------------------------------
    def ev(self, n, env):
        return self.E[n[0]](n, env)

    def explist(self, nodes, env):
        if not nodes:
            return []
        E = self.E
        out = [E[n[0]](n, env) for n in nodes[:-1]]
        last = nodes[-1]
        if last[0] in _MULTI:
            out.extend(self.evm(last, env))
        else:
            out.append(E[last[0]](last, env))
        return out

    def evm(self, n, env):
        if n[0] == 'vararg':
            return list(self._varargs(env))
        if n[0] == 'call':
            f = self.ev(n[1], env)
            return self._call(f, self.explist(n[2], env), n, env)
        o = self.ev(n[1], env)  # method call
        f = self._index(o, n[2], n, env)
        return self._call(f, [o] + self.explist(n[3], env), n, env)

    def _varargs(self, env):
        while '...' not in env.v:
            env = env.p
        return env.v['...']

    def e_const(self, n, env):
        return n[1]

    def e_name(self, n, env):
        name = n[1]
        while env is not None:
            v = env.v
            if name in v:
                return v[name]
            env = env.p
        return self.G.d.get(n[2])

    def e_index(self, n, env):
        o = self.ev(n[1], env)
        k = self.ev(n[2], env)
        if type(o) is LuaTable and type(k) is not bool:
            return o.d.get(k)
        return self._index(o, k, n, env)

    def e_call(self, n, env):
        r = self.evm(n, env)
        return r[0] if r else None

    def e_vararg(self, n, env):
        r = self._varargs(env)
        return r[0] if r else None

    def e_paren(self, n, env):
        return self.ev(n[1], env)

    def e_and(self, n, env):
        a = self.ev(n[1], env)
        return a if a is None or a is False else self.ev(n[2], env)

    def e_or(self, n, env):
        a = self.ev(n[1], env)
        return self.ev(n[2], env) if a is None or a is False else a

    def e_func(self, n, env):
        return LuaFunction(self, n, env)

    def e_table(self, n, env):
        t = LuaTable(self)
        items, pos = n[1], []
        for j, (kn, vn) in enumerate(items):
            if kn is not None:
                self._setindex(t, self.ev(kn, env), self.ev(vn, env))
            elif vn[0] in _MULTI and j == len(items) - 1:
                pos.extend(self.evm(vn, env))
            else:
                pos.append(self.ev(vn, env))
        for i, v in enumerate(pos):  # positional items are stored last (as Lua's SETLIST does)
            self._setindex(t, float(i + 1), v)
        return t

    def e_un(self, n, env):
        op, v = n[1], self.ev(n[2], env)
        if op == 'not':
            return v is None or v is False
        if op == '-':
            x = _tonum(v)
            if x is None:
                raise LuaError('attempt to perform arithmetic on %s' % self._what(n[2], env, v))
            return -x
        if type(v) is bytes:
            return float(len(v))
        if type(v) is LuaTable:
            return float(v.length())
        raise LuaError('attempt to get length of %s' % self._what(n[2], env, v))

    def e_bin(self, n, env):
        op = n[1]
        a = self.ev(n[2], env)
        b = self.ev(n[3], env)
        f = _ARITH.get(op)
        if f is not None:
            if type(a) is not float or type(b) is not float:
                x, y = _tonum(a), _tonum(b)
                if x is None or y is None:
                    bad = (n[2], a) if x is None else (n[3], b)
                    raise LuaError('attempt to perform arithmetic on %s' % self._what(bad[0], env, bad[1]))
                a, b = x, y
            return f(a, b)
        if op == '==':
            return _eq(a, b)
        if op == '~=':
            return not _eq(a, b)
        if op == '..':
            ta, tb = type(a), type(b)
            if (ta is not bytes and ta is not float) or (tb is not bytes and tb is not float):
                bad = (n[3], b) if (ta is bytes or ta is float) else (n[2], a)
                raise LuaError('attempt to concatenate %s' % self._what(bad[0], env, bad[1]))
            return (a if ta is bytes else _numstr(a)) + (b if tb is bytes else _numstr(b))
        if op == '<':
            return self._lt(a, b)
        if op == '<=':
            return self._le(a, b)
        if op == '>':
            return self._lt(b, a)
        return self._le(b, a)

    # ---- statements --------------------------------------------------------------------------
    def _block(self, stmts, env):
        X = self.X
        for st in stmts:
            r = X[st[0]](st, env)
            if r is not None:
                return r
        return None

    def s_local(self, st, env):
        names, exprs = st[1], st[2]
        if len(names) == 1 and len(exprs) == 1:
            env.v[names[0]] = self.ev(exprs[0], env)
            return
        vals = self.explist(exprs, env)
        for i, name in enumerate(names):
            env.v[name] = vals[i] if i < len(vals) else None

    def s_localfunc(self, st, env):
        env.v[st[1]] = None
        env.v[st[1]] = self.ev(st[2], env)

    def _store(self, name, bname, val, env):
        while env is not None:
            if name in env.v:
                env.v[name] = val
                return
            env = env.p
        if val is None:
            self.G.d.pop(bname, None)
        else:
            self.G.d[bname] = val

    def s_assign(self, st, env):
        targets, exprs = st[1], st[2]
        refs = [None if t[0] == 'name' else (self.ev(t[1], env), self.ev(t[2], env)) for t in targets]
        vals = [self.ev(exprs[0], env)] if len(targets) == 1 and len(exprs) == 1 else self.explist(exprs, env)
        for i, t in enumerate(targets):
            v = vals[i] if i < len(vals) else None
            if refs[i] is None:
                self._store(t[1], t[2], v, env)
            else:
                self._setindex(refs[i][0], refs[i][1], v, t, env)

    def s_callstat(self, st, env):
        self.evm(st[1], env)

    def s_do(self, st, env):
        return self._block(st[1], _Scope(env))

    def s_return(self, st, env):
        return self.explist(st[1], env)

    def s_break(self, st, env):
        return _BREAK

    def s_if(self, st, env):
        for cond, body in st[1]:
            c = self.ev(cond, env)
            if c is not None and c is not False:
                return self._block(body, _Scope(env))
        if st[2] is not None:
            return self._block(st[2], _Scope(env))

    def s_while(self, st, env):
        cond, body = st[1], st[2]
        while True:
            c = self.ev(cond, env)
            if c is None or c is False:
                return
            r = self._block(body, _Scope(env))
            if r is not None:
                return None if r is _BREAK else r

    def s_repeat(self, st, env):
        while True:
            e = _Scope(env)
            r = self._block(st[1], e)
            if r is not None:
                return None if r is _BREAK else r
            c = self.ev(st[2], e)
            if c is not None and c is not False:
                return

    def s_fornum(self, st, env):
        _, var, a, b, step, body = st
        vals = []
        for what, node in (('initial', a), ('limit', b), ('step', step)):
            v = 1.0 if node is None else _tonum(self.ev(node, env))
            if v is None:
                raise LuaError("'for' %s must be a number" % (what + ' value' if what == 'initial' else what))
            vals.append(v)
        i, limit, step = vals
        if step == 0:
            raise LuaError("'for' step is zero")
        while (i <= limit) if step > 0 else (i >= limit):
            e = _Scope(env)
            e.v[var] = i
            r = self._block(body, e)
            if r is not None:
                return None if r is _BREAK else r
            i += step

    def s_forin(self, st, env):
        names, body = st[1], st[3]
        vals = self.explist(st[2], env) + [None, None, None]
        f, state, ctl = vals[0], vals[1], vals[2]
        while True:
            rs = self._call(f, [state, ctl], ('call', st[2][0]), env)
            if not rs or rs[0] is None:
                return
            ctl = rs[0]
            e = _Scope(env)
            for i, name in enumerate(names):
                e.v[name] = rs[i] if i < len(rs) else None
            r = self._block(body, e)
            if r is not None:
                return None if r is _BREAK else r

    # ---- standard library --------------------------------------------------------------------
    def _install(self):
        rt, G = self, self.G
        tostring, call = self._tostring, self._call

        def argerr(i, fn, exp, v):
            raise LuaError("bad argument #%d to '%s' (%s expected, got %s)"
                           % (i, fn, exp, 'no value' if v is None else _type(v)))

        def cs(v, i, fn):  # check string
            if type(v) is bytes:
                return v
            if type(v) is float:
                return _numstr(v)
            argerr(i, fn, 'string', v)

        def cn(v, i, fn, default=None):  # check number
            if v is None and default is not None:
                return default
            x = _tonum(v)
            if x is None:
                argerr(i, fn, 'number', v)
            return x

        def ci(v, i, fn, default=None):  # check integer
            x = cn(v, i, fn, default)
            return int(x) if x == x and abs(x) != math.inf else 0

        def ct(v, i, fn):  # check table
            if type(v) is not LuaTable:
                argerr(i, fn, 'table', v)
            return v

        def lib(name, fns):
            t = LuaTable(rt)
            for k, f in fns.items():
                t.d[k.encode()] = _Builtin(rt, f, k) if callable(f) else f
            if name:
                G.d[name.encode()] = t
            return t

        # -- base
        def b_type(v=None):
            return _type(v).encode()

        def b_tonumber(v=None, base=None):
            if base is None or base == 10:
                return _tonum(v)
            try:
                return float(int(cs(v, 1, 'tonumber').strip().decode('latin-1'), int(base)))
            except ValueError:
                return None

        def b_error(msg=None, level=None):
            if type(msg) in (bytes, float):
                raise LuaError(tostring(msg), msg)
            raise LuaError(tostring(msg).decode('utf-8', 'replace'), msg)

        def b_assert(*args):
            if not args or args[0] is None or args[0] is False:
                msg = args[1] if len(args) > 1 else b'assertion failed!'
                b_error(msg)
            return list(args)

        def b_pcall(f=None, *args):
            try:
                return [True] + call(f, list(args))
            except LuaError as e:
                return [False, e.lua_value]
            except RecursionError:
                return [False, b'stack overflow']
            except Exception as e:  # like lupa: Python exceptions become Lua error objects
                return [False, e]

        def b_select(n=None, *args):
            if n == b'#':
                return float(len(args))
            n = ci(n, 1, 'select')
            if n < 0:
                n = len(args) + n + 1
            if n < 1:
                raise LuaError("bad argument #1 to 'select' (index out of range)")
            return list(args[n - 1:])

        def b_unpack(t=None, i=None, j=None):
            t = ct(t, 1, 'unpack')
            i = ci(i, 2, 'unpack', 1.0)
            j = t.length() if j is None else ci(j, 3, 'unpack')
            return [t.d.get(float(k)) for k in range(i, j + 1)]

        def b_next(t=None, k=None):
            keys = ct(t, 1, 'next')._keys()
            if k is not None:
                for idx, kk in enumerate(keys):
                    if _eq(kk, k):
                        keys = keys[idx + 1:]
                        break
                else:
                    raise LuaError("invalid key to 'next'")
            for kk in keys:
                v = rt._index(t, kk)
                if v is not None:
                    return [kk, v]
            return [None]

        def b_pairs(t=None):
            it = iter(ct(t, 1, 'pairs')._keys())

            def step(*_):
                for k in it:
                    v = rt._index(t, k)
                    if v is not None:
                        return [k, v]
                return [None]
            return [_Builtin(rt, step, 'next'), t, None]

        def ipairs_step(t=None, i=None):
            v = rt._index(t, i + 1)
            return [None] if v is None else [i + 1, v]
        ipairs_iter = _Builtin(rt, ipairs_step, 'ipairs_iter')

        def b_ipairs(t=None):
            return [ipairs_iter, ct(t, 1, 'ipairs'), 0.0]

        def b_rawset(t=None, k=None, v=None):
            rt._setindex(ct(t, 1, 'rawset'), k, v)
            return t

        def b_print(*args):
            sys.stdout.write('\t'.join(tostring(a).decode('utf-8', 'replace') for a in args) + '\n')
            return []

        def b_loadstring(code=None, name=None):
            try:
                return rt._compile(cs(code, 1, 'loadstring'))
            except LuaError as e:
                return [None, e.lua_value]

        base = {'type': b_type, 'tostring': lambda v=None: tostring(v), 'tonumber': b_tonumber,
                'error': b_error, 'assert': b_assert, 'pcall': b_pcall, 'select': b_select,
                'unpack': b_unpack, 'next': b_next, 'pairs': b_pairs, 'ipairs': b_ipairs,
                'rawget': lambda t=None, k=None: rt._index(ct(t, 1, 'rawget'), k), 'rawset': b_rawset,
                'rawequal': lambda a=None, b=None: _eq(a, b), 'print': b_print,
                'loadstring': b_loadstring, 'load': b_loadstring}
        for k, f in base.items():
            G.d[k.encode()] = _Builtin(rt, f, k)
        G.d[b'_G'] = G
        G.d[b'_VERSION'] = b'Lua 5.1'

        # -- table
        def t_insert(t=None, *args):
            t = ct(t, 1, 'insert')
            n = t.length()
            if len(args) == 1:
                pos, v = n + 1, args[0]
            elif len(args) == 2:
                pos, v = ci(args[0], 2, 'insert'), args[1]
                for i in range(n, pos - 1, -1):
                    rt._setindex(t, float(i + 1), t.d.get(i))
            else:
                raise LuaError("wrong number of arguments to 'insert'")
            rt._setindex(t, float(pos), v)
            return []

        def t_remove(t=None, pos=None):
            t = ct(t, 1, 'remove')
            n = t.length()
            pos = ci(pos, 2, 'remove', float(n))
            if n == 0 or not 1 <= pos <= n:
                return None
            v = t.d.get(pos)
            for i in range(pos, n):
                rt._setindex(t, float(i), t.d.get(i + 1))
            t.d.pop(n, None)
            return v

        def t_concat(t=None, sep=None, i=None, j=None):
            t = ct(t, 1, 'concat')
            sep = b'' if sep is None else cs(sep, 2, 'concat')
            i = ci(i, 3, 'concat', 1.0)
            j = t.length() if j is None else ci(j, 4, 'concat')
            parts = []
            for k in range(i, j + 1):
                v = t.d.get(k)
                if type(v) is not bytes and type(v) is not float:
                    raise LuaError("invalid value (at index %d) in table for 'concat'" % k)
                parts.append(tostring(v))
            return sep.join(parts)

        def t_sort(t=None, comp=None):
            t = ct(t, 1, 'sort')
            n = t.length()
            if comp is None:
                lt = rt._lt
            else:
                def lt(a, b):
                    r = call(comp, [a, b])
                    return bool(r) and r[0] is not None and r[0] is not False
            vals = sorted((t.d[i] for i in range(1, n + 1)),
                          key=functools.cmp_to_key(lambda a, b: -1 if lt(a, b) else (1 if lt(b, a) else 0)))
            for i, v in enumerate(vals):
                t.d[float(i + 1)] = v
            return []

        lib('table', {'insert': t_insert, 'remove': t_remove, 'concat': t_concat, 'sort': t_sort,
                      'unpack': b_unpack, 'getn': lambda t=None: ct(t, 1, 'getn').length()})

        # -- string
        def s_sub(s=None, i=None, j=None):
            s = cs(s, 1, 'sub')
            n, i, j = len(s), ci(i, 2, 'sub', 1.0), ci(j, 3, 'sub', -1.0)
            i = max(n + i + 1, 1) if i < 0 else (i or 1)
            j = n + j + 1 if j < 0 else min(j, n)
            return s[i - 1:j] if i <= j else b''

        def s_byte(s=None, i=None, j=None):
            s = cs(s, 1, 'byte')
            i = ci(i, 2, 'byte', 1.0)
            j = i if j is None else ci(j, 3, 'byte')
            n = len(s)
            i = max(n + i + 1, 1) if i < 0 else (i or 1)
            j = n + j + 1 if j < 0 else min(j, n)
            return [float(c) for c in s[i - 1:j]] if i <= j else []

        def s_char(*args):
            try:
                return bytes(ci(a, k + 1, 'char') for k, a in enumerate(args))
            except ValueError:
                raise LuaError("bad argument to 'char' (invalid value)")

        def s_rep(s=None, n=None):
            return cs(s, 1, 'rep') * max(ci(n, 2, 'rep'), 0)

        def s_format(fmt=None, *args):
            fmt = cs(fmt, 1, 'format').decode('latin-1')
            out, pos, ai = [], 0, 0
            while True:
                i = fmt.find('%', pos)
                if i < 0:
                    out.append(fmt[pos:])
                    break
                out.append(fmt[pos:i])
                m = _FMT.match(fmt, i)
                if not m:
                    raise LuaError("invalid option '%' to 'format'")
                pos = m.end()
                flags, width, prec, conv = m.groups()
                if conv == '%':
                    out.append('%')
                    continue
                ai += 1
                if ai > len(args):
                    raise LuaError("bad argument #%d to 'format' (no value)" % (ai + 1))
                a = args[ai - 1]
                spec = '%' + flags + width + ('' if prec is None else '.' + prec)
                if conv in 'di':
                    out.append((spec + 'd') % ci(a, ai + 1, 'format'))
                elif conv in 'ouxX':
                    out.append((spec + conv.replace('u', 'd')) % ci(a, ai + 1, 'format'))
                elif conv in 'eEfgG':
                    out.append((spec + conv) % cn(a, ai + 1, 'format'))
                elif conv == 'c':
                    out.append(chr(ci(a, ai + 1, 'format') & 255))
                elif conv == 's':
                    out.append((spec + 's') % tostring(a).decode('latin-1'))
                elif conv == 'q':
                    q = cs(a, ai + 1, 'format').decode('latin-1')
                    q = q.replace('\\', '\\\\').replace('"', '\\"').replace('\n', '\\\n')
                    out.append('"' + q.replace('\r', '\\r').replace('\0', '\\000') + '"')
                else:
                    raise LuaError("invalid option '%%%s' to 'format'" % conv)
            return ''.join(out).encode('latin-1')

        def find_aux(fn, find, s, pat, init, plain):
            s, pat = cs(s, 1, fn), cs(pat, 2, fn)
            init = ci(init, 3, fn, 1.0)
            init = max(len(s) + init + 1, 1) if init < 0 else (init or 1)
            if init > len(s) + 1:
                return [None]
            if find and (plain not in (None, False) or not re.search(rb'[\^$*+?.()\[\]%-]', pat)):
                i = s.find(pat, init - 1)
                return [None] if i < 0 else [float(i + 1), float(i + len(pat))]
            anchor = pat[:1] == b'^'
            si = init - 1
            while True:
                ms = _Match(s, pat)
                e = ms.match(si, 1 if anchor else 0)
                if e != -1:
                    if find:
                        return [float(si + 1), float(e)] + ms.captures(si, e, False)
                    return ms.captures(si, e, True)
                si += 1
                if anchor or si > len(s):
                    return [None]

        def s_gmatch(s=None, pat=None):
            s, pat = cs(s, 1, 'gmatch'), cs(pat, 2, 'gmatch')
            state = [0]

            def step(*_):
                si = state[0]
                while si <= len(s):
                    ms = _Match(s, pat)
                    e = ms.match(si, 0)
                    if e != -1:
                        state[0] = e + 1 if e == si else e
                        return ms.captures(si, e, True)
                    si += 1
                state[0] = si
                return [None]
            return _Builtin(rt, step, 'gmatch_iter')

        def s_gsub(s=None, pat=None, repl=None, max_n=None):
            s, pat = cs(s, 1, 'gsub'), cs(pat, 2, 'gsub')
            if type(repl) is float:
                repl = _numstr(repl)
            if type(repl) not in (bytes, LuaTable) and not isinstance(repl, _LuaCallable):
                argerr(3, 'gsub', 'string/function/table', repl)
            max_n = len(s) + 1 if max_n is None else ci(max_n, 4, 'gsub')
            anchor = pat[:1] == b'^'
            p0, si, n, out = (1 if anchor else 0), 0, 0, []
            while n < max_n:
                ms = _Match(s, pat)
                e = ms.match(si, p0)
                if e != -1:
                    n += 1
                    whole = s[si:e]
                    caps = ms.captures(si, e, True)
                    if type(repl) is bytes:
                        def sub(m):
                            c = m.group(1)
                            if not c.isdigit():
                                return c
                            if c == b'0':
                                return whole
                            if int(c) > len(caps):
                                raise LuaError('invalid capture index')
                            return tostring(caps[int(c) - 1])
                        v = re.sub(rb'%(.)', sub, repl, flags=re.S)
                    elif type(repl) is LuaTable:
                        v = rt._index(repl, caps[0])
                    else:
                        r = call(repl, caps)
                        v = r[0] if r else None
                    if v is None or v is False:
                        v = whole
                    elif type(v) is float:
                        v = _numstr(v)
                    elif type(v) is not bytes:
                        raise LuaError('invalid replacement value (a %s)' % _type(v))
                    out.append(v)
                if e != -1 and e > si:
                    si = e
                elif si < len(s):
                    out.append(s[si:si + 1])
                    si += 1
                else:
                    break
                if anchor:
                    break
            out.append(s[si:])
            return [b''.join(out), float(n)]

        self.string = lib('string', {
            'len': lambda s=None: len(cs(s, 1, 'len')), 'sub': s_sub, 'rep': s_rep, 'byte': s_byte,
            'char': s_char, 'format': s_format, 'gmatch': s_gmatch, 'gsub': s_gsub,
            'upper': lambda s=None: cs(s, 1, 'upper').upper(), 'lower': lambda s=None: cs(s, 1, 'lower').lower(),
            'reverse': lambda s=None: cs(s, 1, 'reverse')[::-1],
            'find': lambda s=None, p=None, i=None, plain=None: find_aux('find', True, s, p, i, plain),
            'match': lambda s=None, p=None, i=None: find_aux('match', False, s, p, i, None)})

        # -- math
        def m1(name, f):
            def fn(x=None):
                try:
                    return float(f(cn(x, 1, name)))
                except (ValueError, OverflowError):
                    return math.nan if name not in ('exp', 'cosh', 'sinh') else math.inf
            return fn

        def m_minmax(name, pick):
            def fn(*args):
                if not args:
                    argerr(1, name, 'number', None)
                return pick(cn(a, i + 1, name) for i, a in enumerate(args))
            return fn

        def m_floor(x=None):
            x = cn(x, 1, 'floor')
            return float(math.floor(x)) if x == x and abs(x) != math.inf else x

        def m_ceil(x=None):
            x = cn(x, 1, 'ceil')
            return float(math.ceil(x)) if x == x and abs(x) != math.inf else x

        def m_random(m=None, n=None):
            r = rt._random.random()
            if m is None:
                return r
            lo, hi = (1, ci(m, 1, 'random')) if n is None else (ci(m, 1, 'random'), ci(n, 2, 'random'))
            if lo > hi:
                raise LuaError("bad argument #%d to 'random' (interval is empty)" % (1 if n is None else 2))
            return float(lo + int(r * (hi - lo + 1)))

        def m_randomseed(x=None):
            rt._random.seed(cn(x, 1, 'randomseed'))
            return []

        def m_modf(x=None):
            x = cn(x, 1, 'modf')
            if abs(x) == math.inf:
                return [x, 0.0]
            f, i = math.modf(x)
            return [i, f]

        def m_log(x=None):
            x = cn(x, 1, 'log')
            return math.log(x) if x > 0 else (-math.inf if x == 0 else math.nan)

        mathlib = {'floor': m_floor, 'ceil': m_ceil, 'max': m_minmax('max', max), 'min': m_minmax('min', min),
                   'random': m_random, 'randomseed': m_randomseed, 'modf': m_modf, 'log': m_log,
                   'huge': math.inf, 'pi': math.pi,
                   'pow': lambda a=None, b=None: _pow(cn(a, 1, 'pow'), cn(b, 2, 'pow')),
                   'fmod': lambda a=None, b=None: math.fmod(cn(a, 1, 'fmod'), cn(b, 2, 'fmod'))
                   if cn(b, 2, 'fmod') != 0 and abs(cn(a, 1, 'fmod')) != math.inf else math.nan,
                   'log10': lambda x=None: m_log(x) / math.log(10.0)}
        for name in ('abs sqrt sin cos tan asin acos atan exp sinh cosh tanh'.split()):
            mathlib[name] = m1(name, abs if name == 'abs' else getattr(math, name))
        lib('math', mathlib)

        # -- python (lupa's bridge table)
        def unwrap(o):
            return o.obj if type(o) is _PyWrap else o

        def py_iter(kind):
            def fn(obj=None):
                it = iter(unwrap(obj))
                if kind == 'enumerate':
                    it = enumerate(it)

                def step(*_):
                    try:
                        v = next(it)
                    except StopIteration:
                        return [None]
                    if kind != 'iter' and isinstance(v, tuple):
                        return [rt._p2l(x) for x in v]
                    return [rt._p2l(v)]
                return [_Builtin(rt, step, 'python.' + kind), None, None]
            return fn

        lib('python', {'iter': py_iter('iter'), 'iterex': py_iter('iterex'), 'enumerate': py_iter('enumerate'),
                       'as_attrgetter': lambda o=None: as_attrgetter(o),
                       'as_itemgetter': lambda o=None: as_itemgetter(o),
                       'as_function': lambda o=None: unwrap(o)})
