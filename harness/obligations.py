"""Property theorems (names inside namespace FR.Props.<id>) that every check requires to be in the
built environment with no axioms beyond propext / Classical.choice / Quot.sound."""
OBLIGATIONS = {
 'C03': ['bytesLt_strict_total', 'dbl_strict_weak_order', 'pairLt_strict_total', 'inv_iff', 'empty_inv', 'add_inv', 'discard_inv',
         'get_add', 'get_add_self', 'add_changed', 'get_discard', 'len_add', 'len_discard', 'members_sorted', 'members_nodup',
         'byscore_length', 'get_iff_mem_byscore', 'rank_is_index', 'rank_of_index', 'rank_none_iff', 'rank_eq_bisectLeft',
         'zrevrank_mirror', 'revrank_is_index', 'irange_eq_filter', 'irange_eq_filter_gen', 'zcount_eq_length', 'zrangebyscore_spec',
         'zcount_matches_zrangebyscore', 'cisInv_iff', 'conv_float_never_nan', 'zset_inv_preserved', 'zadd_never_nan',
         'zincrby_never_nan'],
 'C06': ['step_notifies_partial', 'unrestricted_false'],
 'C07': ['run_purge_sim', 'expired_eq_deleted'],
 'C08': ['error_changes_nothing', 'failed_iff_error_path'],
 'C09': ['no_empty_collections', 'reads_create_nothing'],
 'C16': ['glob_correct', 'empty_subject', 'empty_subject_model', 'star_matches_all', 'literal_pattern'],
}
