"""Property theorems (names inside namespace FR.Props.<id>) that every check requires to be in the
built environment with no axioms beyond propext / Classical.choice / Quot.sound."""
OBLIGATIONS = {
 'C16': ['glob_correct', 'empty_subject', 'empty_subject_model', 'star_matches_all', 'literal_pattern'],
}
