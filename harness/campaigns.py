"""Per-property campaigns: structured generation, online execution on implementation + model,
monitors, divergence judgement.  Every random choice derives from one seed."""
import zlib
import itertools, math, os, random, struct, sys, time
sys.path.insert(0, os.path.dirname(os.path.abspath(__file__)))
import corr, gen, monitors as Mn, canon as Cn
import impl as I
import model as Mo


class Result:
    def __init__(self):
        self.evaluations = 0          # events executed on both sides
        self.histories = 0
        self.cells = set()            # distinct (command, reply kind) / case classes hit
        self.reply_kinds = {}
        self.cmd_hist = {}
        self.samples = []
        self.findings = []            # dicts: kind, what, events(json), detail...
        self.exhaustive = False
        self.notes = []
        self.traces_validated = 0
        self.known = []               # occurrences of listed known findings (id, what)
        self.prop = None

    def is_known(self, f):
        import kf
        return bool(self.prop) and kf.match_known(kf.load_known_findings(), self.prop, f) is not None

    def add(self, f):
        """record a finding unless it is an instance of a listed known finding"""
        import kf
        k = kf.match_known(kf.load_known_findings(), self.prop, f) if self.prop else None
        if k is not None:
            if k['id'] not in [x['id'] for x in self.known]:
                self.known.append(k)
            return False
        self.findings.append(f)
        return True

    def absorb(self, s):
        self.evaluations += s.stats['events']
        self.histories += 1
        self.traces_validated += 1
        self.cells |= s.stats['cells']
        for k, v in s.stats['replies'].items():
            self.reply_kinds[k] = self.reply_kinds.get(k, 0) + v
        for (n, k) in s.stats['cells']:
            self.cmd_hist[n] = self.cmd_hist.get(n, 0) + 1


ERR_CLASSES = ('WRONGTYPE', 'EXECABORT', 'NOSCRIPT', 'BUSYKEY', 'ERR')


def err_class(r):
    if isinstance(r, tuple) and r[0] == 'e':
        return ('e', r[1].split(' ')[0])
    if isinstance(r, list):
        return [err_class(x) for x in r]
    return r


def online(rng, version, seed, plan, observers=(), compare_state=True):
    """plan(session, rng) yields events lazily; returns (session, events, Divergence|None)"""
    s = corr.Session(version, seed, compare_state, observers)
    s.violations = []
    events = []
    div = None
    try:
        for ev in plan(s, rng):
            events.append(ev)
            s.step(ev)
    except corr.Divergence as d:
        div = d
    return s, events, div


def replay_events(events, version, seed, observers=(), compare_state=True):
    s = corr.Session(version, seed, compare_state, observers)
    s.violations = []
    try:
        s.run(events)
        return s, None
    except corr.Divergence as d:
        return s, d


def shrink_divergence(events, version, seed, what, observers=(), budget=250):
    def fails(evs):
        try:
            s, d = replay_events(evs, version, seed, observers)
        except Exception:
            return False
        return d is not None and d.what.split(':')[0] == what.split(':')[0]
    return corr.shrink(events, version, seed, fails, budget)


def shrink_violation(events, version, seed, prop, clause, observers, budget=250):
    def fails(evs):
        try:
            s, d = replay_events(evs, version, seed, observers)
        except Exception:
            return False
        return any(v.prop == prop and v.clause == clause for v in s.violations)
    return corr.shrink(events, version, seed, fails, budget)


# ----------------------------------------------------------------------------- plans
def make_gen(s, rng, alias=0.3):
    return gen.Gen(rng, now_ticks=lambda: I.BASE + s.impl.clock.adv + 2 * s.impl.clock.n, alias=alias, payloads=s.payloads)


def plan_single(families, length, seeded=True, mutate=0.08, adv=0.06, select=0.0, extra=None):
    names = sorted(set(sum([gen.FAMILY[f] for f in families], [])))

    def plan(s, rng):
        g = make_gen(s, rng)
        yield ('open', 1)
        if seeded and rng.random() < 0.9:
            for f in gen.SEED_COMMANDS:
                yield ('cmd', 1, f)
        for _ in range(length):
            r = rng.random()
            if r < adv:
                yield ('adv', rng.choice([1, 10, 999, 1000, 1001, 1500, 5000, 100000]))
                continue
            if r < adv + select:
                yield ('cmd', 1, [b'select', rng.choice([b'0', b'1', b'2'])])
                continue
            f = g.command(rng.choice(names))
            if rng.random() < mutate:
                f = g.mutate(f)
            yield ('cmd', 1, f)
        if extra:
            yield from extra(s, rng, g)
    return plan


def plan_multi(families, length, nconn=(2, 3), churn=True, mutate=0.04, weights=None):
    def plan(s, rng):
        g = make_gen(s, rng)
        n = rng.choice(nconn)
        live = list(range(1, n + 1))
        for c in live:
            yield ('open', c)
        for f in gen.SEED_COMMANDS[:9]:
            yield ('cmd', 1, f)
        nextc = n + 1
        fams = families
        for _ in range(length):
            r = rng.random()
            if r < 0.05:
                yield ('adv', rng.choice([1, 1000, 1500, 5000]))
            elif churn and r < 0.08 and len(live) > 1:
                c = rng.choice(live)
                live.remove(c)
                yield ('close', c)
            elif churn and r < 0.11:
                live.append(nextc)
                yield ('open', nextc)
                nextc += 1
            else:
                live = [x for x in live if s.impl.socks[x]._parser.gi_frame is not None] or live
                c = rng.choice(live)
                fam = rng.choices(fams, weights)[0] if weights else rng.choice(fams)
                f = g.command(rng.choice(gen.FAMILY[fam]))
                if rng.random() < mutate:
                    f = g.mutate(f)
                yield ('cmd', c, f)
    return plan


def plan_chunked(families, nreq=(1, 7)):
    names = sorted(set(sum([gen.FAMILY[f] for f in families], [])) - {'dump', 'restore', 'sort', 'smembers', 'sdiff', 'sinter', 'sunion'})

    def plan(s, rng):
        g = make_gen(s, rng)
        yield ('open', 1)
        for f in gen.SEED_COMMANDS[:6]:
            yield ('cmd', 1, f)
        for _ in range(4):
            reqs = [g.command(rng.choice(names)) for _ in range(rng.randint(*nreq))]
            reqs = [g.mutate(r) if rng.random() < 0.1 else r for r in reqs]
            stream = b''.join(corr.encode_request(r) for r in reqs)
            k = min(len(stream), rng.choice([0, 1, 2, 3, 6, 12]))
            cuts = sorted(rng.sample(range(len(stream) + 1), k))
            # cuts inside CR LF and length lines are likely because the stream is mostly protocol
            for a, b in zip([0] + cuts, cuts + [len(stream)]):
                if b > a:
                    yield ('send', 1, stream[a:b])
    return plan


def with_watcher(plan, every=9, conn=99):
    """an extra connection WATCHes every pool key and renews the watch regularly: any notification the model does not
    predict (e.g. a failing command that marks its key modified) shows as a difference of that connection's state"""
    def p(s, rng):
        keys = list(gen.ALLKEYS)
        n = 0
        started = False
        for ev in plan(s, rng):
            yield ev
            if not started and ev[0] == 'open':
                continue
            if not started:
                started = True
                yield ('open', conn)
                yield ('cmd', conn, [b'watch'] + keys)
            n += 1
            if n % every == 0:
                yield ('cmd', conn, [b'unwatch'])
                yield ('cmd', conn, [b'watch'] + keys)
    return p


# ----------------------------------------------------------------------------- generic runner
def run_campaign(res, prop, plan, n_hist, seed, scope, observers=(), versions=(6, 7), max_findings=3, deadline=None,
                 compare_state=True):
    for h in range(n_hist):
        if deadline and time.time() > deadline:
            res.notes.append('time budget reached after %d histories' % h)
            break
        hseed = (seed * 1000003 + h * 7919 + zlib.crc32(prop.encode()) % 1000) & 0x7fffffff
        rng = random.Random(hseed)
        version = rng.choice(versions)
        s, events, div = online(rng, version, hseed, plan, observers, compare_state)
        res.absorb(s)
        if len(res.samples) < 3 and s.trace:
            res.samples.append({'version': version, 'seed': hseed,
                                'events': [(corr.ev_json(t[1]), t[2]) for t in s.trace[-5:]]})
        for v in s.violations:
            if len(res.findings) >= max_findings:
                break
            f = {'kind': 'monitor', 'property': v.prop, 'clause': v.clause, 'detail': v.detail, 'version': version, 'seed': hseed,
                 'events': [corr.ev_json(e) for e in events[:v.index + 1]]}
            if res.is_known(f):
                res.add(f)          # an occurrence of a listed finding: noted, and the next violation of the session is looked at
                continue
            small = shrink_violation(events, version, hseed, v.prop, v.clause, observers)
            res.add({'kind': 'monitor', 'property': v.prop, 'clause': v.clause, 'detail': v.detail,
                                 'version': version, 'seed': hseed, 'events': [corr.ev_json(e) for e in small]})
            break
        if div is not None and len(res.findings) < max_findings:
            verdict = judge(div, scope)
            if verdict != 'out-of-scope':
                small = shrink_divergence(events, version, hseed, div.what, observers)
                s2, d2 = replay_events(small, version, hseed, observers)
                d2 = d2 or div
                res.add({'kind': 'divergence', 'verdict': verdict, 'what': d2.what, 'version': version,
                                     'seed': hseed, 'events': [corr.ev_json(e) for e in small],
                                     'impl': d2.impl_side, 'model': d2.model_side,
                                     'at': corr.ev_json(d2.event)})
            else:
                res.notes.append('out-of-scope divergence at %r (%s)' % (div.event, div.what))
        if len(res.findings) >= max_findings:
            break
    return res


def judge(div, scope):
    """'violation' | 'unconstrained' | 'out-of-scope' for a model/implementation divergence"""
    ev = div.event
    name = Cn.name_of(ev[2]) if ev[0] == 'cmd' else None
    if scope is not None and name is not None and name not in scope and div.what != 'crash':
        return 'out-of-scope'
    if div.what == 'reply':
        # same replies up to the wording of error messages: the property (judged by error class) still holds
        try:
            a = {k: [_cls(x) for x in v] for k, v in div.impl_side.items()}
            b = {k: [_cls(x) for x in v] for k, v in div.model_side.items()}
            if a == b:
                return 'unconstrained'
        except Exception:
            pass
    return 'violation'


def _cls(shown):
    # shown is the text produced by canon.show: errors look like e:'ERR …'
    if isinstance(shown, str) and shown.startswith("e:"):
        return 'e:' + shown[3:].split(' ')[0]
    return shown
