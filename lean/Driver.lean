import FR
import FR.Glob.Render
/-!
# Line-protocol driver for the correspondence check

One event per input line, one output line per event.  See `harness/protocol.md`.
-/
open FR FR.M

def unhexTok (t : String) : Option Bytes :=
  if t == "_" then some [] else fromHex t

def parseClocks (t : String) : List Int :=
  if t == "-" then [] else (t.splitOn ",").filterMap String.toInt?

def parsePicks (t : String) : List (List Bytes) :=
  if t == "-" then []
  else (t.splitOn ";").map fun p =>
    if p == "." then [] else (p.splitOn ",").filterMap unhexTok

def renderOut (s : Sys) : String :=
  let rs := s.out.reverse.map fun (c, r) => s!"{c}:{r.render}"
  let base := "R " ++ " ".intercalate rs
  let base := match s.crashed with | some k => base ++ " C:" ++ k | none => base
  match s.fault with | some f => base ++ " F:" ++ f.replace " " "_" | none => base

def renderExp : Option Int → String
  | none => "-"
  | some e => toString e

def renderDb (time : Int) (i : Nat) (d : Dict) : Option String :=
  let live := d.filter fun p => !(Db.expired ⟨d, time⟩ p.2)
  if live.isEmpty then none
  else some (s!"db{i}" ++ "{" ++ ",".intercalate (live.map fun p =>
    toHex p.1 ++ "=" ++ bytesStr (Cmd.dumpValue p.2.value) ++ "@" ++ renderExp p.2.expireat) ++ "}")

def renderTable (name : String) (t : List (Bytes × List Nat)) : String :=
  name ++ "{" ++ ",".intercalate (t.map fun p =>
    toHex p.1 ++ "=" ++ "+".intercalate ((p.2.toArray.qsort (· < ·)).toList.map toString)) ++ "}"

def renderConn (x : Conn) : String :=
  let tx := match x.tx with | none => "-" | some q => toString q.length
  let ws := (x.watches.map fun (d, k) => s!"{d}/{toHex k}").toArray.qsort (· < ·) |>.toList
  let parked := match x.parked with | none => "-" | some p => p.kind ++ (if p.woken then "!" else "")
  s!"c{x.id}" ++ "{" ++ s!"db={x.db},tx={tx},failed={x.txFailed},wn={x.watchNotified},watch={"+".intercalate ws},pubsub={x.pubsub},closed={x.closed},dead={x.dead},parked={parked}" ++ (if x.paused then ",paused" else "") ++ "}"

def renderSnap (s : Sys) : String :=
  let dbs := (s.srv.dbs.zipIdx.filterMap fun (d, i) => renderDb s.srv.time i d)
  "S " ++ " ".intercalate (dbs ++ [renderTable "subs" s.srv.subs, renderTable "psubs" s.srv.psubs]
    ++ s.srv.conns.map renderConn ++ [s!"lastsave={s.srv.lastsave}", s!"connected={s.srv.connected}"])

def stepLine (s : Sys) (line : String) : Sys × String :=
  let toks := (line.trimAscii.toString.splitOn " ").filter (· != "")
  let s := { s with out := [], fault := none, crashed := none }
  match toks with
  | ["version", v] => ({ s with srv := { s.srv with version := v.toNat! } }, "ok")
  | ["open", c] => let (_, s') := (openConn c.toNat!).run s; (s', "ok")
  | ["close", c] => let (_, s') := (closeConn c.toNat!).run s; (s', "ok")
  | ["conn", b] => ({ s with srv := { s.srv with connected := b == "1" } }, "ok")
  | ["snap"] => (s, renderSnap s)
  | "cmd" :: c :: park :: clocks :: picks :: args =>
    match args.mapM unhexTok with
    | none => (s, "bad-op")
    | some fields =>
      if false then (s, "R C:ConnectionError")
      else
        let s := { s with clocks := parseClocks clocks, picks := parsePicks picks }
        let (_, s') := (sendallGuarded { park := park == "1", async := park == "2" } c.toNat! (encodeRequest fields)).run s
        let extra := if !s'.clocks.isEmpty then " F:unused_clock_readings" else if !s'.picks.isEmpty then " F:unused_picks" else ""
        (s', renderOut s' ++ extra)
  | ["send", c, clocks, picks, data] =>
    match unhexTok data with
    | none => (s, "bad-op")
    | some bytes =>
      if false then (s, "R C:ConnectionError")
      else
        let s := { s with clocks := parseClocks clocks, picks := parsePicks picks }
        let (_, s') := (sendallGuarded {} c.toNat! bytes).run s
        let extra := if !s'.clocks.isEmpty then " F:unused_clock_readings" else if !s'.picks.isEmpty then " F:unused_picks" else ""
        (s', renderOut s' ++ extra)
  | ["sendm", c, park, clocks, picks, data] =>
    -- one write of arbitrary bytes (several requests) in the given front-end mode
    match unhexTok data with
    | none => (s, "bad-op")
    | some bytes =>
      let s := { s with clocks := parseClocks clocks, picks := parsePicks picks }
      let (_, s') := (sendallGuarded { park := park == "1", async := park == "2" } c.toNat! bytes).run s
      let extra := if !s'.clocks.isEmpty then " F:unused_clock_readings" else if !s'.picks.isEmpty then " F:unused_picks" else ""
      (s', renderOut s' ++ extra)
  | ["wake", c, clocks] =>
    let s := { s with clocks := parseClocks clocks, picks := [] }
    let (_, s') := (wakeConn c.toNat!).run s
    (s', renderOut s' ++ (if !s'.clocks.isEmpty then " F:unused_clock_readings" else ""))
  | ["timeout", c] =>
    let (_, s') := (timeoutConn c.toNat!).run s
    (s', renderOut s')
  | ["awake", c, clocks] =>
    let s := { s with clocks := parseClocks clocks, picks := [] }
    let (_, s') := (wakeConnAsync { async := true } c.toNat!).run s
    (s', renderOut s' ++ (if !s'.clocks.isEmpty then " F:unused_clock_readings" else ""))
  | ["atimeout", c, clocks] =>
    let s := { s with clocks := parseClocks clocks, picks := [] }
    let (_, s') := (timeoutConnAsync { async := true } c.toNat!).run s
    (s', renderOut s' ++ (if !s'.clocks.isEmpty then " F:unused_clock_readings" else ""))
  | ["gc", c] => let (_, s') := (gcConn c.toNat!).run s; (s', "ok")
  | "lockcheck" :: evs =>
    match Lockset.parseToks 0 evs with
    | .error i => (s, s!"L bad {i} parse-error")
    | .ok tr =>
      let verdict := Lockset.checkTrace tr
      if verdict.startsWith "ok" then
        (s, "L " ++ verdict ++ " | " ++ " ".intercalate ((Lockset.cmdOrder tr).map toString))
      else (s, "L " ++ verdict)
  | ["glob", p, subj] =>
    match unhexTok p, unhexTok subj with
    | some p, some subj => (s, s!"G {Glob.globMatch p subj} {Glob.rglob p subj}")
    | _, _ => (s, "bad-op")
  | ["rxtext", p] =>
    -- the text of the regular expression `compile_pattern(p)` builds
    match unhexTok p with
    | some p => (s, "X " ++ toHex (Glob.render (Glob.compile p)))
    | none => (s, "bad-op")
  | "globs" :: p :: subjects =>
    match unhexTok p, subjects.mapM unhexTok with
    | some p, some ss =>
      (s, "G " ++ String.ofList (ss.map fun x => if Glob.globMatch p x then '1' else '0') ++ " "
            ++ String.ofList (ss.map fun x => if Glob.rglob p x then '1' else '0'))
    | _, _ => (s, "bad-op")
  | ["conv", kind, v] =>
    match unhexTok v with
    | none => (s, "bad-op")
    | some b =>
      let showE {α} (f : α → String) : Except Err α → String
        | .ok x => "ok " ++ f x
        | .error e => "err " ++ toHex (strBytes e)
      let dbl (d : Dbl) : String := toString d.toBits.toNat
      let lexS : LexB → String
        | .before => "before" | .after => "after" | .val x => "v" ++ toHex x
      let r := match kind with
        | "int" => showE toString (Conv.int b)
        | "dbindex" => showE toString (Conv.dbIndex b)
        | "bitoffset" => showE toString (Conv.bitOffset b)
        | "bitvalue" => showE toString (Conv.bitValue b)
        | "timeout" => showE toString (Conv.timeout b)
        | "float" => showE dbl (Conv.float b)
        | "sortfloat" => showE dbl (Conv.sortFloat b)
        | "score" => showE (fun p => dbl p.1 ++ (if p.2 then " excl" else " incl")) (Conv.scoreTest b)
        | "lex" => showE (fun p => lexS p.1 ++ (if p.2 then " excl" else " incl")) (Conv.stringTest b)
        | "pyfloat" => (match PyFloat.parse b with | some d => "ok " ++ dbl d | none => "err")
        | _ => "bad-op"
      (s, "V " ++ r)
  | ["fmt", kind, bits] =>
    let d := Dbl.ofBits (UInt64.ofNat bits.toNat!)
    (s, "V " ++ toHex (match kind with
      | "g" => strBytes (Dbl.fmtG17 d)
      | "f" => strBytes (Dbl.fmtF17Human d)
      | "enc6g" => Cmd.encodeFloat 6 d false
      | "enc7g" => Cmd.encodeFloat 7 d false
      | "enc6f" => Cmd.encodeFloat 6 d true
      | _ => Cmd.encodeFloat 7 d true))
  | ["arith", op, a, b] =>
    let x := Dbl.ofBits (UInt64.ofNat a.toNat!)
    let y := Dbl.ofBits (UInt64.ofNat b.toNat!)
    (s, "V " ++ toString (match op with
      | "add" => (Dbl.add x y).toBits.toNat
      | "mul" => (Dbl.mul x y).toBits.toNat
      | "lt" => if Dbl.lt x y then 1 else 0
      | "eq" => if Dbl.eq x y then 1 else 0
      | _ => 0))
  | ["encreq", fieldsHex] =>
    -- parse a byte stream to exhaustion with the model's request parser
    match unhexTok fieldsHex with
    | none => (s, "bad-op")
    | some buf =>
      let rec go (fuel : Nat) (b : Bytes) (acc : List (List Bytes)) : List (List Bytes) × Bytes :=
        match fuel with
        | 0 => (acc.reverse, b)
        | f + 1 => match tryParse b with
          | some (fs, rest) => go f rest (fs :: acc)
          | none => (acc.reverse, b)
      let (reqs, rest) := go (buf.length + 1) buf []
      (s, "P " ++ ";".intercalate (reqs.map fun r => if r.isEmpty then "-" else ",".intercalate (r.map fun f => if f.isEmpty then "_" else toHex f)) ++ " | " ++ (if rest.isEmpty then "_" else toHex rest))
  | _ => (s, "bad-op")

partial def loop (h : IO.FS.Stream) (out : IO.FS.Stream) (s : Sys) : IO Unit := do
  let line ← h.getLine
  if line.isEmpty then return ()
  if line.trimAscii.toString == "reset" then
    out.putStrLn "ok"
    out.flush
    loop h out {}
  else
    let (s', o) := stepLine s line
    out.putStrLn o
    out.flush
    loop h out s'

def main : IO Unit := do
  loop (← IO.getStdin) (← IO.getStdout) {}
