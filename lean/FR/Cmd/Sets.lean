import FR.Cmd.Strings
import FR.Cmd.Scan
/-! # Set command bodies (and the HyperLogLog commands, which are exact sets here) -/
namespace FR.Cmd
open FR

def setOf (c : CI) : List Bytes :=
  match c.val with
  | some (.set s) => s
  | _ => []

def setIns (s : List Bytes) (m : Bytes) : List Bytes := if s.contains m then s else s ++ [m]
def setUnion (a b : List Bytes) : List Bytes := b.foldl setIns a
def setInter (a b : List Bytes) : List Bytes := a.filter b.contains
def setDiff (a b : List Bytes) : List Bytes := a.filter (fun x => !b.contains x)
def dedup (l : List Bytes) : List Bytes := l.foldl setIns []

def putSet (cis : List CI) (k : Nat) (s : List Bytes) : List CI :=
  cis.set k { ciAt cis k with val := some (.set s), modified := true }

def saddCore (cis : List CI) (k : Nat) (ms : List Bytes) : List CI × Nat :=
  let old := setOf (ciAt cis k)
  let s := setUnion old ms
  (putSet cis k s, s.length - old.length)

def sadd : Body := fun _ args cis =>
  match args with
  | .key k :: ms =>
    let (cs, n) := saddCore cis k (rawArgs ms)
    ret (.int n) cs
  | _ => .error "model: bad args"

def scard : Body := fun _ args cis =>
  match args with
  | [.key k] => ret (.int (setOf (ciAt cis k)).length) cis
  | _ => .error "model: bad args"

inductive SetOp where | diff | inter | union deriving DecidableEq

/-- `_calc_setop` (all operands are typed `Key(set)`, so they are sets or empty defaults) -/
def calcSetop (op : SetOp) (first : List Bytes) (others : List (List Bytes)) : List Bytes :=
  let stop := op == .inter
  if stop && first.isEmpty then []
  else
    let rec go : List Bytes → List (List Bytes) → List Bytes
      | ans, [] => ans
      | ans, v :: rest =>
        if stop && v.isEmpty then []
        else go (match op with | .diff => setDiff ans v | .inter => setInter ans v | .union => setUnion ans v) rest
    go first others

def setopRead (op : SetOp) : Body := fun _ args cis =>
  match keyIdxsS args with
  | k :: ks => ret (Reply.bulks (calcSetop op (setOf (ciAt cis k)) (ks.map fun i => setOf (ciAt cis i)))) cis
  | [] => .error "model: bad args"
where keyIdxsS : List Arg → List Nat
  | [] => []
  | .key k :: rest => k :: keyIdxsS rest
  | _ :: rest => keyIdxsS rest

def setopStore (op : SetOp) : Body := fun _ args cis =>
  match keyIdxsS args with
  | d :: k :: ks =>
    let ans := calcSetop op (setOf (ciAt cis k)) (ks.map fun i => setOf (ciAt cis i))
    ret (.int ans.length) (cis.set d ((ciAt cis d).setValue (some (.set ans))))
  | _ => .error "model: bad args"
where keyIdxsS : List Arg → List Nat
  | [] => []
  | .key k :: rest => k :: keyIdxsS rest
  | _ :: rest => keyIdxsS rest

def sdiff := setopRead .diff
def sinter := setopRead .inter
def sunion := setopRead .union
def sdiffstore := setopStore .diff
def sinterstore := setopStore .inter
def sunionstore := setopStore .union

def sismember : Body := fun _ args cis =>
  match args with
  | [.key k, .raw m] => ret (.int (if (setOf (ciAt cis k)).contains m then 1 else 0)) cis
  | _ => .error "model: bad args"

def smismember : Body := fun _ args cis =>
  match args with
  | .key k :: ms =>
    let s := setOf (ciAt cis k)
    ret (.arr ((rawArgs ms).map fun m => .int (if s.contains m then 1 else 0))) cis
  | _ => .error "model: bad args"

def smembers : Body := fun _ args cis =>
  match args with
  | [.key k] => ret (Reply.bulks (setOf (ciAt cis k))) cis
  | _ => .error "model: bad args"

def smove : Body := fun _ args cis =>
  match args with
  | [.key s, .key d, .raw m] =>
    let cs := ciAt cis s
    let cd := ciAt cis d
    let src := setOf cs
    if !src.contains m then ret (.int 0) cis
    else if cs.key == cd.key then
      -- one shared Python set: remove then add
      let s' := setIns (src.filter (· != m)) m
      ret (.int 1) (putSet (putSet cis s s') d s')
    else
      ret (.int 1) (putSet (putSet cis s (src.filter (· != m))) d (setIns (setOf cd) m))
  | _ => .error "model: bad args"

def intArgs : List Arg → List Int
  | [] => []
  | .int n :: rest => n :: intArgs rest
  | _ :: rest => intArgs rest

/-- is `pick` a duplicate-free sub-list of `s`? -/
def validSample (s pick : List Bytes) : Bool :=
  pick.all s.contains && (dedup pick).length == pick.length

/-- SRANDMEMBER core: reply, picks used; `none` = the recorded pick is not a legal one -/
def srandCore (ctx : Ctx) (s : List Bytes) (count : Option Int) : Option (Reply × Nat × List Bytes) :=
  match count with
  | none =>
    if s.isEmpty then some (.nil, 0, [])
    else match ctx.picks with
      | [x] :: _ => if s.contains x then some (.bulk x, 1, [x]) else none
      | _ => none
  | some n =>
    if n ≥ 0 then
      let want := min n.toNat s.length
      match ctx.picks with
      | p :: _ => if validSample s p && p.length == want then some (Reply.bulks p, 1, p) else none
      | [] => none
    else
      if s.isEmpty then some (.arr [], 0, [])
      else
        let want := (-n).toNat
        let ps := ctx.picks.take want
        if ps.length == want && ps.all (fun p => match p with | [x] => s.contains x | _ => false)
        then some (Reply.bulks ps.flatten, want, ps.flatten) else none

def srandmember : Body := fun ctx args cis =>
  match args with
  | .key k :: rest =>
    let counts := intArgs rest
    if counts.length > 1 then .error Msgs.SYNTAX_ERROR_MSG
    else match srandCore ctx (setOf (ciAt cis k)) counts.head? with
      | none => .error "model: invalid random pick"
      | some (r, used, _) => .ok { reply := r, cis := cis, picksUsed := used }
  | _ => .error "model: bad args"

def spop : Body := fun ctx args cis =>
  match args with
  | .key k :: rest =>
    let counts := intArgs rest
    if counts.length > 1 then .error Msgs.SYNTAX_ERROR_MSG
    else
      let s := setOf (ciAt cis k)
      match counts.head? with
      | none =>
        match srandCore ctx s none with
        | none => .error "model: invalid random pick"
        | some (r, used, picked) =>
          if picked.isEmpty then .ok { reply := r, cis := cis, picksUsed := used }
          else .ok { reply := r, cis := putSet cis k (setDiff s picked), picksUsed := used }
      | some n =>
        if n < 0 then .error Msgs.INDEX_ERROR_MSG
        else match srandCore ctx s (some n) with
          | none => .error "model: invalid random pick"
          | some (r, used, picked) =>
            if picked.isEmpty then .ok { reply := r, cis := cis, picksUsed := used }
            else .ok { reply := r, cis := putSet cis k (setDiff s picked), picksUsed := used }
  | _ => .error "model: bad args"

def srem : Body := fun _ args cis =>
  match args with
  | .key k :: ms =>
    let s := setOf (ciAt cis k)
    let s' := setDiff s (rawArgs ms)
    let deleted := s.length - s'.length
    if deleted > 0 then ret (.int deleted) (putSet cis k s') else ret (.int 0) cis
  | _ => .error "model: bad args"

def sscan : Body := fun _ args cis =>
  match args with
  | .key k :: .int cursor :: rest =>
    let elems := sortBy bytesLt (setOf (ciAt cis k))
    match scanReply elems id (fun _ => []) false cursor (rawArgs rest) (fun page => page.map .bulk) with
    | .ok r => ret r cis
    | .error e => .error e
  | _ => .error "model: bad args"

def pfadd : Body := fun _ args cis =>
  match args with
  | .key k :: ms =>
    let (cs, n) := saddCore cis k (rawArgs ms)
    ret (.int (if n > 0 then 1 else 0)) cs
  | _ => .error "model: bad args"

def pfcount : Body := fun ctx args cis =>
  match sunion ctx args cis with
  | .ok o => (match o.reply with
    | .arr xs => ret (.int xs.length) cis
    | _ => .error "model: bad reply")
  | .error e => .error e

def pfmerge : Body := fun _ args cis =>
  match args with
  | .key d :: srcs =>
    let ks := srcs.filterMap fun a => match a with | .key i => some i | _ => none
    let ans := calcSetop .union (setOf (ciAt cis d)) (ks.map fun i => setOf (ciAt cis i))
    -- the destination is modified in place: its deadline is kept
    ret .ok (cis.set d ((ciAt cis d).update (.set ans)))
  | _ => .error "model: bad args"

end FR.Cmd
