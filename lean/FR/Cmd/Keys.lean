import FR.Cmd.Env
/-! # Generic key command bodies (the regular ones) -/
namespace FR.Cmd
open FR

def keyIdxs : List Arg → List Nat
  | [] => []
  | .key k :: rest => k :: keyIdxs rest
  | _ :: rest => keyIdxs rest

/-- `_delete` -/
def deleteCore (cis : List CI) (ks : List Nat) : List CI × Int × List Bytes :=
  ks.foldl (fun (st : List CI × Int × List Bytes) k =>
    let (cs, n, done) := st
    let c := ciAt cs k
    if c.truthy && !done.contains c.key then (cs.set k (c.setValue none), n + 1, c.key :: done)
    else st) (cis, 0, [])

def del : Body := fun _ args cis =>
  let (cs, n, _) := deleteCore cis (keyIdxs args)
  ret (.int n) cs

def exists_ : Body := fun _ args cis =>
  ret (.int ((keyIdxs args).filter (fun k => (ciAt cis k).truthy)).length) cis

/-- `_expireat` -/
def expireatCore (ctx : Ctx) (cis : List CI) (k : Nat) (ts : Int) : Except Err BodyOut :=
  let c := ciAt cis k
  if !c.truthy then ret (.int 0) cis
  else if ts ≤ ctx.time then ret (.int 1) (cis.set k (c.setValue none))
  else ret (.int 1) (cis.set k (c.setExpire (some ts)))

/-- `_check_expire_ms`: the deadline `ms + basetime_ms` must be a signed 64-bit number of
milliseconds -/
def expireMsBad (ms basetimeMs : Int) : Bool := ms + basetimeMs ≥ 2 ^ 63 || ms < -(2 ^ 63)

/-- `int(self._db.time * 1000)` (the clock is never negative) -/
def basetimeMs (ctx : Ctx) : Int := ctx.time / TICKS_MS

def expire : Body := fun ctx args cis =>
  match args with
  | [.key k, .int s] =>
    if expireMsBad (s * 1000) (basetimeMs ctx) then .error (Msgs.fmt1 Msgs.INVALID_EXPIRE_MSG "expire")
    else expireatCore ctx cis k (ctx.time + s * TICKS)
  | _ => .error "model: bad args"
def expireat : Body := fun ctx args cis =>
  match args with
  | [.key k, .int s] =>
    if expireMsBad (s * 1000) 0 then .error (Msgs.fmt1 Msgs.INVALID_EXPIRE_MSG "expireat")
    else expireatCore ctx cis k (s * TICKS)
  | _ => .error "model: bad args"
def pexpire : Body := fun ctx args cis =>
  match args with
  | [.key k, .int ms] =>
    if expireMsBad ms (basetimeMs ctx) then .error (Msgs.fmt1 Msgs.INVALID_EXPIRE_MSG "pexpire")
    else expireatCore ctx cis k (ctx.time + ms * TICKS_MS)
  | _ => .error "model: bad args"
def pexpireat : Body := fun ctx args cis =>
  match args with
  | [.key k, .int ms] => expireatCore ctx cis k (ms * TICKS_MS)
  | _ => .error "model: bad args"

/-- `_ttl` -/
def ttlCore (ctx : Ctx) (cis : List CI) (k : Nat) (scale : Int) : Except Err BodyOut :=
  let c := ciAt cis k
  if !c.truthy then ret (.int (-2)) cis
  else match c.expireat with
    | none => ret (.int (-1)) cis
    | some e => ret (.int (roundHalfUp ((e - ctx.time) * scale) TICKS)) cis

def ttl : Body := fun ctx args cis =>
  match args with
  | [.key k] => ttlCore ctx cis k 1
  | _ => .error "model: bad args"
def pttl : Body := fun ctx args cis =>
  match args with
  | [.key k] => ttlCore ctx cis k 1000
  | _ => .error "model: bad args"

def type_ : Body := fun _ args cis =>
  match args with
  | [.key k] =>
    match (ciAt cis k).val with
    | none => ret (.status (strBytes "none")) cis
    | some v => ret (.status (strBytes v.ty.name)) cis
  | _ => .error "model: bad args"

def persist : Body := fun _ args cis =>
  match args with
  | [.key k] =>
    let c := ciAt cis k
    match c.expireat with
    | none => ret (.int 0) cis
    | some _ => ret (.int 1) (cis.set k (c.setExpire none))
  | _ => .error "model: bad args"

def renameCore (cis : List CI) (k nk : Nat) : List CI :=
  let c := ciAt cis k
  let n := ciAt cis nk
  if n.key != c.key then
    let n' := (n.setValue c.val).setExpire c.expireat
    (cis.set nk n').set k (c.setValue none)
  else cis

def rename : Body := fun _ args cis =>
  match args with
  | [.key k, .key nk] =>
    if !(ciAt cis k).truthy then .error Msgs.NO_KEY_MSG
    else ret .ok (renameCore cis k nk)
  | _ => .error "model: bad args"

def renamenx : Body := fun _ args cis =>
  match args with
  | [.key k, .key nk] =>
    if !(ciAt cis k).truthy then .error Msgs.NO_KEY_MSG
    else if (ciAt cis nk).truthy then ret (.int 0) cis
    else ret (.int 1) (renameCore cis k nk)
  | _ => .error "model: bad args"

/-! ## DUMP / RESTORE with an abstract payload

The real payload is `sha1(pickle) ++ pickle`; the harness translates it to and from this textual
form, so that the model never has to know `pickle` or SHA-1 (both external to the repository). -/

def dumpMagic : Bytes := strBytes "FRDUMP:"

def joinWith (sep : UInt8) : List Bytes → Bytes
  | [] => []
  | [x] => x
  | x :: xs => x ++ sep :: joinWith sep xs

/-- hex of an element; the empty string is written `_` so that `[""]` and `[]` differ -/
def hexB (b : Bytes) : Bytes := if b.isEmpty then [95] else strBytes (toHex b)

def dumpValue : Value → Bytes
  | .str b => 83 :: hexB b
  | .list l => 76 :: joinWith 44 (l.map hexB)
  | .set s => 84 :: joinWith 44 ((sortBy bytesLt s).map hexB)
  | .hash h => 72 :: joinWith 44 (h.map fun p => hexB p.1 ++ 61 :: hexB p.2)
  | .zset z => 90 :: joinWith 44 (z.byscore.map fun p => hexB p.2 ++ 61 :: strBytes (toString (Dbl.toBits p.1).toNat))

def splitOn (sep : UInt8) (b : Bytes) : List Bytes :=
  let rec go : Bytes → Bytes → List Bytes
    | [], cur => [cur.reverse]
    | c :: rest, cur => if c == sep then cur.reverse :: go rest [] else go rest (c :: cur)
  go b []

def unhexB (b : Bytes) : Option Bytes := if b == [95] then some [] else fromHex (bytesStr b)

def parseItems (b : Bytes) : List Bytes := if b.isEmpty then [] else splitOn 44 b

def loadValue : Bytes → Option Value
  | 83 :: rest => (unhexB rest).map .str
  | 76 :: rest => ((parseItems rest).mapM unhexB).map .list
  | 84 :: rest => ((parseItems rest).mapM unhexB).map .set
  | 72 :: rest =>
    ((parseItems rest).mapM fun it =>
      match splitOn 61 it with
      | [a, b] => (unhexB a).bind fun a' => (unhexB b).map fun b' => (a', b')
      | _ => none).map .hash
  | 90 :: rest =>
    ((parseItems rest).mapM fun it =>
      match splitOn 61 it with
      | [a, b] =>
        (unhexB a).bind fun a' =>
          if b.all isDigit && !b.isEmpty then some (a', Dbl.ofBits (UInt64.ofNat (digitsVal b))) else none
      | _ => none).map fun (ps : List (Bytes × Dbl)) =>
        Value.zset (ps.foldl (fun (z : ZSet) (p : Bytes × Dbl) => (z.add p.1 p.2).1) ZSet.empty)
  | _ => none

def dump : Body := fun _ args cis =>
  match args with
  | [.key k] =>
    match (ciAt cis k).val with
    | some v => ret (.bulk (dumpMagic ++ dumpValue v)) cis
    | none => ret .nil cis
  | _ => .error "model: bad args"

def restore : Body := fun ctx args cis =>
  match args with
  | .key k :: .int ttl :: .raw payload :: rest =>
    let opts := rawArgs' rest
    if !opts.all (fun a => casematch a "replace") then .error Msgs.SYNTAX_ERROR_MSG
    else
      let replace := !opts.isEmpty
      let c := ciAt cis k
      if c.truthy && !replace then .error Msgs.RESTORE_KEY_EXISTS
      else
        let body := payload.drop dumpMagic.length
        match (if payload.take dumpMagic.length == dumpMagic then loadValue body else none) with
        | none => .error Msgs.RESTORE_INVALID_CHECKSUM_MSG
        | some v =>
          if ttl < 0 then .error Msgs.RESTORE_INVALID_TTL_MSG
          else
            let e : Option Int := if ttl == 0 then none else some (ctx.time + ttl * TICKS_MS)
            ret .ok (cis.set k ((c.setValue (some v)).setExpire e))
  | _ => .error "model: bad args"
where rawArgs' : List Arg → List Bytes
  | [] => []
  | .raw b :: rest => b :: rawArgs' rest
  | _ :: rest => rawArgs' rest

end FR.Cmd
