import FR.Cmd.Env
/-! # String, counter and bitmap command bodies -/
namespace FR.Cmd

open FR

/-- `key.get(default)` for a `Key(bytes)` item -/
def strGet (c : CI) (dflt : Bytes) : Bytes :=
  match c.val with
  | some (.str b) => b
  | _ => dflt

def append : Body := fun _ args cis =>
  match args with
  | [.key k, .raw v] =>
    let c := ciAt cis k
    let old := strGet c []
    if old.length + v.length > Conv.MAX_STRING_SIZE then .error Msgs.STRING_OVERFLOW_MSG
    else
      let nv := old ++ v
      ret (.int nv.length) (cis.set k (c.update (.str nv)))
  | _ => .error "model: bad args"

def bitcount : Body := fun _ args cis =>
  match args with
  | .key k :: rest =>
    let v := strGet (ciAt cis k) []
    match rest with
    | [] => ret (.int ((v.map popcount8).sum)) cis
    | [.raw a, .raw b] =>
      match Conv.int a with
      | .error e => .error e
      | .ok s =>
        match Conv.int b with
        | .error e => .error e
        | .ok e =>
          let (s', e') := fixRangeString s e v.length
          ret (.int (((Py.slice v s' e').map popcount8).sum)) cis
    | _ => .error Msgs.SYNTAX_ERROR_MSG
  | _ => .error "model: bad args"

def incrbyCore (cis : List CI) (k : Nat) (amount : Int) : Except Err BodyOut :=
  let c := ciAt cis k
  match Conv.int (strGet c (strBytes "0")) with
  | .error e => .error e
  | .ok cur =>
    let n := cur + amount
    match Conv.encodeInt n with
    | .error e => .error e
    | .ok enc => ret (.int n) (cis.set k (c.update (.str enc)))

def incrby : Body := fun _ args cis =>
  match args with
  | [.key k, .int a] => incrbyCore cis k a
  | _ => .error "model: bad args"
def decrby : Body := fun _ args cis =>
  match args with
  | [.key k, .int a] =>
    -- the smallest 64-bit integer cannot be negated
    if a == -9223372036854775808 then .error Msgs.DECR_OVERFLOW_MSG else incrbyCore cis k (-a)
  | _ => .error "model: bad args"
def incr : Body := fun _ args cis =>
  match args with
  | [.key k] => incrbyCore cis k 1
  | _ => .error "model: bad args"
def decr : Body := fun _ args cis =>
  match args with
  | [.key k] => incrbyCore cis k (-1)
  | _ => .error "model: bad args"

/-- `_encodefloat` -/
def encodeFloat (version : Nat) (d : Dbl) (human : Bool) : Bytes :=
  Dbl.encode (if version ≥ 7 then d.plusZero else d) human

def incrbyfloat : Body := fun ctx args cis =>
  match args with
  | [.key k, .raw amount] =>
    let c := ciAt cis k
    match Conv.float (strGet c (strBytes "0")) with
    | .error e => .error e
    | .ok cur =>
      match Conv.float amount with
      | .error e => .error e
      | .ok a =>
        let s := Dbl.add cur a
        if !s.isFinite then .error Msgs.NONFINITE_MSG
        else
          let enc := encodeFloat ctx.version s true
          ret (.bulk enc) (cis.set k (c.update (.str enc)))
  | _ => .error "model: bad args"

def get : Body := fun _ args cis =>
  match args with
  | [.key k] =>
    match (ciAt cis k).val with
    | some (.str b) => ret (.bulk b) cis
    | _ => ret .nil cis
  | _ => .error "model: bad args"

def getbit : Body := fun _ args cis =>
  match args with
  | [.key k, .int off] =>
    let v := strGet (ciAt cis k) []
    let byte := (off / 8).toNat
    let bit := 7 - (off % 8).toNat
    match v[byte]? with
    | none => ret (.int 0) cis
    | some b => ret (.int (if (b.toNat >>> bit) % 2 == 1 then 1 else 0)) cis
  | _ => .error "model: bad args"

def setbit : Body := fun _ args cis =>
  match args with
  | [.key k, .int off, .int value] =>
    let c := ciAt cis k
    let v := strGet c [0]
    let byte := (off / 8).toNat
    let bit := 7 - (off % 8).toNat
    let v := if v.length < byte + 1 then v ++ List.replicate (byte + 1 - v.length) 0 else v
    let old := (v.getD byte 0).toNat
    let mask := 1 <<< bit
    let new := if value == 1 then old ||| mask else old &&& (255 - mask)
    let oldBit : Int := if old == new then value else 1 - value
    ret (.int oldBit) (cis.set k (c.update (.str (v.set byte (UInt8.ofNat new)))))
  | _ => .error "model: bad args"

def getrange : Body := fun _ args cis =>
  match args with
  | [.key k, .int s, .int e] =>
    let v := strGet (ciAt cis k) []
    let (s', e') := fixRangeString s e v.length
    ret (.bulk (Py.slice v s' e')) cis
  | _ => .error "model: bad args"

def getset : Body := fun _ args cis =>
  match args with
  | [.key k, .raw v] =>
    let c := ciAt cis k
    let old : Reply := match c.val with | some (.str b) => .bulk b | _ => .nil
    ret old (cis.set k (c.setValue (some (.str v))))
  | _ => .error "model: bad args"

def mget : Body := fun _ args cis =>
  ret (.arr (args.map fun a => match a with
    | .key k => (match (ciAt cis k).val with | some (.str b) => Reply.bulk b | _ => Reply.nil)
    | _ => Reply.nil)) cis

/-- the `(key, value)` pairs of MSET/MSETNX -/
def pairsOf : List Arg → List (Nat × Bytes)
  | .key k :: .raw v :: rest => (k, v) :: pairsOf rest
  | _ => []

def msetCore (cis : List CI) (ps : List (Nat × Bytes)) : List CI :=
  ps.foldl (fun cs p => cs.set p.1 ((ciAt cs p.1).setValue (some (.str p.2)))) cis

def mset : Body := fun _ args cis => ret .ok (msetCore cis (pairsOf args))

def msetnx : Body := fun _ args cis =>
  let ps := pairsOf args
  if ps.any (fun p => (ciAt cis p.1).truthy) then ret (.int 0) cis
  else ret (.int 1) (msetCore cis ps)

structure SetOpts where
  ex : Option Int := none
  px : Option Int := none
  xx : Bool := false
  nx : Bool := false
  keepttl : Bool := false
  get : Bool := false

def parseSetOpts (time : Int) : List Bytes → SetOpts → Except Err SetOpts
  | [], o => .ok o
  | a :: rest, o =>
    if casematch a "nx" then parseSetOpts time rest { o with nx := true }
    else if casematch a "xx" then parseSetOpts time rest { o with xx := true }
    else if casematch a "ex" && !rest.isEmpty then
      match rest with
      | v :: rest' =>
        match Conv.int v with
        | .error e => .error e
        | .ok ex =>
          if ex ≤ 0 ∨ time + ex * TICKS ≥ 2 ^ 63 * TICKS_MS then .error (Msgs.fmt1 Msgs.INVALID_EXPIRE_MSG "set")
          else parseSetOpts time rest' { o with ex := some ex }
      | [] => .error Msgs.SYNTAX_ERROR_MSG
    else if casematch a "px" && !rest.isEmpty then
      match rest with
      | v :: rest' =>
        match Conv.int v with
        | .error e => .error e
        | .ok px =>
          if px ≤ 0 ∨ time + px * TICKS_MS ≥ 2 ^ 63 * TICKS_MS then .error (Msgs.fmt1 Msgs.INVALID_EXPIRE_MSG "set")
          else parseSetOpts time rest' { o with px := some px }
      | [] => .error Msgs.SYNTAX_ERROR_MSG
    else if casematch a "keepttl" then parseSetOpts time rest { o with keepttl := true }
    else if casematch a "get" then parseSetOpts time rest { o with get := true }
    else .error Msgs.SYNTAX_ERROR_MSG

def rawArgs : List Arg → List Bytes
  | [] => []
  | .raw b :: rest => b :: rawArgs rest
  | _ :: rest => rawArgs rest

def set : Body := fun ctx args cis =>
  match args with
  | .key k :: .raw value :: rest =>
    match parseSetOpts ctx.time (rawArgs rest) {} with
    | .error e => .error e
    | .ok o =>
      let nExp := (if o.px.isSome then 1 else 0) + (if o.ex.isSome then 1 else 0) + (if o.keepttl then 1 else 0)
      if (o.xx && o.nx) || nExp > 1 then .error Msgs.SYNTAX_ERROR_MSG
      else if o.nx && o.get && ctx.version < 7 then .error Msgs.SYNTAX_ERROR_MSG
      else
        let c := ciAt cis k
        let wrong := o.get && (match c.val with | none => false | some (.str _) => false | some _ => true)
        if wrong then .error Msgs.WRONGTYPE_MSG
        else
          let old : Reply := if o.get then (match c.val with | some (.str b) => .bulk b | _ => .nil) else .nil
          if o.nx && c.truthy then ret old cis
          else if o.xx && !c.truthy then ret old cis
          else
            let c := if !o.keepttl then c.setValue (some (.str value)) else c.update (.str value)
            let c := match o.ex with | some ex => c.setExpire (some (ctx.time + ex * TICKS)) | none => c
            let c := match o.px with | some px => c.setExpire (some (ctx.time + px * TICKS_MS)) | none => c
            ret (if o.get then old else .ok) (cis.set k c)
  | _ => .error "model: bad args"

def setex : Body := fun ctx args cis =>
  match args with
  | [.key k, .int secs, .raw v] =>
    if secs ≤ 0 ∨ ctx.time + secs * TICKS ≥ 2 ^ 63 * TICKS_MS then .error (Msgs.fmt1 Msgs.INVALID_EXPIRE_MSG "setex")
    else
      let c := ((ciAt cis k).setValue (some (.str v))).setExpire (some (ctx.time + secs * TICKS))
      ret .ok (cis.set k c)
  | _ => .error "model: bad args"

def psetex : Body := fun ctx args cis =>
  match args with
  | [.key k, .int ms, .raw v] =>
    if ms ≤ 0 ∨ ctx.time + ms * TICKS_MS ≥ 2 ^ 63 * TICKS_MS then .error (Msgs.fmt1 Msgs.INVALID_EXPIRE_MSG "psetex")
    else
      let c := ((ciAt cis k).setValue (some (.str v))).setExpire (some (ctx.time + ms * TICKS_MS))
      ret .ok (cis.set k c)
  | _ => .error "model: bad args"

def setnx : Body := fun _ args cis =>
  match args with
  | [.key k, .raw v] =>
    let c := ciAt cis k
    if c.truthy then ret (.int 0) cis
    else ret (.int 1) (cis.set k (c.setValue (some (.str v))))
  | _ => .error "model: bad args"

def setrange : Body := fun _ args cis =>
  match args with
  | [.key k, .int off, .raw v] =>
    let c := ciAt cis k
    if off < 0 then .error Msgs.INVALID_OFFSET_MSG
    else if v.isEmpty then ret (.int (strGet c []).length) cis
    else if off + v.length > Conv.MAX_STRING_SIZE then .error Msgs.STRING_OVERFLOW_MSG
    else
      let out := strGet c []
      let o := off.toNat
      let out := if out.length < o then out ++ List.replicate (o - out.length) 0 else out
      let out := out.take o ++ v ++ out.drop (o + v.length)
      ret (.int out.length) (cis.set k (c.update (.str out)))
  | _ => .error "model: bad args"

def strlen : Body := fun _ args cis =>
  match args with
  | [.key k] => ret (.int (strGet (ciAt cis k) []).length) cis
  | _ => .error "model: bad args"

end FR.Cmd
