import FR.Cmd.Strings
import FR.Cmd.Keys
import FR.Cmd.Hashes
import FR.Cmd.Lists
import FR.Cmd.Sets
import FR.Cmd.ZSets
/-! # Dispatch table of the regular (pure) command bodies -/
namespace FR.Cmd

def regular : String → Option Body
  | "append" => some append | "bitcount" => some bitcount | "decr" => some decr | "decrby" => some decrby
  | "incr" => some incr | "incrby" => some incrby | "incrbyfloat" => some incrbyfloat | "get" => some get
  | "getbit" => some getbit | "setbit" => some setbit | "getrange" => some getrange | "substr" => some getrange
  | "getset" => some getset | "mget" => some mget | "mset" => some mset | "msetnx" => some msetnx
  | "set" => some set | "setex" => some setex | "psetex" => some psetex | "setnx" => some setnx
  | "setrange" => some setrange | "strlen" => some strlen
  | "del" => some del | "unlink" => some del | "exists" => some exists_ | "expire" => some expire
  | "expireat" => some expireat | "pexpire" => some pexpire | "pexpireat" => some pexpireat
  | "ttl" => some ttl | "pttl" => some pttl | "type" => some type_ | "persist" => some persist
  | "rename" => some rename | "renamenx" => some renamenx | "dump" => some dump | "restore" => some restore
  | "hdel" => some hdel | "hexists" => some hexists | "hget" => some hget | "hgetall" => some hgetall
  | "hincrby" => some hincrby | "hincrbyfloat" => some hincrbyfloat | "hkeys" => some hkeys
  | "hlen" => some hlen | "hmget" => some hmget | "hmset" => some hmset | "hscan" => some hscan
  | "hset" => some hset | "hsetnx" => some hsetnx | "hstrlen" => some hstrlen | "hvals" => some hvals
  | "lindex" => some lindex | "linsert" => some linsert | "llen" => some llen | "lmove" => some lmove
  | "lpop" => some lpop | "lpush" => some lpush | "lpushx" => some lpushx | "lrange" => some lrange
  | "lrem" => some lrem | "lset" => some lset | "ltrim" => some ltrim | "rpop" => some rpop
  | "rpoplpush" => some rpoplpush | "rpush" => some rpush | "rpushx" => some rpushx
  | "sadd" => some sadd | "scard" => some scard | "sdiff" => some sdiff | "sdiffstore" => some sdiffstore
  | "sinter" => some sinter | "sinterstore" => some sinterstore | "sismember" => some sismember
  | "smismember" => some smismember | "smembers" => some smembers | "smove" => some smove
  | "spop" => some spop | "srandmember" => some srandmember | "srem" => some srem | "sscan" => some sscan
  | "sunion" => some sunion | "sunionstore" => some sunionstore
  | "pfadd" => some pfadd | "pfcount" => some pfcount | "pfmerge" => some pfmerge
  | "zadd" => some zadd | "zcard" => some zcard | "zcount" => some zcount | "zincrby" => some zincrby
  | "zlexcount" => some zlexcount | "zrange" => some zrange | "zrevrange" => some zrevrange
  | "zrangebylex" => some zrangebylex | "zrevrangebylex" => some zrevrangebylex
  | "zrangebyscore" => some zrangebyscore | "zrevrangebyscore" => some zrevrangebyscore
  | "zrank" => some zrank | "zrevrank" => some zrevrank | "zrem" => some zrem
  | "zremrangebylex" => some zremrangebylex | "zremrangebyscore" => some zremrangebyscore
  | "zremrangebyrank" => some zremrangebyrank | "zscan" => some zscan | "zscore" => some zscore
  | _ => none

end FR.Cmd
