import FR.Cmd.Sig
/-!
# Python idioms used by the generated translation of `CommandItem` (`FR/Generated/Mech.lean`)

These few definitions say what the Python expressions in `CommandItem.writeback` / `__bool__` mean on the model's values;
they are part of the trusted reading of CPython (like `Prelude/Py.lean`), everything else in `Generated/Mech.lean` is
produced from the source text.
-/
namespace FR.Mech
open FR

/-- `bool(x)` for the objects a `CommandItem` can hold: `None`, `bytes`, `list`, `set`, `Hash`, `ZSet` -/
def pyTruth : Option Value → Bool
  | none => false
  | some (.str b) => !b.isEmpty
  | some v => !v.isEmptyColl

/-- `isinstance(x, bytes)` -/
def isBytes : Option Value → Bool
  | some (.str _) => true
  | _ => false

/-- `item = db.setdefault(key, Item(None)); item.value = v; item.expireat = e` (`v = None` is never stored: `None` is
falsy and not `bytes`, so `writeback` pops instead) -/
def store (db : Db) (k : Bytes) (v : Option Value) (e : Option Int) : Db :=
  match v with
  | some v => db.put k v e
  | none => db

/-- `key in db` (`Mapping.__contains__` → `__getitem__`: drops the entry if it has expired) -/
def contains (db : Db) (k : Bytes) : Db × Bool :=
  match db.get k with
  | (db', some _) => (db', true)
  | (db', none) => (db', false)

/-- `db[key].expireat = e` for a key just seen to be present and alive (the second `__getitem__` finds it again) -/
def setDeadline (db : Db) (k : Bytes) (e : Option Int) : Db :=
  match db.dict.lookup k with
  | some it => { db with dict := Db.setRaw db.dict k { it with expireat := e } }
  | none => db

end FR.Mech
