import FR.Data.Db
import FR.Prelude.Reply
import FR.Cmd.Msgs
/-!
# `Signature`, argument converters, `CommandItem` (`_commands.py`)
-/
namespace FR

abbrev Err := String

inductive MissingRet where
  | unspecified | nil | int (n : Int)
  deriving Repr, DecidableEq, Inhabited

inductive ArgTy where
  | bytes | int | dbIndex | bitOffset | bitValue | timeout | float | scoreTest | stringTest | sstr
  | key (ty : Option Ty) (missing : MissingRet)
  deriving Repr, DecidableEq, Inhabited

structure Sig where
  name : String
  fixed : List ArgTy
  rep : List ArgTy
  noScript : Bool
  /-- the Python parameter list of the body after `self`: required, optional, has `*args` -/
  pyReq : Nat
  pyOpt : Nat
  pyVar : Bool
  deriving Repr, DecidableEq, Inhabited

/-- converted argument -/
inductive Arg where
  | raw (b : Bytes)
  | int (n : Int)
  | flt (d : Dbl)
  | score (d : Dbl) (excl : Bool)
  | lex (b : LexB) (excl : Bool)
  | key (i : Nat)
  deriving Repr, Inhabited

/-- `CommandItem` -/
structure CI where
  key : Bytes
  val : Option Value
  expireat : Option Int
  modified : Bool := false
  expMod : Bool := false
  deriving Repr, Inhabited

namespace CI
/-- `__bool__` -/
def truthy (c : CI) : Bool :=
  match c.val with
  | none => false
  | some (.str _) => true
  | some v => !v.isEmptyColl

/-- `value` setter -/
def setValue (c : CI) (v : Option Value) : CI :=
  { c with val := v, modified := true, expireat := none, expMod := true }
/-- `expireat` setter -/
def setExpire (c : CI) (e : Option Int) : CI :=
  { c with expireat := e, expMod := true, modified := true }
def update (c : CI) (v : Value) : CI := { c with val := some v, modified := true }
def updated (c : CI) : CI := { c with modified := true }

/-- `writeback`: new database and whether `notify_watch(key)` was called -/
def writeback (c : CI) (db : Db) : Db × Bool :=
  if c.modified then
    match c.val with
    | none => (db.pop c.key, true)
    | some v => if v.isEmptyColl then (db.pop c.key, true) else (db.put c.key v c.expireat, true)
  else if c.expMod then
    -- dead branch (`expMod → modified`), modelled for fidelity
    match db.get c.key with
    | (db', some it) => ({ db' with dict := Db.setRaw db'.dict c.key { it with expireat := c.expireat } }, false)
    | (db', none) => (db', false)
  else (db, false)
end CI

/-! ## Converters -/
namespace Conv

def intRange (lo hi : Int) (msg : String) (b : Bytes) : Except Err Int :=
  match parseCanonInt b with
  | some n => if lo ≤ n ∧ n ≤ hi then .ok n else .error msg
  | none => .error msg

def INT_MIN : Int := -(2 ^ 63)
def INT_MAX : Int := 2 ^ 63 - 1
def MAX_STRING_SIZE : Nat := 512 * 1024 * 1024
def BIT_OFFSET_MAX : Int := 8 * (MAX_STRING_SIZE : Int) - 1

def int (b : Bytes) : Except Err Int := intRange INT_MIN INT_MAX Msgs.INVALID_INT_MSG b
def dbIndex (b : Bytes) : Except Err Int := intRange 0 15 Msgs.INVALID_DB_MSG b
def bitOffset (b : Bytes) : Except Err Int := intRange 0 BIT_OFFSET_MAX Msgs.INVALID_BIT_OFFSET_MSG b
def bitValue (b : Bytes) : Except Err Int := intRange 0 1 Msgs.INVALID_BIT_VALUE_MSG b
def timeout (b : Bytes) : Except Err Int := intRange 0 INT_MAX Msgs.TIMEOUT_NEGATIVE_MSG b

/-- `Int.encode` -/
def encodeInt (n : Int) : Except Err Bytes :=
  if INT_MIN ≤ n ∧ n ≤ INT_MAX then .ok (intBytes n) else .error Msgs.OVERFLOW_MSG

/-- `re.match(b'^[^a-zA-Z]*[1-9]', value)` -/
def nonzeroDigitBeforeLetter : Bytes → Bool
  | [] => false
  | c :: rest =>
    if 49 ≤ c && c ≤ 57 then true
    else if (65 ≤ c && c ≤ 90) || (97 ≤ c && c ≤ 122) then false
    else nonzeroDigitBeforeLetter rest

/-- `Float.decode` with its four flags -/
def floatGen (msg : String) (allowLeadWs allowErange allowEmpty cropNull : Bool) (b : Bytes) : Except Err Dbl :=
  let v := if cropNull then nullTerminate b else b
  let v := if allowEmpty && v.isEmpty then strBytes "0.0" else v
  if !allowLeadWs && (v.head?.map PyFloat.isSpace).getD false then .error msg
  else if (v.getLast?.map PyFloat.isSpace).getD false then .error msg
  else if v.contains 95 then .error msg
  else match PyFloat.parse v with
    | none => .error msg
    | some d =>
      if d.isNaN then .error msg
      else if !allowErange && (d.isInf || d.isZero) && nonzeroDigitBeforeLetter v then .error msg
      else .ok d

def float (b : Bytes) : Except Err Dbl := floatGen Msgs.INVALID_FLOAT_MSG false false false false b
/-- `SortFloat.decode` -/
def sortFloat (b : Bytes) : Except Err Dbl := floatGen Msgs.INVALID_SORT_FLOAT_MSG true false true true b

/-- `ScoreTest.decode` -/
def scoreTest (b : Bytes) : Except Err (Dbl × Bool) :=
  let (excl, v) : Bool × Bytes := match b with
    | 40 :: r => (true, r)
    | _ => (false, b)
  match floatGen Msgs.INVALID_FLOAT_MSG true true true true v with
  | .ok d => .ok (d, excl)
  | .error _ => .error Msgs.INVALID_MIN_MAX_FLOAT_MSG

/-- `StringTest.decode` -/
def stringTest (b : Bytes) : Except Err (LexB × Bool) :=
  if b == [45] then .ok (.before, true)
  else if b == [43] then .ok (.after, true)
  else match b with
    | 40 :: r => .ok (.val r, true)
    | 91 :: r => .ok (.val r, false)
    | _ => .error Msgs.INVALID_MIN_MAX_STR_MSG

def decode (t : ArgTy) (b : Bytes) : Except Err Arg :=
  match t with
  | .bytes | .sstr => .ok (.raw b)
  | .int => (int b).map .int
  | .dbIndex => (dbIndex b).map .int
  | .bitOffset => (bitOffset b).map .int
  | .bitValue => (bitValue b).map .int
  | .timeout => (timeout b).map .int
  | .float => (float b).map .flt
  | .scoreTest => (scoreTest b).map (fun p => .score p.1 p.2)
  | .stringTest => (stringTest b).map (fun p => .lex p.1 p.2)
  | .key _ _ => .ok (.raw b)
end Conv

namespace Sig

def wrongArgs (s : Sig) : Err := Msgs.fmt1 Msgs.WRONG_ARGS_MSG s.name

/-- `Signature.check_arity` (true = accepted) -/
def checkArity (s : Sig) (n : Nat) : Bool :=
  if n != s.fixed.length then
    !(n < s.fixed.length || s.rep.isEmpty)
  else true

/-- the converter list for `n` arguments -/
def types (s : Sig) (n : Nat) : List ArgTy :=
  s.fixed ++ (List.range (n - s.fixed.length)).map (fun i => s.rep.getD (i % s.rep.length) .bytes)

inductive Applied where
  | short (r : Reply)
  | ok (args : List Arg) (cis : List CI)
  deriving Repr, Inhabited

def missingReply : MissingRet → Reply
  | .nil => .nil
  | .int n => .int n
  | .unspecified => .nil

/-- first pass: convert non-keys left to right; short-circuit on a missing key with a `missing_return` -/
def pass1 : Db → List (Bytes × ArgTy) → List Arg → Db × Except Err (Sum Reply (List Arg))
  | db, [], acc => (db, .ok (.inr acc.reverse))
  | db, (b, t) :: rest, acc =>
    match t with
    | .key _ mr =>
      if mr != .unspecified then
        match db.get b with
        | (db', none) => (db', .ok (.inl (missingReply mr)))
        | (db', some _) => pass1 db' rest (.raw b :: acc)
      else pass1 db rest (.raw b :: acc)
    | _ =>
      match Conv.decode t b with
      | .error e => (db, .error e)
      | .ok a => pass1 db rest (a :: acc)

/-- second pass: look the keys up (lazy expiry), check the stored type, build the `CommandItem`s -/
def pass2 : Db → List (Arg × ArgTy) → List Arg → List CI → Db × Except Err (List Arg × List CI)
  | db, [], accA, accC => (db, .ok (accA.reverse, accC.reverse))
  | db, (a, t) :: rest, accA, accC =>
    match t, a with
    | .key ty _, .raw k =>
      match db.get k with
      | (db', item) =>
        match ty, item with
        | some ty, some it =>
          if it.value.ty != ty then (db', .error Msgs.WRONGTYPE_MSG)
          else pass2 db' rest (.key accC.length :: accA) (⟨k, some it.value, it.expireat, false, false⟩ :: accC)
        | some ty, none =>
          pass2 db' rest (.key accC.length :: accA) (⟨k, ty.default, none, false, false⟩ :: accC)
        | none, some it =>
          pass2 db' rest (.key accC.length :: accA) (⟨k, some it.value, it.expireat, false, false⟩ :: accC)
        | none, none =>
          pass2 db' rest (.key accC.length :: accA) (⟨k, none, none, false, false⟩ :: accC)
    | _, _ => pass2 db rest (a :: accA) accC

/-- `Signature.apply` -/
def apply (s : Sig) (raw : List Bytes) (db : Db) : Db × Except Err Applied :=
  if !s.checkArity raw.length then (db, .error s.wrongArgs)
  else if !s.rep.isEmpty && (raw.length - s.fixed.length) % s.rep.length != 0 then (db, .error s.wrongArgs)
  else
    let tys := s.types raw.length
    match pass1 db (raw.zip tys) [] with
    | (db1, .error e) => (db1, .error e)
    | (db1, .ok (.inl r)) => (db1, .ok (.short r))
    | (db1, .ok (.inr args)) =>
      match pass2 db1 (args.zip tys) [] [] with
      | (db2, .error e) => (db2, .error e)
      | (db2, .ok (args', cis)) => (db2, .ok (.ok args' cis))

end Sig
end FR
