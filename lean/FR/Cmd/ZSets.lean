import FR.Cmd.Strings
import FR.Cmd.Scan
/-! # Sorted-set command bodies (all but ZUNIONSTORE/ZINTERSTORE, which read the database) -/
namespace FR.Cmd
open FR

def zsetOf (c : CI) : ZSet :=
  match c.val with
  | some (.zset z) => z
  | _ => ZSet.empty

def putZ (cis : List CI) (k : Nat) (z : ZSet) : List CI :=
  cis.set k { ciAt cis k with val := some (.zset z), modified := true }

def fmtScore (ctx : Ctx) (d : Dbl) : Bytes := encodeFloat ctx.version d false

/-- `_apply_withscores` -/
def withScores (ctx : Ctx) (items : List (Dbl × Bytes)) (ws : Bool) : List Reply :=
  if ws then items.flatMap fun p => [.bulk p.2, .bulk (fmtScore ctx p.1)]
  else items.map fun p => .bulk p.2

/-- `_limit_items` -/
def limitItems {α} : List α → Int → Int → List α
  | [], _, _ => []
  | x :: xs, offset, count =>
    if offset != 0 then limitItems xs (offset - 1) count
    else if count == 0 then []
    else x :: limitItems xs 0 (count - 1)

structure ZaddFlags where
  ch : Bool := false
  nx : Bool := false
  xx : Bool := false
  incr : Bool := false

def parseZaddFlags : List Bytes → ZaddFlags → ZaddFlags × List Bytes
  | [], f => (f, [])
  | a :: rest, f =>
    if casematch a "ch" then parseZaddFlags rest { f with ch := true }
    else if casematch a "nx" then parseZaddFlags rest { f with nx := true }
    else if casematch a "xx" then parseZaddFlags rest { f with xx := true }
    else if casematch a "incr" then parseZaddFlags rest { f with incr := true }
    else (f, a :: rest)

def parseScorePairs (version : Nat) : List Bytes → Except Err (List (Dbl × Bytes))
  | s :: m :: rest =>
    match Conv.float s with
    | .error e => .error e
    | .ok d =>
      match parseScorePairs version rest with
      | .error e => .error e
      | .ok ps => .ok ((if version ≥ 7 then d.plusZero else d, m) :: ps)
  | _ => .ok []

/-- `zincrby` -/
def zincrbyCore (ctx : Ctx) (cis : List CI) (k : Nat) (incr : Dbl) (m : Bytes) : Except Err BodyOut :=
  let z := zsetOf (ciAt cis k)
  let score := match z.get m with
    | some old => Dbl.add old incr
    | none => incr
  if score.isNaN then .error Msgs.SCORE_NAN_MSG
  else ret (.bulk (fmtScore ctx score)) (putZ cis k (z.add m score).1)

def zadd : Body := fun ctx args cis =>
  match args with
  | .key k :: rest =>
    let (f, elements) := parseZaddFlags (rawArgs rest) {}
    if f.nx && f.xx then .error Msgs.ZADD_NX_XX_ERROR_MSG
    else if elements.isEmpty || elements.length % 2 != 0 then .error Msgs.SYNTAX_ERROR_MSG
    else if f.incr && elements.length != 2 then .error Msgs.ZADD_INCR_LEN_ERROR_MSG
    else match parseScorePairs ctx.version elements with
      | .error e => .error e
      | .ok items =>
        let z := zsetOf (ciAt cis k)
        if f.incr then
          match items with
          | (s, m) :: _ =>
            if (f.nx && z.contains m) || (f.xx && !z.contains m) then ret .nil cis
            else zincrbyCore ctx cis k s m
          | [] => .error "model: bad args"
        else
          let (z', changed) := items.foldl (fun (st : ZSet × Nat) p =>
            if (!f.nx || !st.1.contains p.2) && (!f.xx || st.1.contains p.2) then
              let (z2, ch) := st.1.add p.2 p.1
              (z2, if ch then st.2 + 1 else st.2)
            else st) (z, 0)
          let cis' := if changed > 0 then putZ cis k z' else cis
          ret (.int (if f.ch then (changed : Int) else (z'.len : Int) - z.len)) cis'
  | _ => .error "model: bad args"

def zcard : Body := fun _ args cis =>
  match args with
  | [.key k] => ret (.int (zsetOf (ciAt cis k)).len) cis
  | _ => .error "model: bad args"

/-- `ScoreTest.lower_bound` / `upper_bound` tails -/
def lowerTail (excl : Bool) : LexB := if excl then .after else .before
def upperTail (excl : Bool) : LexB := if excl then .before else .after

def zcount : Body := fun _ args cis =>
  match args with
  | [.key k, .score mn mne, .score mx mxe] =>
    ret (.int ((zsetOf (ciAt cis k)).zcount mn (lowerTail mne) mx (upperTail mxe))) cis
  | _ => .error "model: bad args"

def zincrby : Body := fun ctx args cis =>
  match args with
  | [.key k, .flt incr, .raw m] => zincrbyCore ctx cis k incr m
  | _ => .error "model: bad args"

def zlexcount : Body := fun _ args cis =>
  match args with
  | [.key k, .lex mn mne, .lex mx mxe] =>
    ret (.int ((zsetOf (ciAt cis k)).zlexcount mn mne mx mxe)) cis
  | _ => .error "model: bad args"

/-- `_zrange` -/
def zrangeGen (reverse : Bool) : Body := fun ctx args cis =>
  match args with
  | .key k :: .int start :: .int stop :: rest =>
    let opts := rawArgs rest
    if !opts.all (fun a => casematch a "withscores") then .error Msgs.SYNTAX_ERROR_MSG
    else
      let ws := !opts.isEmpty
      let z := zsetOf (ciAt cis k)
      let len : Int := z.len
      let (a, b) := fixRange start stop len
      let (a, b) := if reverse then (len - b, len - a) else (a, b)
      let items := Py.slice z.byscore a b
      let items := if reverse then items.reverse else items
      ret (.arr (withScores ctx items ws)) cis
  | _ => .error "model: bad args"

def zrange := zrangeGen false
def zrevrange := zrangeGen true

/-- `_zrangebylex` -/
def zrangebylexGen (reverse : Bool) (mn : LexB) (mne : Bool) (mx : LexB) (mxe : Bool) (k : Nat)
    (opts : List Bytes) (cis : List CI) : Except Err BodyOut :=
  let parsed : Except Err (Int × Int) :=
    match opts with
    | [] => .ok (0, -1)
    | [l, o, c] =>
      if !casematch l "limit" then .error Msgs.SYNTAX_ERROR_MSG
      else match Conv.int o with
        | .error e => .error e
        | .ok off => match Conv.int c with
          | .error e => .error e
          | .ok cnt => .ok (off, cnt)
    | _ => .error Msgs.SYNTAX_ERROR_MSG
  match parsed with
  | .error e => .error e
  | .ok (off, cnt) =>
    let items := (zsetOf (ciAt cis k)).irangeLex mn mx (!mne) (!mxe)
    let items := if reverse then items.reverse else items
    ret (Reply.bulks (limitItems items off cnt)) cis

def zrangebylex : Body := fun _ args cis =>
  match args with
  | .key k :: .lex mn mne :: .lex mx mxe :: rest => zrangebylexGen false mn mne mx mxe k (rawArgs rest) cis
  | _ => .error "model: bad args"

def zrevrangebylex : Body := fun _ args cis =>
  match args with
  | .key k :: .lex mx mxe :: .lex mn mne :: rest => zrangebylexGen true mn mne mx mxe k (rawArgs rest) cis
  | _ => .error "model: bad args"

structure RbsOpts where
  ws : Bool := false
  off : Int := 0
  cnt : Int := -1

def parseRbsOpts : List Bytes → RbsOpts → Except Err RbsOpts
  | [], o => .ok o
  | a :: rest, o =>
    if casematch a "withscores" then parseRbsOpts rest { o with ws := true }
    else if casematch a "limit" && rest.length ≥ 2 then
      match rest with
      | x :: y :: rest' =>
        match Conv.int x with
        | .error e => .error e
        | .ok off => match Conv.int y with
          | .error e => .error e
          | .ok cnt => parseRbsOpts rest' { o with off := off, cnt := cnt }
      | _ => .error Msgs.SYNTAX_ERROR_MSG
    else .error Msgs.SYNTAX_ERROR_MSG

/-- `_zrangebyscore` -/
def zrangebyscoreGen (reverse : Bool) (ctx : Ctx) (mn : Dbl) (mne : Bool) (mx : Dbl) (mxe : Bool) (k : Nat)
    (opts : List Bytes) (cis : List CI) : Except Err BodyOut :=
  match parseRbsOpts opts {} with
  | .error e => .error e
  | .ok o =>
    let items := (zsetOf (ciAt cis k)).irange mn (lowerTail mne) mx (upperTail mxe) true true
    let items := if reverse then items.reverse else items
    ret (.arr (withScores ctx (limitItems items o.off o.cnt) o.ws)) cis

def zrangebyscore : Body := fun ctx args cis =>
  match args with
  | .key k :: .score mn mne :: .score mx mxe :: rest => zrangebyscoreGen false ctx mn mne mx mxe k (rawArgs rest) cis
  | _ => .error "model: bad args"

def zrevrangebyscore : Body := fun ctx args cis =>
  match args with
  | .key k :: .score mx mxe :: .score mn mne :: rest => zrangebyscoreGen true ctx mn mne mx mxe k (rawArgs rest) cis
  | _ => .error "model: bad args"

def zrank : Body := fun _ args cis =>
  match args with
  | [.key k, .raw m] =>
    match (zsetOf (ciAt cis k)).rank m with
    | some r => ret (.int r) cis
    | none => ret .nil cis
  | _ => .error "model: bad args"

def zrevrank : Body := fun _ args cis =>
  match args with
  | [.key k, .raw m] =>
    let z := zsetOf (ciAt cis k)
    match z.rank m with
    | some r => ret (.int ((z.len : Int) - 1 - r)) cis
    | none => ret .nil cis
  | _ => .error "model: bad args"

/-- `zrem` on the zset -/
def zremCore (cis : List CI) (k : Nat) (ms : List Bytes) : Except Err BodyOut :=
  let z := zsetOf (ciAt cis k)
  let z' := ms.foldl ZSet.discard z
  let deleted := z.len - z'.len
  if deleted > 0 then ret (.int deleted) (putZ cis k z') else ret (.int 0) cis

def zrem : Body := fun _ args cis =>
  match args with
  | .key k :: ms => zremCore cis k (rawArgs ms)
  | _ => .error "model: bad args"

def zremrangebylex : Body := fun _ args cis =>
  match args with
  | [.key k, .lex mn mne, .lex mx mxe] =>
    zremCore cis k ((zsetOf (ciAt cis k)).irangeLex mn mx (!mne) (!mxe))
  | _ => .error "model: bad args"

def zremrangebyscore : Body := fun _ args cis =>
  match args with
  | [.key k, .score mn mne, .score mx mxe] =>
    zremCore cis k (((zsetOf (ciAt cis k)).irange mn (lowerTail mne) mx (upperTail mxe) true true).map Prod.snd)
  | _ => .error "model: bad args"

def zremrangebyrank : Body := fun _ args cis =>
  match args with
  | [.key k, .int start, .int stop] =>
    let z := zsetOf (ciAt cis k)
    let (a, b) := fixRange start stop z.len
    zremCore cis k ((Py.slice z.byscore a b).map Prod.snd)
  | _ => .error "model: bad args"

def zscan : Body := fun ctx args cis =>
  match args with
  | .key k :: .int cursor :: rest =>
    let z := zsetOf (ciAt cis k)
    let elems := sortBy (fun (a b : Bytes × Dbl) => bytesLt a.1 b.1) z.bylex
    match scanReply elems Prod.fst (fun _ => []) false cursor (rawArgs rest)
        (fun page => page.flatMap fun p => [.bulk p.1, .bulk (fmtScore ctx p.2)]) with
    | .ok r => ret r cis
    | .error e => .error e
  | _ => .error "model: bad args"

def zscore : Body := fun ctx args cis =>
  match args with
  | [.key k, .raw m] =>
    match (zsetOf (ciAt cis k)).get m with
    | some s => ret (.bulk (fmtScore ctx s)) cis
    | none => ret .nil cis
  | _ => .error "model: bad args"

end FR.Cmd
