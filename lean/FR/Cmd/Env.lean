import FR.Cmd.Sig
import FR.Prelude.Py
/-!
# Execution context of command bodies

A *regular* body is a pure function of its converted arguments, its `CommandItem`s, the clock,
the emulated version and (for the three random commands) the recorded random picks.
-/
namespace FR

/-- clock units per second: the model clock counts 100 ns ticks -/
def TICKS : Int := 10000000
def TICKS_MS : Int := 10000

structure Ctx where
  version : Nat
  time : Int
  dbnum : Nat := 0
  inTx : Bool := false
  /-- remaining recorded results of `random.sample` / `random.choice` / set iteration orders -/
  picks : List (List Bytes) := []
  deriving Repr, Inhabited

structure BodyOut where
  reply : Reply
  cis : List CI
  picksUsed : Nat := 0
  deriving Repr, Inhabited

abbrev Body := Ctx → List Arg → List CI → Except Err BodyOut

def ciAt (cis : List CI) (i : Nat) : CI := cis.getD i default

def ret (r : Reply) (cis : List CI) : Except Err BodyOut := .ok { reply := r, cis := cis }

/-- `_fix_range_string` -/
def fixRangeString (start stop : Int) (len : Int) : Int × Int :=
  if start < 0 ∧ stop < 0 ∧ start > stop then (-1, -1)
  else
    let start := if start < 0 then max 0 (start + len) else start
    let stop := if stop < 0 then max 0 (stop + len) else stop
    let stop := min stop (len - 1)
    (start, stop + 1)

/-- `_fix_range` -/
def fixRange (start stop : Int) (len : Int) : Int × Int :=
  let start := if start < 0 then max 0 (start + len) else start
  let stop := if stop < 0 then stop + len else stop
  if start > stop ∨ start ≥ len then (-1, -1)
  else (start, min stop (len - 1) + 1)

/-- `floor(num/den + 1/2)` (round half up, as Redis' `(ttl_ms + 500) / 1000`), `den > 0` -/
def roundHalfUp (num : Int) (den : Int) : Int := (2 * num + den) / (2 * den)

/-- Python `round(num/den)` (half to even), `den > 0` -/
def roundHalfEven (num : Int) (den : Int) : Int :=
  let q := num / den      -- floor division (Int.div rounds toward -inf for positive den via `/` = `Int.div`? we use emod below)
  let r := num - q * den
  let q := if r < 0 then q - 1 else q
  let r := if r < 0 then r + den else r
  if 2 * r > den then q + 1
  else if 2 * r < den then q
  else if q % 2 == 0 then q else q + 1

def popcount8 (c : UInt8) : Nat :=
  (List.range 8).foldl (fun acc i => acc + ((c.toNat >>> i) % 2)) 0

end FR
