import FR.Cmd.Strings
/-! # List command bodies (non-blocking ones) -/
namespace FR.Cmd
open FR

def listOf (c : CI) : List Bytes :=
  match c.val with
  | some (.list l) => l
  | _ => []

def setList (cis : List CI) (k : Nat) (l : List Bytes) : List CI :=
  cis.set k { ciAt cis k with val := some (.list l), modified := true }

def lindex : Body := fun _ args cis =>
  match args with
  | [.key k, .int i] => ret (Reply.ofOptBulk (Py.index? (listOf (ciAt cis k)) i)) cis
  | _ => .error "model: bad args"

def linsert : Body := fun _ args cis =>
  match args with
  | [.key k, .raw wh, .raw pivot, .raw v] =>
    if !casematch wh "before" && !casematch wh "after" then .error Msgs.SYNTAX_ERROR_MSG
    else
      let c := ciAt cis k
      if !c.truthy then ret (.int 0) cis
      else
        let l := listOf c
        match Py.indexOf? l pivot with
        | none => ret (.int (-1)) cis
        | some i =>
          let i := if casematch wh "after" then i + 1 else i
          let l' := Py.insertAt l i v
          ret (.int l'.length) (setList cis k l')
  | _ => .error "model: bad args"

def llen : Body := fun _ args cis =>
  match args with
  | [.key k] => ret (.int (listOf (ciAt cis k)).length) cis
  | _ => .error "model: bad args"

/-- `lpush`: each value is inserted at the head in turn -/
def pushLeft (l : List Bytes) (vs : List Bytes) : List Bytes := vs.reverse ++ l
def pushRight (l : List Bytes) (vs : List Bytes) : List Bytes := l ++ vs

def lpush : Body := fun _ args cis =>
  match args with
  | .key k :: vs =>
    let l := pushLeft (listOf (ciAt cis k)) (rawArgs vs)
    ret (.int l.length) (setList cis k l)
  | _ => .error "model: bad args"

def rpush : Body := fun _ args cis =>
  match args with
  | .key k :: vs =>
    let l := pushRight (listOf (ciAt cis k)) (rawArgs vs)
    ret (.int l.length) (setList cis k l)
  | _ => .error "model: bad args"

def lpushx : Body := fun ctx args cis =>
  match args with
  | .key k :: _ => if !(ciAt cis k).truthy then ret (.int 0) cis else lpush ctx args cis
  | _ => .error "model: bad args"

def rpushx : Body := fun ctx args cis =>
  match args with
  | .key k :: _ => if !(ciAt cis k).truthy then ret (.int 0) cis else rpush ctx args cis
  | _ => .error "model: bad args"

def lrange : Body := fun _ args cis =>
  match args with
  | [.key k, .int s, .int e] =>
    let l := listOf (ciAt cis k)
    let (a, b) := fixRange s e l.length
    ret (Reply.bulks (Py.slice l a b)) cis
  | _ => .error "model: bad args"

/-- indices of the occurrences of `v` -/
def occurrences (l : List Bytes) (v : Bytes) : List Nat :=
  (l.zipIdx.filter (fun p => p.1 == v)).map Prod.snd

def lrem : Body := fun _ args cis =>
  match args with
  | [.key k, .int count, .raw v] =>
    let l := listOf (ciAt cis k)
    let found := occurrences l v
    let rm : List Nat :=
      if count > 0 then found.take count.toNat
      else if count < 0 then found.drop (found.length - (-count).toNat)
      else found
    if rm.isEmpty then ret (.int 0) cis
    else
      let l' := (l.zipIdx.filter (fun p => !rm.contains p.2)).map Prod.fst
      ret (.int rm.length) (setList cis k l')
  | _ => .error "model: bad args"

def lset : Body := fun _ args cis =>
  match args with
  | [.key k, .int i, .raw v] =>
    let c := ciAt cis k
    if !c.truthy then .error Msgs.NO_KEY_MSG
    else match Py.setIndex? (listOf c) i v with
      | none => .error Msgs.INDEX_ERROR_MSG
      | some l' => ret .ok (setList cis k l')
  | _ => .error "model: bad args"

def ltrim : Body := fun _ args cis =>
  match args with
  | [.key k, .int s, .int e] =>
    let c := ciAt cis k
    if !c.truthy then ret .ok cis
    else
      let l := listOf c
      let nv := if e == -1 then Py.sliceFrom l s else Py.slice l s (e + 1)
      if nv.length != l.length then ret .ok (cis.set k (c.update (.list nv))) else ret .ok cis
  | _ => .error "model: bad args"

/-- `_list_pop` on the list itself: (popped elements in reply order, remaining list) -/
def popLeftN (l : List Bytes) (n : Nat) : List Bytes × List Bytes := (l.take n, l.drop n)
def popRightN (l : List Bytes) (n : Nat) : List Bytes × List Bytes :=
  ((l.drop (l.length - n)).reverse, l.take (l.length - n))

def listPop (left : Bool) : Body := fun ctx args cis =>
  match args with
  | .key k :: rest =>
    let counts := rest.filterMap fun a => match a with | .int n => some n | _ => none
    if counts.length > 1 then .error Msgs.SYNTAX_ERROR_MSG
    else
      let go (count : Nat) (single : Bool) : Except Err BodyOut :=
        let c := ciAt cis k
        if !c.truthy then ret .nil cis
        else match c.val with
          | some (.list l) =>
            let (popped, remaining) := if left then popLeftN l count else popRightN l count
            let r : Reply := if single then Reply.ofOptBulk popped.head? else Reply.bulks popped
            ret r (setList cis k remaining)
          | _ => .error Msgs.WRONGTYPE_MSG
      match counts with
      | [] => go 1 true
      | n :: _ =>
        if n < 0 then .error Msgs.INDEX_ERROR_MSG
        else if n == 0 && ctx.version == 6 then ret .nil cis
        else go n.toNat false
  | _ => .error "model: bad args"

def lpop : Body := listPop true
def rpop : Body := listPop false

/-- RPOPLPUSH / LMOVE core. The two `CommandItem`s alias one Python list when the keys are equal. -/
def moveCore (cis : List CI) (s d : Nat) (fromLeft toLeft : Bool) : Except Err BodyOut :=
  let cs := ciAt cis s
  let cd := ciAt cis d
  let src := listOf cs
  let (popped, remaining) := if fromLeft then popLeftN src 1 else popRightN src 1
  match popped.head? with
  | none => ret .nil cis     -- unreachable: a stored list is never empty
  | some el =>
    if cs.key == cd.key then
      let l' := if toLeft then el :: remaining else remaining ++ [el]
      ret (.bulk el) (setList (setList cis s l') d l')
    else
      let dl := listOf cd
      let dl' := if toLeft then el :: dl else dl ++ [el]
      ret (.bulk el) (setList (setList cis s remaining) d dl')

def rpoplpush : Body := fun _ args cis =>
  match args with
  | [.key s, .key d] => moveCore cis s d false true
  | _ => .error "model: bad args"

def lmove : Body := fun _ args cis =>
  match args with
  | [.key s, .key d, .raw src, .raw dst] =>
    let src := casenorm src
    let dst := casenorm dst
    if src != strBytes "left" && src != strBytes "right" then .error Msgs.SYNTAX_ERROR_MSG
    else if dst != strBytes "left" && dst != strBytes "right" then .error Msgs.SYNTAX_ERROR_MSG
    else moveCore cis s d (src == strBytes "left") (dst == strBytes "left")
  | _ => .error "model: bad args"

end FR.Cmd
