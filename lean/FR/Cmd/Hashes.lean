import FR.Cmd.Strings
import FR.Cmd.Scan
/-! # Hash command bodies -/
namespace FR.Cmd
open FR

abbrev HashV := List (Bytes × Bytes)

def hashOf (c : CI) : HashV :=
  match c.val with
  | some (.hash h) => h
  | _ => []

def hdel : Body := fun _ args cis =>
  match args with
  | .key k :: fields =>
    let c := ciAt cis k
    let (h, rem) := (rawArgs fields).foldl (fun (st : HashV × Nat) f =>
      if st.1.any (fun p => p.1 == f) then (ZSet.dictDel st.1 f, st.2 + 1) else st) (hashOf c, 0)
    if rem > 0 then ret (.int rem) (cis.set k { c with val := some (.hash h), modified := true })
    else ret (.int 0) cis
  | _ => .error "model: bad args"

def hexists : Body := fun _ args cis =>
  match args with
  | [.key k, .raw f] => ret (.int (if (hashOf (ciAt cis k)).any (fun p => p.1 == f) then 1 else 0)) cis
  | _ => .error "model: bad args"

def hget : Body := fun _ args cis =>
  match args with
  | [.key k, .raw f] => ret (Reply.ofOptBulk ((hashOf (ciAt cis k)).lookup f)) cis
  | _ => .error "model: bad args"

def hgetall : Body := fun _ args cis =>
  match args with
  | [.key k] => ret (.arr ((hashOf (ciAt cis k)).flatMap fun p => [.bulk p.1, .bulk p.2])) cis
  | _ => .error "model: bad args"

def hincrby : Body := fun _ args cis =>
  match args with
  | [.key k, .raw f, .int amount] =>
    let c := ciAt cis k
    let h := hashOf c
    match Conv.int ((h.lookup f).getD (strBytes "0")) with
    | .error _ => .error Msgs.HASH_NOT_INT_MSG
    | .ok cur =>
      let n := cur + amount
      match Conv.encodeInt n with
      | .error e => .error e
      | .ok enc => ret (.int n) (cis.set k { c with val := some (.hash (ZSet.dictSet h f enc)), modified := true })
  | _ => .error "model: bad args"

def hincrbyfloat : Body := fun ctx args cis =>
  match args with
  | [.key k, .raw f, .raw amount] =>
    let c := ciAt cis k
    let h := hashOf c
    match Conv.float ((h.lookup f).getD (strBytes "0")) with
    | .error _ => .error Msgs.HASH_NOT_FLOAT_MSG
    | .ok cur =>
      match Conv.float amount with
      | .error e => .error e
      | .ok a =>
        let s := Dbl.add cur a
        if !s.isFinite then .error Msgs.NONFINITE_MSG
        else
          let enc := encodeFloat ctx.version s true
          ret (.bulk enc) (cis.set k { c with val := some (.hash (ZSet.dictSet h f enc)), modified := true })
  | _ => .error "model: bad args"

def hkeys : Body := fun _ args cis =>
  match args with
  | [.key k] => ret (Reply.bulks ((hashOf (ciAt cis k)).map Prod.fst)) cis
  | _ => .error "model: bad args"

def hvals : Body := fun _ args cis =>
  match args with
  | [.key k] => ret (Reply.bulks ((hashOf (ciAt cis k)).map Prod.snd)) cis
  | _ => .error "model: bad args"

def hlen : Body := fun _ args cis =>
  match args with
  | [.key k] => ret (.int (hashOf (ciAt cis k)).length) cis
  | _ => .error "model: bad args"

def hmget : Body := fun _ args cis =>
  match args with
  | .key k :: fields =>
    let h := hashOf (ciAt cis k)
    ret (.arr ((rawArgs fields).map fun f => Reply.ofOptBulk (h.lookup f))) cis
  | _ => .error "model: bad args"

def fieldPairs : List Bytes → List (Bytes × Bytes)
  | a :: b :: rest => (a, b) :: fieldPairs rest
  | _ => []

/-- `hset`: number of created fields and the new hash -/
def hsetCore (h : HashV) (ps : List (Bytes × Bytes)) : HashV × Nat :=
  ps.foldl (fun (st : HashV × Nat) p =>
    (ZSet.dictSet st.1 p.1 p.2, if st.1.any (fun q => q.1 == p.1) then st.2 else st.2 + 1)) (h, 0)

def hset : Body := fun _ args cis =>
  match args with
  | .key k :: rest =>
    let c := ciAt cis k
    let (h, created) := hsetCore (hashOf c) (fieldPairs (rawArgs rest))
    ret (.int created) (cis.set k { c with val := some (.hash h), modified := true })
  | _ => .error "model: bad args"

def hmset : Body := fun ctx args cis =>
  match hset ctx args cis with
  | .ok o => .ok { o with reply := .ok }
  | .error e => .error e

def hsetnx : Body := fun ctx args cis =>
  match args with
  | [.key k, .raw f, .raw _] =>
    if (hashOf (ciAt cis k)).any (fun p => p.1 == f) then ret (.int 0) cis
    else hset ctx args cis
  | _ => .error "model: bad args"

def hstrlen : Body := fun _ args cis =>
  match args with
  | [.key k, .raw f] => ret (.int (((hashOf (ciAt cis k)).lookup f).getD []).length) cis
  | _ => .error "model: bad args"

def hscan : Body := fun _ args cis =>
  match args with
  | .key k :: .int cursor :: rest =>
    let h := hashOf (ciAt cis k)
    let fields := sortBy bytesLt (h.map Prod.fst)
    match scanReply fields id (fun _ => []) false cursor (rawArgs rest)
        (fun page => page.flatMap fun f => [.bulk f, .bulk ((h.lookup f).getD [])]) with
    | .ok r => ret r cis
    | .error e => .error e
  | _ => .error "model: bad args"

end FR.Cmd
