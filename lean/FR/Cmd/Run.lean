import FR.Cmd.Table
import FR.Cmd.SigTable
/-!
# The generic runner for regular commands, as a pure function of one database

`_run_command` for a command whose body only touches its `CommandItem`s:
`Signature.apply` (the only reads of the database), the gates (not-in-script, subscriber mode), the
body, and the write-back of every `CommandItem` in argument order.  All generic theorems
(C06, C07, C08, C09) are stated about `runRegular` for an *arbitrary* body.
-/
namespace FR

structure RunOut where
  db : Db
  reply : Reply
  /-- keys for which `notify_watch` was called, in order -/
  notified : List Bytes := []
  picksUsed : Nat := 0
  /-- the run ended on an error path (argument/type error, refused by a gate, body raised) -/
  failed : Bool := false
  fault : Option String := none
  deriving Repr, Inhabited

/-- write back every `CommandItem` in order -/
def writebackPure (db : Db) (cis : List CI) : Db × List Bytes :=
  cis.foldl (fun (st : Db × List Bytes) ci =>
    let (db', n) := ci.writeback st.1
    (db', if n then st.2 ++ [ci.key] else st.2)) (db, [])

/-- the two refusals checked after `apply` and before the body -/
def runGate (sig : Sig) (fromScript : Bool) (subscribed : Bool) : Option Err :=
  if fromScript && sig.noScript then some Msgs.COMMAND_IN_SCRIPT_MSG
  else if subscribed && !SigTable.pubsubAllowed.contains sig.name then some Msgs.BAD_COMMAND_IN_PUBSUB_MSG
  else none

def runRegular (sig : Sig) (body : Body) (ctx : Ctx) (gate : Option Err) (raw : List Bytes) (db : Db) : RunOut :=
  match sig.apply raw db with
  | (db1, .error e) => { db := db1, reply := .err (strBytes e), failed := true }
  | (db1, .ok (.short r)) => { db := db1, reply := r }
  | (db1, .ok (.ok args cis)) =>
    match gate with
    | some e => { db := db1, reply := .err (strBytes e), failed := true }
    | none =>
      match body ctx args cis with
      | .error e =>
        let (db2, ns) := writebackPure db1 cis
        { db := db2, reply := .err (strBytes e), notified := ns, failed := true,
          fault := if e.startsWith "model:" then some e else none }
      | .ok o =>
        let (db2, ns) := writebackPure db1 o.cis
        { db := db2, reply := o.reply, notified := ns, picksUsed := o.picksUsed }

end FR
