import FR.Cmd.Env
import FR.Glob.Compile
/-! # `_scan`: cursor = offset into the sorted element list -/
namespace FR.Cmd
open FR

structure ScanOpts where
  pattern : Option Bytes := none
  count : Int := 10
  ty : Option Bytes := none

def parseScanOpts (allowType : Bool) : List Bytes → ScanOpts → Except Err ScanOpts
  | [], o => .ok o
  | [_], _ => .error Msgs.SYNTAX_ERROR_MSG
  | a :: v :: rest, o =>
    if casematch a "match" then parseScanOpts allowType rest { o with pattern := some v }
    else if casematch a "count" then
      match Conv.int v with
      | .error e => .error e
      | .ok c => if c ≤ 0 then .error Msgs.SYNTAX_ERROR_MSG else parseScanOpts allowType rest { o with count := c }
    else if casematch a "type" && allowType then parseScanOpts allowType rest { o with ty := some v }
    else .error Msgs.SYNTAX_ERROR_MSG

/-- One page.  `elems` must already be sorted (the code calls `sorted(keys)`), `keyOf` projects the
byte string that MATCH/TYPE look at, `typeName` gives the stored type of a key (SCAN only). -/
def scanPage {α} (elems : List α) (keyOf : α → Bytes) (typeName : Bytes → Bytes)
    (cursor : Int) (o : ScanOpts) : Int × List α :=
  let len : Int := elems.length
  let rc := cursor + o.count
  let page := (elems.drop cursor.toNat).take o.count.toNat
  let page := page.filter fun x =>
    (match o.pattern with | some p => Glob.globMatch p (keyOf x) | none => true) &&
    (match o.ty with | some t => casenorm (typeName (keyOf x)) == casenorm t | none => true)
  (if rc ≥ len then 0 else rc, page)

/-- `_scan`: reply `[cursor, page]`, where the page is rendered by `render` -/
def scanReply {α} (elems : List α) (keyOf : α → Bytes) (typeName : Bytes → Bytes) (allowType : Bool)
    (cursor : Int) (opts : List Bytes) (render : List α → List Reply) : Except Err Reply :=
  if cursor < 0 then .error Msgs.INVALID_CURSOR_MSG
  else if opts.length % 2 != 0 then .error Msgs.SYNTAX_ERROR_MSG
  else match parseScanOpts allowType opts {} with
    | .error e => .error e
    | .ok o =>
      if cursor ≥ (elems.length : Int) then .ok (.arr [.bulk (intBytes 0), .arr []])
      else
        let (rc, page) := scanPage elems keyOf typeName cursor o
        .ok (.arr [.bulk (intBytes rc), .arr (render page)])

end FR.Cmd
