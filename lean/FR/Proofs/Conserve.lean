import FR.Proofs.History
import FR.Proofs.AsyncLife
import FR.Proofs.ZStore
import FR.Props.C11
/-!
# Helper lemmas for C11 at history level: no lost wake-up as an invariant over all histories, conservation of list
elements by the blocking pops and their wake-ups, a wake-up serves the first non-empty key

* Part A: a descent through all monadic code of the model for an abstract invariant described by a `Kit`
* Part B: the invariant `Inv` = data invariant + no lost wake-up, its `Kit`, `inv_runHistory`
* Part C: the multiset of stored list elements, conservation by passes / wake-ups / time-outs
-/
/-!
# Part A: a descent through all monadic code for an abstract invariant given by a `Kit`
-/
namespace FR.Conserve
open FR FR.M FR.Db
set_option linter.unusedSimpArgs false
set_option linter.unusedVariables false
set_option linter.unusedSectionVars false

/-! ## deletion-only database updates -/

/-- `db'` was obtained from `db` by deletions only (and has unique keys) -/
structure Del (db db' : Db) : Prop where
  nd : NodupKeys db'.dict
  sub : ∀ q ∈ db'.dict, q ∈ db.dict

theorem Del.of_reads {db db' : Db} (h : Reads db db') : Del db db' := ⟨h.nd, h.sub⟩

theorem Del.get' {db db' : Db} {k : Bytes} {r : Option Item} (nd : NodupKeys db.dict)
    (e : db.get k = (db', r)) : Del db db' := Del.of_reads (Reads.get' nd e)

theorem Del.apply' {db db' : Db} {sig : Sig} {raw : List Bytes} {r : Except Err Sig.Applied}
    (nd : NodupKeys db.dict) (e : sig.apply raw db = (db', r)) : Del db db' := by
  have : db' = (sig.apply raw db).1 := by rw [e]
  subst this; exact Del.of_reads (Sig.apply_reads sig raw nd)

theorem Del.purge {db : Db} (nd : NodupKeys db.dict) : Del db (Db.purge db) :=
  ⟨Db.purge_nodup nd, fun q hq => (List.mem_filter.1 hq).1⟩

theorem Del.keys' {db db' : Db} {ks : List Bytes} (nd : NodupKeys db.dict) (e : db.keys = (db', ks)) :
    Del db db' := by
  have : db' = Db.purge db := (congrArg Prod.fst e).symm
  subst this; exact Del.purge nd

theorem Del.nil (db : Db) (t : Int) : Del db ⟨[], t⟩ :=
  ⟨by unfold NodupKeys; simp, fun q hq => by cases hq⟩

/-! ## the kit -/

/-- an update of a connection record that leaves `parked`, `inTx` and `id` alone -/
def ConnFrame (f : Conn → Conn) : Prop := ∀ x, (f x).parked = x.parked ∧ (f x).inTx = x.inTx ∧ (f x).id = x.id

/-- an update that un-parks -/
def Unpark (f : Conn → Conn) : Prop := ∀ x, (f x).parked = none ∧ (f x).inTx = x.inTx ∧ (f x).id = x.id

/-- an update that parks with record `p` -/
def ParkFn (p : Parked) (f : Conn → Conn) : Prop :=
  ∀ x, (f x).parked = some p ∧ (f x).inTx = x.inTx ∧ (f x).id = x.id

/-- the two states have the same databases and the same connection records -/
def FrEq (s s' : Sys) : Prop := s'.srv.dbs = s.srv.dbs ∧ s'.srv.conns = s.srv.conns

theorem FrEq.refl (s : Sys) : FrEq s s := ⟨rfl, rfl⟩
theorem FrEq.trans {a b c : Sys} (h : FrEq a b) (h' : FrEq b c) : FrEq a c :=
  ⟨h'.1.trans h.1, h'.2.trans h.2⟩
theorem FrEq.updConn {a b : Sys} (h : FrEq a b) (c : Nat) (f : Conn → Conn) : FrEq (a.updConn c f) (b.updConn c f) := by
  refine ⟨h.1, ?_⟩
  show b.srv.conns.map _ = a.srv.conns.map _
  rw [h.2]
theorem FrEq.nextClock (s : Sys) : FrEq s (nextClock s).2 := by
  unfold FrEq; rw [nextClock_srv]; exact ⟨rfl, rfl⟩
theorem FrEq.emitS (s : Sys) (c : Nat) (r : Reply) : FrEq s (s.emitS c r) := by
  unfold FrEq; rw [Sys.emitS_srv]; exact ⟨rfl, rfl⟩
theorem FrEq.conn {a b : Sys} (h : FrEq a b) (c : Nat) : b.conn c = a.conn c := by
  simp only [Sys.conn_def, h.2]

/-- What the descent needs to know about an invariant `I`: it depends only on the databases and the connection
records, it contains the data invariant, and it is preserved by the primitive state changes. -/
class KitBase (I : Sys → Prop) : Prop where
  data : ∀ s, I s → s.DataInv
  frame : ∀ s s', I s → FrEq s s' → I s'
  conn : ∀ s c f, I s → ConnFrame f → I (s.updConn c f)
  unpark : ∀ s c f, I s → Unpark f → I (s.updConn c f)
  notify : ∀ s d k, I s → I (s.mapConns (notifyFn d k))
  del : ∀ s d db', I s → Del (s.dbAt d) db' → I (s.setDbS d db')
  wb : ∀ s d ci, I s → I (s.wbStep d ci)
  regular : ∀ s d sig body ctx gate raw, I s →
    I (s.afterRegular d (runRegular sig body ctx gate raw (s.dbAt d)))
  opn : ∀ s c, I s → I (openConn c s).2
  gc : ∀ s c, I s → I (gcConn c s).2

/-- … and by the bodies that cannot be treated step by step (the invariant is broken and restored inside) -/
class Kit (I : Sys → Prop) : Prop extends KitBase I where
  swap : ∀ args cis, Pres I (swapdbCmd args cis)
  move : ∀ d args cis, Pres I (moveCmd d args cis)
  /-- parking after an unserved first BLPOP/BRPOP pass on the connection's database -/
  parkB : ∀ s c left keys p f, I s → ParkFn p f → p.keys = keys → p.db = (s.conn c).db → p.woken = false →
    (bpopPass (s.conn c).db left true keys s).1 = .ok none →
    I ((bpopPass (s.conn c).db left true keys s).2.updConn c f)
  /-- parking after an unserved first BRPOPLPUSH pass -/
  parkR : ∀ s c src dst p f, I s → ParkFn p f → p.kind = "brpoplpush" → p.keys = [src, dst] →
    p.db = (s.conn c).db → p.woken = false →
    (brpoplpushPass (s.conn c).db src dst true s).1 = .ok none →
    I ((brpoplpushPass (s.conn c).db src dst true s).2.updConn c f)
  /-- staying parked (flag cleared) after an unserved re-check -/
  stay : ∀ s c p f, I s → (s.conn c).parked = some p → ParkFn { p with woken := false } f →
    (parkedPass c p s).1 = .ok none → I ((parkedPass c p s).2.updConn c f)

section base
variable {I : Sys → Prop} [kit : KitBase I]

theorem Kit.nodupAt {s : Sys} (h : I s) (i : Nat) : NodupKeys (s.dbAt i).dict := ((kit.data s h).dbAt i).1

/-! ## leaves -/

theorem k_getConn (c : Nat) : Pres I (getConn c) := fun _ h => h
theorem k_get : Pres I (get : M Sys) := fun _ h => h
theorem k_getDb (i : Nat) : Pres I (getDb i) := fun _ h => h

theorem k_modify_frame (g : Sys → Sys) (h1 : ∀ s, FrEq s (g s)) : Pres I (modify g) :=
  fun s h => kit.frame s _ h (h1 s)

theorem k_emit (c : Nat) (r : Reply) : Pres I (emit c r) := by
  intro s h
  rw [emit_run]
  exact kit.frame s _ h (FrEq.emitS s c r)

theorem k_fault (msg : String) : Pres I (M.fault msg) := by
  intro s h
  show I (if s.fault.isNone then { s with fault := some msg } else s)
  split
  · exact kit.frame s _ h ⟨rfl, rfl⟩
  · exact h

theorem k_nextClock : Pres I nextClock := fun s h => kit.frame s _ h (FrEq.nextClock s)

theorem k_modifyConn (c : Nat) (f : Conn → Conn) (hf : ConnFrame f) : Pres I (modifyConn c f) :=
  fun s h => kit.conn s c f h hf

theorem k_unpark (c : Nat) (f : Conn → Conn) (hf : Unpark f) : Pres I (modifyConn c f) :=
  fun s h => kit.unpark s c f h hf

theorem k_clearWatches (c : Nat) : Pres I (clearWatches c) :=
  k_modifyConn c _ (fun _ => ⟨rfl, rfl, rfl⟩)

theorem k_notifyWatch (d : Nat) (k : Bytes) : Pres I (notifyWatch d k) := fun s h => kit.notify s d k h

theorem k_setDb_del (i : Nat) (db' : Db) {s : Sys} (h : I s) (hd : Del (s.dbAt i) db') : I (setDb i db' s).2 :=
  kit.del s i db' h hd

theorem k_writebackAll (d : Nat) (cis : List CI) : Pres I (writebackAll d cis) := by
  intro s h
  induction cis generalizing s with
  | nil => exact h
  | cons ci cis ih => rw [writebackAll_cons]; exact ih _ (kit.wb s d ci h)

theorem k_liveKeys (d : Nat) : Pres I (liveKeys d) := by
  intro s h
  unfold liveKeys
  simp only [bind, StateT.bind, getDb_run', setDb_run', pure, StateT.pure]
  exact kit.del s d _ h (Del.purge (Kit.nodupAt h d))

theorem k_clearDb (d : Nat) : Pres I (clearDb d) := by
  unfold clearDb
  refine Pres.bind (k_liveKeys d) (fun ks => ?_)
  refine Pres.bind (Pres.forM (fun k => k_notifyWatch d k)) (fun _ => ?_)
  exact fun s h => kit.del s d _ h (Del.nil _ _)

theorem k_okR (r : Reply) (cis : List CI) : Pres I (okR r cis) := Pres.pure _

theorem k_nextPick : Pres I nextPick := by
  unfold nextPick
  refine Pres.get_bind (fun s hs => ?_)
  split
  · exact Pres.at_set_bind (kit.frame s _ hs ⟨rfl, rfl⟩) (Pres.pure _)
  · exact Pres.at_of_pres (Pres.pure _) hs

/-! ## state-dependent rules -/

/-- `getDb` hands out the database of the current state -/
theorem k_getDb_bind {β : Type} (i : Nat) {f : Db → M β} (hf : ∀ s, I s → PresAt I s (f (s.dbAt i))) :
    Pres I (getDb i >>= f) := fun s h => hf s h

theorem k_getConn_bind {β : Type} (c : Nat) {f : Conn → M β} (hf : ∀ s, I s → PresAt I s (f (s.conn c))) :
    Pres I (getConn c >>= f) := fun s h => hf s h

theorem at_setDb_bind {β : Type} {s : Sys} {i : Nat} {db' : Db} {g : PUnit → M β} (hs : I s)
    (hd : Del (s.dbAt i) db') (hg : Pres I (g ⟨⟩)) : PresAt I s (setDb i db' >>= g) :=
  hg _ (kit.del s i db' hs hd)

theorem at_set_bind {β : Type} {s s' : Sys} {g : PUnit → M β} (hs : I s) (h : FrEq s s')
    (hg : Pres I (g ⟨⟩)) : PresAt I s (set s' >>= g) := hg _ (kit.frame s s' hs h)

theorem at_bind {α β : Type} {s : Sys} {m : M α} {f : α → M β} (hm : PresAt I s m) (hf : ∀ a, Pres I (f a)) :
    PresAt I s (m >>= f) := hf _ _ hm

theorem at_bind_val {α β : Type} {s : Sys} {m : M α} {f : α → M β}
    (h : ∀ a s1, m s = (a, s1) → PresAt I s1 (f a)) : PresAt I s (m >>= f) := h _ _ rfl

theorem at_pure {α : Type} {s : Sys} (a : α) (hs : I s) : PresAt I s (Pure.pure a : M α) := hs

/-! ## automation -/

/-- side conditions `Del (s.dbAt i) db'` -/
syntax "k_del" : tactic
macro_rules | `(tactic| k_del) => `(tactic| first
  | exact Del.get' (Kit.nodupAt (by assumption) _) ‹_›
  | exact Del.apply' (Kit.nodupAt (by assumption) _) ‹_›
  | exact Del.keys' (Kit.nodupAt (by assumption) _) ‹_›
  | exact Del.of_reads (Reads.get (Kit.nodupAt (by assumption) _) _)
  | exact Del.of_reads (Sig.apply_reads _ _ (Kit.nodupAt (by assumption) _))
  | exact Del.nil _ _)

syntax "k_connframe" : tactic
macro_rules | `(tactic| k_connframe) => `(tactic| (intro x; exact ⟨rfl, rfl, rfl⟩))

open Lean Elab Tactic Meta in
/-- close a `Pres` goal with a universally quantified hypothesis `∀ x…, Pres I (f x…)` of the context -/
elab "k_hyp" : tactic => withMainContext do
  let g ← getMainGoal
  for ldecl in (← getLCtx) do
    if ldecl.isImplementationDetail then continue
    let ty ← instantiateMVars ldecl.type
    unless ty.isForall && ty.getForallBody.getAppFn.isConstOf ``FR.Pres do continue
    let saved ← saveState
    try
      let gs ← withReducible <| g.apply ldecl.toExpr
      if gs.isEmpty then
        replaceMainGoal []
        return
      else saved.restore
    catch _ => saved.restore
  throwError "k_hyp: no applicable hypothesis"

syntax "k_leaf" : tactic
macro_rules | `(tactic| k_leaf) => `(tactic| first
  | with_reducible exact Pres.pure _
  | with_reducible exact k_getConn _
  | with_reducible exact k_emit _ _
  | with_reducible exact k_fault _
  | with_reducible exact k_nextClock
  | with_reducible exact k_nextPick
  | with_reducible exact k_clearWatches _
  | with_reducible exact k_notifyWatch _ _
  | with_reducible exact k_writebackAll _ _
  | with_reducible exact k_liveKeys _
  | with_reducible exact k_clearDb _
  | with_reducible exact k_getDb _
  | with_reducible exact k_okR _ _
  | with_reducible exact k_get
  | with_reducible exact Kit.swap _ _
  | with_reducible exact Kit.move _ _ _
  | ((with_reducible refine k_modifyConn _ _ ?_); k_connframe)
  | ((with_reducible refine k_modify_frame _ ?_); first | exact fun _ => ⟨rfl, rfl⟩ | (intro _; split <;> exact ⟨rfl, rfl⟩))
  | with_reducible assumption
  | k_hyp)

/-- one step in `PresAt` mode -/
syntax "k_at_step" : tactic
macro_rules | `(tactic| k_at_step) => `(tactic| first
  | (with_reducible exact at_pure _ (by assumption))
  | (with_reducible refine at_setDb_bind (by assumption) (by k_del) ?_)
  | ((with_reducible refine at_set_bind (by assumption) ⟨rfl, rfl⟩ ?_))
  | split
  | (simp only [])
  | (with_reducible refine at_bind ?_ (fun _ => ?_))
  | (with_reducible refine Pres.at_of_pres ?_ (by assumption)))

syntax "k_step" : tactic
macro_rules | `(tactic| k_step) => `(tactic| first
  | k_leaf
  | (with_reducible refine k_getDb_bind _ (fun s hs => ?_))
  | (with_reducible refine Pres.bind ?_ (fun _ => ?_))
  | (with_reducible refine Pres.forM (fun _ => ?_))
  | (with_reducible refine Pres.forIn (fun _ _ => ?_) _)
  | (with_reducible refine Pres.mapM (fun _ => ?_))
  | (with_reducible refine Pres.map _ ?_)
  | k_at_step
  | split
  | (simp only []))

syntax "kpres" : tactic
macro_rules | `(tactic| kpres) => `(tactic| repeat' k_step)

/-! ## the special bodies -/

theorem k_selectCmd (c : Nat) (args : List Arg) (cis : List CI) : Pres I (selectCmd c args cis) := by
  unfold selectCmd; kpres

theorem k_randomkeyCmd (d : Nat) (cis : List CI) : Pres I (randomkeyCmd d cis) := by
  unfold randomkeyCmd okR
  refine Pres.bind (k_liveKeys d) (fun ks => ?_)
  split
  · kpres
  · refine Pres.get_bind (fun s hs => ?_)
    split
    · split
      · exact Pres.at_set_bind (kit.frame s _ hs ⟨rfl, rfl⟩) (Pres.pure _)
      · refine Pres.at_of_pres ?_ hs; kpres
    · refine Pres.at_of_pres ?_ hs; kpres

theorem k_scanCmd (d : Nat) (args : List Arg) (cis : List CI) : Pres I (scanCmd d args cis) := by
  unfold scanCmd; kpres

theorem k_multiCmd (c : Nat) (cis : List CI) : Pres I (multiCmd c cis) := by
  unfold multiCmd; kpres

theorem k_discardCmd (c : Nat) (cis : List CI) : Pres I (discardCmd c cis) := by
  unfold discardCmd; kpres

theorem k_watchCmd (c d : Nat) (args : List Arg) (cis : List CI) : Pres I (watchCmd c d args cis) := by
  unfold watchCmd; kpres

theorem k_subscribeGen (c : Nat) (pattern : Bool) (names : List Bytes) : Pres I (subscribeGen c pattern names) := by
  unfold subscribeGen; kpres

theorem k_unsubscribeGen (c : Nat) (pattern : Bool) (names : List Bytes) :
    Pres I (unsubscribeGen c pattern names) := by
  unfold unsubscribeGen; kpres

theorem k_publish (ch msg : Bytes) : Pres I (publish ch msg) := by
  unfold publish; kpres

theorem k_bpopPass (d : Nat) (left first : Bool) (keys : List Bytes) : Pres I (bpopPass d left first keys) := by
  induction keys with
  | nil => unfold bpopPass; kpres
  | cons k rest ih => unfold bpopPass; kpres

theorem k_brpoplpushPass (d : Nat) (src dst : Bytes) (first : Bool) : Pres I (brpoplpushPass d src dst first) := by
  unfold brpoplpushPass; kpres

theorem k_lookupKey (d : Nat) (key pattern : Bytes) : Pres I (lookupKey d key pattern) := by
  unfold lookupKey; kpres

macro_rules | `(tactic| k_leaf) => `(tactic| first
  | with_reducible exact k_lookupKey _ _ _
  | with_reducible exact k_bpopPass _ _ _ _
  | with_reducible exact k_brpoplpushPass _ _ _ _)

theorem k_parkedPass (c : Nat) (p : Parked) : Pres I (parkedPass c p) := by
  unfold parkedPass; kpres

end base

/-! ## `blocking` / `blockingAsync`: the final state -/

theorem blocking_notx_state (c : Nat) (park : Bool) (kind : String) (keys : List Bytes) (timeout : Int) (pass : Pass)
    (s s1 : Sys) (h : pass true s = (.ok none, s1)) (htx : (s1.conn c).inTx = false) :
    FrEq s1 (blocking c park kind keys timeout pass s).2 ∨
    ∃ dl, FrEq (s1.updConn c (parkAs kind keys (s1.conn c).db dl)) (blocking c park kind keys timeout pass s).2 := by
  unfold blocking
  cases park <;> by_cases ht : (timeout != 0) = true <;>
    simp only [h, ht, htx, getConn_run, if_true, if_false, Bool.false_eq_true, bind, StateT.bind, pure, StateT.pure, modifyConn_run]
  · exact .inl (FrEq.nextClock _ |>.trans (FrEq.nextClock _))
  · exact .inl (FrEq.refl _)
  · exact .inr ⟨_, ((FrEq.nextClock _).trans (FrEq.nextClock _)).updConn c _⟩
  · exact .inr ⟨_, FrEq.refl _⟩

/-- `_blocking`: the state is that after the first pass (up to clock readings), or the pass found nothing outside a
transaction and the connection was parked -/
theorem blocking_state (c : Nat) (park : Bool) (kind : String) (keys : List Bytes) (timeout : Int) (pass : Pass) (s : Sys) :
    FrEq (pass true s).2 (blocking c park kind keys timeout pass s).2 ∨
    ((pass true s).1 = .ok none ∧ ((pass true s).2.conn c).inTx = false ∧
      ∃ dl, FrEq ((pass true s).2.updConn c (parkAs kind keys ((pass true s).2.conn c).db dl))
      (blocking c park kind keys timeout pass s).2) := by
  cases hp : pass true s with
  | mk r s1 =>
    cases r with
    | error e => rw [blocking_served_err c park kind keys timeout pass s s1 e hp]; exact .inl (FrEq.refl _)
    | ok o =>
      cases o with
      | some r => rw [blocking_served_ok c park kind keys timeout pass s s1 r hp]; exact .inl (FrEq.refl _)
      | none =>
        cases htx : (s1.conn c).inTx
        · rcases blocking_notx_state c park kind keys timeout pass s s1 hp htx with h | h
          · exact .inl h
          · exact .inr ⟨rfl, rfl, h⟩
        · rw [blocking_inTx c park kind keys timeout pass s s1 hp htx]; exact .inl (FrEq.refl _)

def parkAsync (kind : String) (keys : List Bytes) (db : Nat) (x : Conn) : Conn :=
  { x with paused := true, parked := some { kind := kind, keys := keys, db := db, deadline := none } }

theorem blockingAsync_state (c : Nat) (kind : String) (keys : List Bytes) (pass : Pass) (s : Sys) :
    FrEq (pass true s).2 (blockingAsync c kind keys pass s).2 ∨
    ((pass true s).1 = .ok none ∧ ((pass true s).2.conn c).inTx = false ∧
      (blockingAsync c kind keys pass s).2 =
        (pass true s).2.updConn c (parkAsync kind keys ((pass true s).2.conn c).db)) := by
  cases hp : pass true s with
  | mk r s1 =>
    cases r with
    | error e => rw [blockingAsync_served_err c kind keys pass s s1 e hp]; exact .inl (FrEq.refl _)
    | ok o =>
      cases o with
      | some r => rw [blockingAsync_served_ok c kind keys pass s s1 r hp]; exact .inl (FrEq.refl _)
      | none =>
        cases htx : (s1.conn c).inTx
        · rw [blockingAsync_parks c kind keys pass s s1 hp htx]; exact .inr ⟨rfl, rfl, rfl⟩
        · rw [blockingAsync_inTx c kind keys pass s s1 hp htx]; exact .inl (FrEq.refl _)

theorem parkAs_parkFn (kind : String) (keys : List Bytes) (db : Nat) (dl : Option Int) :
    ParkFn { kind := kind, keys := keys, db := db, deadline := dl } (parkAs kind keys db dl) :=
  fun _ => ⟨rfl, rfl, rfl⟩

theorem parkAsync_parkFn (kind : String) (keys : List Bytes) (db : Nat) :
    ParkFn { kind := kind, keys := keys, db := db, deadline := none } (parkAsync kind keys db) :=
  fun _ => ⟨rfl, rfl, rfl⟩

variable {I : Sys → Prop} [kit : Kit I]

/-- BLPOP / BRPOP on the connection's own database -/
theorem at_blockingB {s : Sys} (hs : I s) (c : Nat) (park : Bool) (name : String) (keys : List Bytes) (t : Int)
    (left : Bool) :
    PresAt I s (blocking c park name keys t (fun first => bpopPass (s.conn c).db left first keys)) := by
  have hdb : ((bpopPass (s.conn c).db left true keys s).2.conn c).db = (s.conn c).db :=
    bpopPass_conn_proj Conn.db notifyFn_db _ _ _ _ _ _
  rcases blocking_state c park name keys t (fun first => bpopPass (s.conn c).db left first keys) s with h | ⟨hn, _, dl, h⟩
  · exact kit.frame _ _ (k_bpopPass _ _ _ _ s hs) h
  · exact kit.frame _ _ (kit.parkB s c left keys _ _ hs (parkAs_parkFn _ _ _ _) rfl hdb rfl hn) h

theorem at_blockingAsyncB {s : Sys} (hs : I s) (c : Nat) (name : String) (keys : List Bytes) (left : Bool) :
    PresAt I s (blockingAsync c name keys (fun first => bpopPass (s.conn c).db left first keys)) := by
  have hdb : ((bpopPass (s.conn c).db left true keys s).2.conn c).db = (s.conn c).db :=
    bpopPass_conn_proj Conn.db notifyFn_db _ _ _ _ _ _
  rcases blockingAsync_state c name keys (fun first => bpopPass (s.conn c).db left first keys) s with h | ⟨hn, _, h⟩
  · exact kit.frame _ _ (k_bpopPass _ _ _ _ s hs) h
  · show I (blockingAsync c name keys (fun first => bpopPass (s.conn c).db left first keys) s).2
    rw [h]
    exact kit.parkB s c left keys _ _ hs (parkAsync_parkFn _ _ _) rfl hdb rfl hn

/-- BRPOPLPUSH on the connection's own database -/
theorem at_blockingR {s : Sys} (hs : I s) (c : Nat) (park : Bool) (src dst : Bytes) (t : Int) :
    PresAt I s (blocking c park "brpoplpush" [src, dst] t (fun first => brpoplpushPass (s.conn c).db src dst first)) := by
  have hdb : ((brpoplpushPass (s.conn c).db src dst true s).2.conn c).db = (s.conn c).db :=
    brpoplpushPass_conn_proj Conn.db notifyFn_db _ _ _ _ _ _
  rcases blocking_state c park "brpoplpush" [src, dst] t (fun first => brpoplpushPass (s.conn c).db src dst first) s
    with h | ⟨hn, _, dl, h⟩
  · exact kit.frame _ _ (k_brpoplpushPass _ _ _ _ s hs) h
  · exact kit.frame _ _ (kit.parkR s c src dst _ _ hs (parkAs_parkFn _ _ _ _) rfl rfl hdb rfl hn) h

theorem at_blockingAsyncR {s : Sys} (hs : I s) (c : Nat) (src dst : Bytes) :
    PresAt I s (blockingAsync c "brpoplpush" [src, dst] (fun first => brpoplpushPass (s.conn c).db src dst first)) := by
  have hdb : ((brpoplpushPass (s.conn c).db src dst true s).2.conn c).db = (s.conn c).db :=
    brpoplpushPass_conn_proj Conn.db notifyFn_db _ _ _ _ _ _
  rcases blockingAsync_state c "brpoplpush" [src, dst] (fun first => brpoplpushPass (s.conn c).db src dst first) s
    with h | ⟨hn, _, h⟩
  · exact kit.frame _ _ (k_brpoplpushPass _ _ _ _ s hs) h
  · show I (blockingAsync c "brpoplpush" [src, dst] (fun first => brpoplpushPass (s.conn c).db src dst first) s).2
    rw [h]
    exact kit.parkR s c src dst _ _ hs (parkAsync_parkFn _ _ _) rfl rfl hdb rfl hn

macro_rules | `(tactic| k_at_step) => `(tactic| first
  | (with_reducible exact at_blockingB (by assumption) _ _ _ _ _ _)
  | (with_reducible exact at_blockingAsyncB (by assumption) _ _ _ _)
  | (with_reducible exact at_blockingR (by assumption) _ _ _ _ _)
  | (with_reducible exact at_blockingAsyncR (by assumption) _ _ _))

/-! ## SORT, ZUNIONSTORE / ZINTERSTORE, scripts -/

theorem k_sortCmd (c d : Nat) (args : List Arg) (cis : List CI) : Pres I (sortCmd c d args cis) := by
  unfold sortCmd
  split
  · extract_lets key wrong out x keyed err le jp
    split
    · kpres
    · have hjp : ∀ x, Pres I (jp x) := by
        intro items?
        simp -zeta only [jp]
        split
        · kpres
        · split
          · kpres
          · extract_lets n start stop stop' gets sortby jp2
            have hjp2 : ∀ x, Pres I (jp2 x) := by
              intro sorted?
              simp -zeta only [jp2]
              kpres
            clear_value jp2
            kpres
      clear_value jp
      simp only []
      split
      · kpres
      · kpres
      · kpres
      · refine Pres.get_bind (fun st hs => ?_)
        split
        · split
          · exact Pres.at_set_bind (kit.frame st _ hs ⟨rfl, rfl⟩) (by kpres)
          · refine Pres.at_of_pres ?_ hs; kpres
        · refine Pres.at_of_pres ?_ hs; kpres
      · kpres
  · kpres

theorem k_zunioninter (u : Bool) (d : Nat) (args : List Arg) (cis : List CI) : Pres I (zunioninter u d args cis) := by
  unfold zunioninter
  split
  · kpres
    all_goals
      refine Pres.loop_pure (fun b => b.2.2.2.2) _ (fun b => ?_) _
      repeat' split
      all_goals
        refine ⟨_, rfl, fun b' h => ?_⟩
        first
          | (cases h; done)
          | (have h := ForInStep.yield.inj h; subst h; simp_all <;> omega)
  · kpres

theorem k_scriptCmd (inner : Inner) (c : Nat) (name : String) (args : List Arg) (cis : List CI) :
    Pres I (scriptCmd inner c name args cis) := by
  unfold scriptCmd; kpres

/-! ## `special`, `_run_command` -/

macro_rules | `(tactic| k_leaf) => `(tactic| first
  | with_reducible exact k_selectCmd _ _ _
  | with_reducible exact k_randomkeyCmd _ _
  | with_reducible exact k_scanCmd _ _ _
  | with_reducible exact k_sortCmd _ _ _ _
  | with_reducible exact k_zunioninter _ _ _ _
  | with_reducible exact k_multiCmd _ _
  | with_reducible exact k_discardCmd _ _
  | with_reducible exact k_watchCmd _ _ _ _
  | with_reducible exact k_subscribeGen _ _ _
  | with_reducible exact k_unsubscribeGen _ _ _
  | with_reducible exact k_publish _ _
  | with_reducible exact k_scriptCmd _ _ _ _ _
  | with_reducible exact k_parkedPass _ _)

/-- every special body preserves the invariant, provided EXEC (with this nested runner) does -/
theorem k_special (inner : Inner) (mode : Mode) (c : Nat) (hexec : ∀ cis, Pres I (execCmd inner c cis))
    (name : String) (args : List Arg) (cis : List CI) : Pres I (special inner mode c name args cis) := by
  unfold special
  simp only []
  refine k_getConn_bind c (fun s hs => ?_)
  split
  all_goals kpres

theorem k_runWith (special : SpecialFn) (mode : Mode) (c : Nat) (sig : Sig) (raw : List Bytes) (fromScript : Bool)
    (hsp : ∀ args cis, Pres I (special mode c sig.name args cis)) :
    Pres I (runWith special mode c sig raw fromScript) := by
  cases h : Cmd.regular sig.name with
  | some body =>
    intro s hs
    cases hr : s.refuses c sig with
    | true => rw [runWith_refused special mode c sig raw fromScript hr]; exact hs
    | false =>
    rw [runWith_regular_run special mode c sig raw fromScript h s hr]
    exact kit.regular s _ sig body _ _ raw hs
  | none =>
    unfold runWith
    simp only [h]
    kpres

def stubInner : Inner := fun _ _ => do fault "nested exec"; return none

theorem k_stubInner (sig : Sig) (raw : List Bytes) : Pres I (stubInner sig raw) := by
  unfold stubInner; kpres

/-! ## scripts -/

theorem k_shaHint : Pres I shaHint := by
  unfold shaHint; kpres

macro_rules | `(tactic| k_leaf) => `(tactic| with_reducible exact k_shaHint)

theorem k_runFromScript (special : SpecialFn) (hsp : ∀ mode c name args cis, Pres I (special mode c name args cis))
    (mode : Mode) (c : Nat) (op : LuaVal) (args : List LuaVal) : Pres I (runFromScript special mode c op args) := by
  have hrun : ∀ sig raw, Pres I (runWith special mode c sig raw true) :=
    fun sig raw => k_runWith special mode c sig raw true (fun _ _ => hsp _ _ _ _ _)
  unfold runFromScript
  kpres

theorem k_runTrace (special : SpecialFn) (hsp : ∀ mode c name args cis, Pres I (special mode c name args cis))
    (mode : Mode) (c : Nat) (sha : Bytes) (fuel : Nat) : Pres I (runTrace special mode c sha fuel) := by
  have hcall := k_runFromScript special hsp mode c
  induction fuel with
  | zero => unfold runTrace; kpres
  | succ fuel ih => unfold runTrace; kpres

theorem k_evalBody (special : SpecialFn) (hsp : ∀ mode c name args cis, Pres I (special mode c name args cis))
    (mode : Mode) (c : Nat) (script : Bytes) (numkeys : Int) (rest : List Bytes) :
    Pres I (evalBody special mode c script numkeys rest) := by
  have htrace := k_runTrace special hsp mode c
  unfold evalBody; kpres

theorem k_scriptBody (special : SpecialFn) (hsp : ∀ mode c name args cis, Pres I (special mode c name args cis))
    (mode : Mode) (c : Nat) (name : String) (args : List Arg) : Pres I (scriptBody special mode c name args) := by
  have heval := k_evalBody special hsp mode c
  unfold scriptBody; kpres

/-- what remains to be shown for a particular invariant: EXEC preserves it, at both nesting levels -/
structure ExecOk (I : Sys → Prop) : Prop where
  stub : ∀ c cis, Pres I (execCmd (fun _ _ => do fault "nested exec"; return none) c cis)
  top : ∀ mode c cis, Pres I (execCmd (runInner mode c) c cis)

theorem k_runInner' (hstub : ∀ c cis, Pres I (execCmd (fun _ _ => do fault "nested exec"; return none) c cis))
    (mode : Mode) (c : Nat) (sig : Sig) (raw : List Bytes) : Pres I (runInner mode c sig raw) := by
  refine runInner_cases (P := fun m => Pres I m) mode c sig raw (fun _ => ?_) (fun _ => ?_)
  · have hbody := k_scriptBody (I := I) _ (fun mode c name args cis => k_special _ mode c (hstub c) name args cis) mode c
    unfold runScriptCmd; kpres
  · exact k_runWith _ mode c sig raw false (fun args cis => k_special _ mode c (hstub c) _ args cis)

variable (hx : ExecOk I)
include hx

theorem k_special_stub (mode : Mode) (c : Nat) (name : String) (args : List Arg) (cis : List CI) :
    Pres I (special (fun _ _ => do fault "nested exec"; return none) mode c name args cis) :=
  k_special _ mode c (hx.stub c) name args cis

theorem k_runInner (mode : Mode) (c : Nat) (sig : Sig) (raw : List Bytes) : Pres I (runInner mode c sig raw) :=
  k_runInner' hx.stub mode c sig raw

theorem k_runScriptCmd (mode : Mode) (c : Nat) (sig : Sig) (raw : List Bytes) (fromScript : Bool) :
    Pres I (runScriptCmd mode c sig raw fromScript) := by
  have hbody := k_scriptBody _ (fun mode c name args cis => k_special_stub hx mode c name args cis) mode c
  unfold runScriptCmd; kpres

theorem k_runCommand (mode : Mode) (c : Nat) (sig : Sig) (raw : List Bytes) (fromScript : Bool) :
    Pres I (runCommand mode c sig raw fromScript) := by
  unfold runCommand
  split
  · exact k_runScriptCmd hx _ _ _ _ _
  · exact k_runWith _ mode c sig raw fromScript (fun args cis => k_special _ mode c (hx.top mode c) _ args cis)

/-! ## `_process_command`, the parser loop, the scheduler events -/

omit hx in
theorem k_cleanupClosed : Pres I cleanupClosed := by
  unfold cleanupClosed; kpres

theorem k_processCommand (mode : Mode) (c : Nat) (fields : List Bytes) : Pres I (processCommand mode c fields) := by
  have hrun := k_runCommand hx mode c
  have hcl : Pres I cleanupClosed := k_cleanupClosed
  unfold processCommand
  kpres

theorem k_drain (mode : Mode) (c : Nat) (fuel : Nat) : Pres I (drain mode c fuel) := by
  have hp := k_processCommand hx mode c
  induction fuel with
  | zero => unfold drain; kpres
  | succ fuel ih => unfold drain; kpres

theorem k_sendall (mode : Mode) (c : Nat) (data : Bytes) : Pres I (sendall mode c data) := by
  have h2 := k_drain hx mode c
  unfold sendall; kpres

theorem k_sendallGuarded (mode : Mode) (c : Nat) (data : Bytes) : Pres I (sendallGuarded mode c data) := by
  have h1 := k_sendall hx mode c data
  unfold sendallGuarded; kpres

omit hx in
theorem unpark_unpark : Unpark unpark := fun _ => ⟨rfl, rfl, rfl⟩

omit hx in
theorem stayParked_parkFn (p : Parked) : ParkFn { p with woken := false } (stayParked p) := fun _ => ⟨rfl, rfl, rfl⟩

omit hx in
theorem k_wakeConn (c : Nat) : Pres I (wakeConn c) := by
  intro s hs
  cases hp : (s.conn c).parked with
  | none =>
    have : wakeConn c s = M.fault "wake: connection is not parked" s := by
      unfold wakeConn
      simp only [bind, StateT.bind, getConn_run, hp]
    rw [this]; exact k_fault _ s hs
  | some p =>
    rw [wakeConn_run c p s hp]
    have h1 : I (parkedPass c p s).2 := k_parkedPass c p s hs
    have hstay := kit.stay s c p (stayParked p) hs hp (stayParked_parkFn p)
    revert h1 hstay
    generalize parkedPass c p s = pr
    obtain ⟨res, s1⟩ := pr
    intro h1 hstay
    simp only at h1 hstay
    show I (wakeState c p res s1)
    unfold wakeState
    cases res with
    | error e => exact kit.frame _ _ (kit.unpark s1 c unpark h1 unpark_unpark) (FrEq.emitS _ _ _)
    | ok o =>
      cases o with
      | some r => exact kit.frame _ _ (kit.unpark s1 c unpark h1 unpark_unpark) (FrEq.emitS _ _ _)
      | none =>
        simp only
        split
        · exact hstay rfl
        · split
          · exact kit.frame _ _ (kit.unpark _ c unpark (k_nextClock s1 h1) unpark_unpark) (FrEq.emitS _ _ _)
          · exact kit.frame _ _ (hstay rfl) ((FrEq.nextClock s1).updConn c _)

omit hx in
theorem k_timeoutConn (c : Nat) : Pres I (timeoutConn c) := by
  unfold timeoutConn
  refine Pres.bind (k_getConn c) (fun conn => ?_)
  split
  · kpres
  · refine Pres.bind (k_unpark c _ (fun _ => ⟨rfl, rfl, rfl⟩)) (fun _ => ?_)
    kpres

theorem k_wakeConnAsync (mode : Mode) (c : Nat) : Pres I (wakeConnAsync mode c) := by
  have hd := k_drain hx mode c
  unfold wakeConnAsync
  refine k_getConn_bind c (fun s hs => ?_)
  split
  · refine Pres.at_of_pres ?_ hs; kpres
  · rename_i p hp
    have h1 : I (parkedPass c p s).2 := k_parkedPass c p s hs
    have hstay := kit.stay s c p (fun x => { x with parked := some { p with woken := false } }) hs hp
      (fun _ => ⟨rfl, rfl, rfl⟩)
    refine at_bind_val (fun res s1 hpr => ?_)
    rw [hpr] at h1 hstay
    simp only at h1 hstay
    cases res with
    | error e =>
      refine Pres.at_of_pres ?_ h1
      refine Pres.bind (k_unpark c _ (fun _ => ⟨rfl, rfl, rfl⟩)) (fun _ => ?_)
      kpres
    | ok o =>
      cases o with
      | some r =>
        refine Pres.at_of_pres ?_ h1
        refine Pres.bind (k_unpark c _ (fun _ => ⟨rfl, rfl, rfl⟩)) (fun _ => ?_)
        kpres
      | none => exact hstay rfl

theorem k_timeoutConnAsync (mode : Mode) (c : Nat) : Pres I (timeoutConnAsync mode c) := by
  have hd := k_drain hx mode c
  unfold timeoutConnAsync
  refine Pres.bind (k_getConn c) (fun conn => ?_)
  split
  · kpres
  · refine Pres.bind (k_unpark c _ (fun _ => ⟨rfl, rfl, rfl⟩)) (fun _ => ?_)
    kpres

omit hx in
theorem k_closeConn (c : Nat) : Pres I (closeConn c) := by
  unfold closeConn; kpres

/-- every event preserves the invariant -/
theorem k_stepEv (s : Sys) (e : Ev) (h : I s) : I (stepEv s e) := by
  have h0 : I s.beginEvent := kit.frame s _ h ⟨rfl, rfl⟩
  have hh : ∀ clocks picks, I (s.beginEvent.withHints clocks picks) := fun _ _ => kit.frame s _ h ⟨rfl, rfl⟩
  unfold stepEv
  cases e with
  | version v => exact kit.frame s _ h ⟨rfl, rfl⟩
  | «open» c => exact kit.opn _ c h0
  | close c => exact k_closeConn c _ h0
  | gc c => exact kit.gc _ c h0
  | conn up => exact kit.frame s _ h ⟨rfl, rfl⟩
  | request mode c fields clocks picks => exact k_processCommand hx mode c fields _ (hh clocks picks)
  | send mode c data clocks picks => exact k_sendallGuarded hx mode c data _ (hh clocks picks)
  | wake c clocks => exact k_wakeConn c _ (hh clocks [])
  | timeout c => exact k_timeoutConn c _ h0
  | awake mode c clocks picks => exact k_wakeConnAsync hx mode c _ (hh clocks picks)
  | atimeout mode c clocks picks => exact k_timeoutConnAsync hx mode c _ (hh clocks picks)

theorem k_foldl (evs : List Ev) (s : Sys) (h : I s) : I (evs.foldl stepEv s) := by
  induction evs generalizing s with
  | nil => exact h
  | cons e es ih => exact ih _ (k_stepEv hx s e h)

/-- the invariant holds after every history, if it holds initially -/
theorem k_runHistory (h0 : I {}) (evs : List Ev) : I (runHistory evs) := k_foldl hx evs {} h0

end FR.Conserve

/-!
# Part B: no lost wake-up, as an invariant over all histories
-/
namespace FR.Conserve
open FR FR.M FR.Db
set_option linter.unusedSimpArgs false
set_option linter.unusedVariables false
set_option linter.unusedSectionVars false

/-! ## the invariant -/

/-- the keys a parked connection can be served from: all its keys for BLPOP / BRPOP, the source for BRPOPLPUSH
(this mirrors `parkedPass`) -/
def serveKeys (p : Parked) : List Bytes :=
  match p.kind, p.keys with
  | "brpoplpush", [src, _] => [src]
  | _, keys => keys

/-- the dictionary stores a list under `k` (expired or not) -/
def ListAt (d : Dict) (k : Bytes) : Prop := ∃ it l, (k, it) ∈ d ∧ it.value = .list l

/-- No lost wake-up: a parked connection whose flag `woken` is clear has no list under any of the keys it can be
served from. -/
def NoLost (s : Sys) : Prop :=
  ∀ x ∈ s.srv.conns, ∀ p, x.parked = some p → p.woken = false →
    ∀ k ∈ serveKeys p, ¬ ListAt (s.srv.dbs.getD p.db []) k

/-- the invariant carried through all code: the data invariant and no lost wake-up -/
def Inv (s : Sys) : Prop := s.DataInv ∧ NoLost s

theorem inv_init : Inv {} := ⟨Sys.dataInv_init, fun x hx => by cases hx⟩

theorem serveKeys_sub (p : Parked) : ∀ k ∈ serveKeys p, k ∈ p.keys := by
  intro k hk
  unfold serveKeys at hk
  split at hk
  · rename_i h1 h2
    simp only [List.mem_singleton] at hk
    rw [h2, hk]; simp
  · exact hk

/-- the general step lemma: every unflagged parked record already existed, and every database either has all its
parked connections flagged or has gained no list -/
theorem NoLost.of_step {s s' : Sys} (h : NoLost s)
    (hconns : ∀ x' ∈ s'.srv.conns, ∀ p, x'.parked = some p → p.woken = false →
      ∃ x ∈ s.srv.conns, x.parked = some p)
    (hdbs : ∀ j, s'.AllWoken j ∨ ∀ k, ListAt (s'.srv.dbs.getD j []) k → ListAt (s.srv.dbs.getD j []) k) :
    NoLost s' := by
  intro x' hx' p hp hw k hk hl
  obtain ⟨x, hx, hxp⟩ := hconns x' hx' p hp hw
  rcases hdbs p.db with ha | hsub
  · have := ha x' hx' p hp rfl
    rw [hw] at this; cases this
  · exact h x hx p hxp hw k hk (hsub k hl)

theorem conns_map {s s' : Sys} (g : Conn → Conn) (hs : s'.srv.conns = s.srv.conns.map g)
    (hg : ∀ x p, (g x).parked = some p → p.woken = false → x.parked = some p) :
    ∀ x' ∈ s'.srv.conns, ∀ p, x'.parked = some p → p.woken = false → ∃ x ∈ s.srv.conns, x.parked = some p := by
  intro x' hx' p hp hw
  rw [hs, List.mem_map] at hx'
  obtain ⟨x, hx, rfl⟩ := hx'
  exact ⟨x, hx, hg x p hp hw⟩

theorem notifyFn_unwoken (d : Nat) (key : Bytes) (x : Conn) (p : Parked)
    (hp : (notifyFn d key x).parked = some p) (hw : p.woken = false) : x.parked = some p := by
  rw [notifyFn_parked] at hp
  cases hq : x.parked with
  | none => rw [hq] at hp; cases hp
  | some q =>
    rw [hq] at hp
    simp only [Option.map_some, Option.some.injEq] at hp
    split at hp
    · subst hp; cases hw
    · rw [hp]

theorem upd_unwoken (c : Nat) (f : Conn → Conn) (hf : ∀ x p, (f x).parked = some p → p.woken = false → x.parked = some p)
    (x : Conn) (p : Parked) (hp : (if x.id == c then f x else x).parked = some p) (hw : p.woken = false) :
    x.parked = some p := by
  split at hp
  · exact hf x p hp hw
  · exact hp

theorem NoLost.mapConns {s : Sys} (h : NoLost s) (g : Conn → Conn)
    (hg : ∀ x p, (g x).parked = some p → p.woken = false → x.parked = some p) : NoLost (s.mapConns g) :=
  h.of_step (conns_map g rfl hg) (fun j => .inr fun k hk => hk)

theorem NoLost.updConn {s : Sys} (h : NoLost s) (c : Nat) (f : Conn → Conn)
    (hf : ∀ x p, (f x).parked = some p → p.woken = false → x.parked = some p) : NoLost (s.updConn c f) := by
  rw [Sys.updConn_eq_mapConns]
  exact h.mapConns _ (upd_unwoken c f hf)

/-! ## databases -/

theorem getD_set_eq {α} (l : List α) (i j : Nat) (x dflt : α) :
    (l.set i x).getD j dflt = if j = i ∧ i < l.length then x else l.getD j dflt := by
  by_cases hji : j = i
  · subst hji
    by_cases hlt : j < l.length
    · simp only [hlt, and_self, if_true]; exact getD_set_self _ _ _ _ hlt
    · simp only [hlt, and_false, if_false]
      rw [List.set_eq_of_length_le (Nat.le_of_not_lt hlt)]
  · simp only [hji, false_and, if_false]
    exact getD_set_ne _ _ _ _ _ hji

theorem setDbS_getD (s : Sys) (d j : Nat) (db : Db) :
    (s.setDbS d db).srv.dbs.getD j [] = if j = d ∧ d < s.srv.dbs.length then db.dict else s.srv.dbs.getD j [] :=
  getD_set_eq _ _ _ _ _

theorem listAt_mono {a b : Dict} (h : ∀ q ∈ a, q ∈ b) {k : Bytes} (hl : ListAt a k) : ListAt b k := by
  obtain ⟨it, l, hm, hv⟩ := hl
  exact ⟨it, l, h _ hm, hv⟩

/-- a database update that adds no list -/
theorem setDbS_listAt {s : Sys} {d : Nat} {db : Db} (hsub : ∀ k, ListAt db.dict k → ListAt (s.dbAt d).dict k)
    (j : Nat) (k : Bytes) (hl : ListAt ((s.setDbS d db).srv.dbs.getD j []) k) : ListAt (s.srv.dbs.getD j []) k := by
  rw [setDbS_getD] at hl
  split at hl
  · rename_i h; rw [h.1]; exact hsub k hl
  · exact hl

theorem inv_setDb_sub {s : Sys} (h : Inv s) (d : Nat) (db : Db) (hg : Good db.dict)
    (hsub : ∀ k, ListAt db.dict k → ListAt (s.dbAt d).dict k) : Inv (s.setDbS d db) :=
  ⟨h.1.setDbS d hg, h.2.of_step (fun x hx p hp _ => ⟨x, hx, hp⟩) (fun j => .inr (setDbS_listAt hsub j))⟩

theorem Del.good {db db' : Db} (h : Del db db') (hg : Good db.dict) : Good db'.dict :=
  ⟨h.nd, fun q hq => hg.2 q (h.sub q hq)⟩

/-! ## write-back -/

theorem writeback_unmod_listAt (ci : CI) (db : Db) (hm : ci.modified = false) (k : Bytes)
    (hl : ListAt (ci.writeback db).1.dict k) : ListAt db.dict k := by
  unfold CI.writeback at hl
  simp only [hm, Bool.false_eq_true, if_false] at hl
  split at hl
  · split at hl
    · rename_i db' it heq
      obtain ⟨it', l, hmem, hv⟩ := hl
      simp only at hmem
      rcases mem_setRaw hmem with hq | hq
      · exact ⟨it', l, get_dict_sub (by rw [heq]; exact hq), hv⟩
      · simp only [Prod.mk.injEq] at hq
        obtain ⟨hk, hit⟩ := hq
        subst hit
        have : (db.get ci.key).2 = some it := by rw [heq]
        exact ⟨it, l, by rw [hk]; exact get_mem this, hv⟩
    · rename_i db' heq
      exact listAt_mono (fun q hq => get_dict_sub (by rw [heq]; exact hq)) hl
  · exact hl

theorem allWoken_setDbS {s : Sys} {j : Nat} (d : Nat) (db : Db) (h : s.AllWoken j) : (s.setDbS d db).AllWoken j := h

theorem inv_wb (s : Sys) (d : Nat) (ci : CI) (h : Inv s) : Inv (s.wbStep d ci) := by
  refine ⟨?_, ?_⟩
  · have hg : Good (ci.writeback (s.dbAt d)).1.dict := (h.1.dbAt d).writeback ci
    unfold Sys.wbStep
    simp only
    split
    · exact (h.1.setDbS d hg).frame rfl
    · exact h.1.setDbS d hg
  · by_cases hm : ci.modified = true
    · have hw : (s.wbStep d ci).AllWoken d := Sys.allWoken_wbStep s d ci hm
      refine h.2.of_step ?_ ?_
      · unfold Sys.wbStep
        simp only [hm, if_true]
        exact conns_map (notifyFn d ci.key) rfl (notifyFn_unwoken d ci.key)
      · intro j
        by_cases hj : j = d
        · subst hj; exact .inl hw
        · right
          intro k hk
          have : (s.wbStep d ci).srv.dbs = (s.setDbS d (ci.writeback (s.dbAt d)).1).srv.dbs := by
            unfold Sys.wbStep; simp only [hm, if_true]; rfl
          rw [this, setDbS_getD] at hk
          simp only [hj, false_and, if_false] at hk
          exact hk
    · have hm : ci.modified = false := by simpa using hm
      have : s.wbStep d ci = s.setDbS d (ci.writeback (s.dbAt d)).1 := by
        unfold Sys.wbStep; simp only [hm, Bool.false_eq_true, if_false]
      rw [this]
      exact (inv_setDb_sub h d _ ((h.1.dbAt d).writeback ci) (writeback_unmod_listAt ci _ hm)).2

/-! ## regular commands -/

theorem writebackPure_listAt (cis : List CI) (db : Db) (hn : (writebackPure db cis).2 = []) (k : Bytes)
    (hl : ListAt (writebackPure db cis).1.dict k) : ListAt db.dict k := by
  induction cis generalizing db with
  | nil => exact hl
  | cons c cs ih =>
    rw [writebackPure_cons] at hn hl
    simp only [List.append_eq_nil_iff] at hn
    have hm : c.modified = false := by
      cases hc : c.modified with
      | false => rfl
      | true => rw [hc] at hn; simp at hn
    exact writeback_unmod_listAt c db hm k (ih _ hn.2 hl)

theorem runRegular_listAt (sig : Sig) (body : Body) (ctx : Ctx) (gate : Option Err) (raw : List Bytes)
    {db : Db} (nd : NodupKeys db.dict) (hn : (runRegular sig body ctx gate raw db).notified = []) (k : Bytes)
    (hl : ListAt (runRegular sig body ctx gate raw db).db.dict k) : ListAt db.dict k := by
  rw [runRegular_eq] at hn hl
  have hr : ∀ k, ListAt (sig.apply raw db).1.dict k → ListAt db.dict k :=
    fun k => listAt_mono (Sig.apply_reads sig raw nd).sub
  revert hr hn hl
  generalize sig.apply raw db = r
  obtain ⟨db1, x⟩ := r
  simp only
  intro hn hl hr
  cases x with
  | error e => exact hr k hl
  | ok ap =>
    cases ap with
    | short r => exact hr k hl
    | ok args cis =>
      cases gate with
      | some e => exact hr k hl
      | none =>
        simp only [runTail] at hn hl
        cases hb : body ctx args cis with
        | error e => rw [hb] at hn hl; exact hr k (writebackPure_listAt _ _ hn k hl)
        | ok o => rw [hb] at hn hl; exact hr k (writebackPure_listAt _ _ hn k hl)

theorem forM_notify_unwoken (d : Nat) (ks : List Bytes) (s : Sys) :
    ∀ x' ∈ (ks.forM (notifyWatch d) s).2.srv.conns, ∀ p, x'.parked = some p → p.woken = false →
      ∃ x ∈ s.srv.conns, x.parked = some p := by
  induction ks generalizing s with
  | nil => intro x hx p hp _; exact ⟨x, hx, hp⟩
  | cons k ks ih =>
    rw [forM_cons_eq]
    simp only [bind, StateT.bind, notifyWatch_run]
    intro x' hx' p hp hw
    obtain ⟨x1, hx1, hp1⟩ := ih _ x' hx' p hp hw
    exact conns_map (notifyFn d k) rfl (notifyFn_unwoken d k) x1 hx1 p hp1 hw

theorem inv_regular (s : Sys) (d : Nat) (sig : Sig) (body : Body) (ctx : Ctx) (gate : Option Err)
    (raw : List Bytes) (h : Inv s) : Inv (s.afterRegular d (runRegular sig body ctx gate raw (s.dbAt d))) := by
  have hg : Good (runRegular sig body ctx gate raw (s.dbAt d)).db.dict := (h.1.dbAt d).runRegular ..
  have hdbs := Sys.afterRegular_dbs s d (runRegular sig body ctx gate raw (s.dbAt d))
  refine ⟨(h.1.setDbS d hg).frame hdbs, ?_⟩
  refine h.2.of_step ?_ ?_
  · unfold Sys.afterRegular
    intro x' hx' p hp hw
    obtain ⟨x, hx, hxp⟩ := forM_notify_unwoken d _ _ x' hx' p hp hw
    rw [Sys.faultS_srv] at hx
    exact ⟨x, hx, hxp⟩
  · intro j
    by_cases hn : (runRegular sig body ctx gate raw (s.dbAt d)).notified = []
    · right
      intro k hk
      rw [hdbs] at hk
      exact setDbS_listAt (s := s) (d := d) (db := (runRegular sig body ctx gate raw (s.dbAt d)).db)
        (runRegular_listAt sig body ctx gate raw (h.1.dbAt d).1 hn) j k hk
    · by_cases hj : j = d
      · subst hj; exact .inl (Sys.afterRegular_allWoken s j _ hn)
      · right
        intro k hk
        rw [hdbs, getD_set_eq] at hk
        simp only [hj, false_and, if_false] at hk
        exact hk

/-! ## the base kit -/

theorem inv_frame (s s' : Sys) (h : Inv s) (he : FrEq s s') : Inv s' := by
  refine ⟨h.1.frame he.1, ?_⟩
  unfold NoLost
  rw [he.1, he.2]
  exact h.2

theorem inv_updConn (s : Sys) (c : Nat) (f : Conn → Conn) (h : Inv s)
    (hf : ∀ x p, (f x).parked = some p → p.woken = false → x.parked = some p) : Inv (s.updConn c f) :=
  ⟨h.1, h.2.updConn c f hf⟩

theorem inv_open (s : Sys) (c : Nat) (h : Inv s) : Inv (openConn c s).2 := by
  refine ⟨h.1, h.2.of_step ?_ (fun j => .inr fun k hk => hk)⟩
  intro x' hx' p hp hw
  have : x' ∈ s.srv.conns ++ [{ id := c }] := hx'
  rcases List.mem_append.1 this with hx | hx
  · exact ⟨x', hx, hp⟩
  · simp only [List.mem_singleton] at hx
    subst hx; cases hp

theorem inv_gc (s : Sys) (c : Nat) (h : Inv s) : Inv (gcConn c s).2 := by
  refine ⟨h.1, h.2.of_step ?_ (fun j => .inr fun k hk => hk)⟩
  intro x' hx' p hp hw
  have : x' ∈ s.srv.conns.filter (·.id != c) := hx'
  exact ⟨x', (List.mem_filter.1 this).1, hp⟩

instance : KitBase Inv where
  data := fun _ h => h.1
  frame := inv_frame
  conn := fun s c f h hf => inv_updConn s c f h (fun x p hp _ => by rw [← (hf x).1]; exact hp)
  unpark := fun s c f h hf => inv_updConn s c f h (fun x p hp _ => by rw [(hf x).1] at hp; cases hp)
  notify := fun s d k h => ⟨h.1, h.2.mapConns _ (notifyFn_unwoken d k)⟩
  del := fun s d db' h hd => inv_setDb_sub h d db' (hd.good (h.1.dbAt d)) (fun k => listAt_mono hd.sub)
  wb := inv_wb
  regular := inv_regular
  opn := inv_open
  gc := inv_gc

/-! ## an unserved pass leaves no list under the keys it looked at -/

theorem get_none_noentry {db : Db} {k : Bytes} (h : (db.get k).2 = none) : ∀ q ∈ (db.get k).1.dict, q.1 ≠ k := by
  unfold Db.get at h ⊢
  cases hl : db.dict.lookup k with
  | none => simp only [hl]; exact lookup_none_iff.1 hl
  | some it =>
    simp only [hl] at h ⊢
    split at h
    · rename_i he
      simp only [he, if_true]
      intro q hq
      have := (List.mem_filter.1 hq).2
      simpa using this
    · cases h

theorem get_some_eq {db : Db} {k : Bytes} {it : Item} (h : (db.get k).2 = some it) :
    db.dict.lookup k = some it ∧ (db.get k).1 = db := by
  unfold Db.get at h ⊢
  cases hl : db.dict.lookup k with
  | none => simp only [hl] at h; cases h
  | some it' =>
    simp only [hl] at h ⊢
    split at h
    · cases h
    · rename_i he
      simp only [Option.some.injEq] at h
      simp only [he, if_false, Bool.false_eq_true]
      refine ⟨by rw [h], ?_⟩
      first | rfl | trivial

theorem get_some_nolist {db : Db} {k : Bytes} {it : Item} (nd : NodupKeys db.dict) (h : (db.get k).2 = some it)
    (hv : ∀ l, it.value ≠ .list l) : ¬ ListAt (db.get k).1.dict k := by
  obtain ⟨hl, he⟩ := get_some_eq h
  rw [he]
  rintro ⟨it', l, hm, hv'⟩
  have := nodup_unique nd hl (k, it') hm rfl
  simp only [Prod.mk.injEq, true_and] at this
  subst this
  exact hv l hv'

theorem noentry_nolist {d : Dict} {k : Bytes} (h : ∀ q ∈ d, q.1 ≠ k) : ¬ ListAt d k := by
  rintro ⟨it, l, hm, _⟩
  exact h _ hm rfl

theorem getD_out_of_range (s : Sys) (d : Nat) (h : s.srv.dbs.length ≤ d) : s.srv.dbs.getD d [] = [] := by
  rw [List.getD_eq_getElem?_getD, List.getElem?_eq_none h]; rfl

theorem bpopPass_none_noList (d : Nat) (left first : Bool) (keys : List Bytes) (s : Sys)
    (nd : NodupKeys (s.dbAt d).dict) (h : (bpopPass d left first keys s).1 = .ok none) :
    ∀ k ∈ keys, ¬ ListAt ((bpopPass d left first keys s).2.srv.dbs.getD d []) k := by
  by_cases hd : d < s.srv.dbs.length
  · induction keys generalizing s with
    | nil => intro k hk; cases hk
    | cons key rest ih =>
      have hd1 : d < (s.setDbS d ((s.dbAt d).get key).1).srv.dbs.length := by simpa using hd
      have hdb1 : (s.setDbS d ((s.dbAt d).get key).1).dbAt d = ((s.dbAt d).get key).1 :=
        Sys.setDbS_dbAt_self s d _ hd (get_time _ _)
      have nd1 : NodupKeys ((s.setDbS d ((s.dbAt d).get key).1).dbAt d).dict := by
        rw [hdb1]; exact get_nodup key nd
      -- the state after the remaining keys differs from `s1` by lazy deletions only
      have hsub : ∀ (hres : (bpopPass d left first rest (s.setDbS d ((s.dbAt d).get key).1)).1 = .ok none),
          ∀ q ∈ (bpopPass d left first rest (s.setDbS d ((s.dbAt d).get key).1)).2.srv.dbs.getD d [],
            q ∈ ((s.dbAt d).get key).1.dict := by
        intro hres q hq
        have hL := bpopPass_none_lazy d left first rest _ nd1 hres
        have hr := hL.dbAt hd1
        rw [hdb1] at hr
        exact hr.sub q hq
      cases hg : ((s.dbAt d).get key).2 with
      | none =>
        rw [bpopPass_cons_none _ _ _ _ _ _ hg] at h ⊢
        intro k hk
        rcases List.mem_cons.1 hk with rfl | hk
        · exact noentry_nolist (fun q hq => get_none_noentry hg q (hsub h q hq))
        · exact ih _ nd1 h hd1 k hk
      | some it =>
        rcases Value.list_or_not it.value with ⟨l, hv⟩ | hv
        · rw [bpopPass_cons_list _ _ _ _ _ _ hg hv] at h; cases h
        · rw [bpopPass_cons_other _ _ _ _ _ _ hg hv] at h ⊢
          cases first
          · simp only [Bool.false_eq_true, if_false] at h ⊢
            intro k hk
            rcases List.mem_cons.1 hk with rfl | hk
            · intro hl
              exact get_some_nolist nd hg hv (listAt_mono (hsub h) hl)
            · exact ih _ nd1 h hd1 k hk
          · simp only [if_true] at h; cases h
  · have hd : s.srv.dbs.length ≤ d := by omega
    rw [bpopPass_out_of_range d left first keys s hd]
    intro k _
    rw [getD_out_of_range s d hd]
    rintro ⟨_, _, hm, _⟩; cases hm

theorem brpoplpushPass_none_noList (d : Nat) (src dst : Bytes) (first : Bool) (s : Sys)
    (hg : Good (s.dbAt d).dict) (h : (brpoplpushPass d src dst first s).1 = .ok none) :
    ¬ ListAt ((brpoplpushPass d src dst first s).2.srv.dbs.getD d []) src := by
  by_cases hd : d < s.srv.dbs.length
  · have hdb1 : (s.setDbS d ((s.dbAt d).get src).1).dbAt d = ((s.dbAt d).get src).1 :=
      Sys.setDbS_dbAt_self s d _ hd (get_time _ _)
    have key : (s.setDbS d ((s.dbAt d).get src).1).srv.dbs.getD d [] = ((s.dbAt d).get src).1.dict :=
      congrArg Db.dict hdb1
    revert h
    unfold brpoplpushPass
    simp only [bind, StateT.bind, getDb_run', setDb_run']
    cases hg1 : (s.dbAt d).get src with
    | mk db1 sitem =>
      have e1 : ((s.dbAt d).get src).1 = db1 := by rw [hg1]
      have e2 : ((s.dbAt d).get src).2 = sitem := by rw [hg1]
      rw [e1] at key
      cases sitem with
      | none =>
        intro _
        show ¬ ListAt ((s.setDbS d db1).srv.dbs.getD d []) src
        rw [key, ← e1]
        exact noentry_nolist (get_none_noentry e2)
      | some sit =>
        obtain ⟨sv, se⟩ := sit
        have hne : sv.isEmptyColl = false := hg.get_snd e2
        cases sv with
        | list sl =>
          simp only [bind, StateT.bind, getDb_run', setDb_run']
          generalize (s.setDbS d db1) = s1
          generalize (s1.dbAt d).get dst = g2
          obtain ⟨db2, ditem⟩ := g2
          have hsl : sl ≠ [] := by
            intro e; subst e; simp [Value.isEmptyColl] at hne
          obtain ⟨x, rem, hp, _⟩ := popRightN_one hsl
          cases ditem with
          | none => simp only [hp, List.head?_cons]; split <;> (intro h; cases h)
          | some dit =>
            obtain ⟨dv, de⟩ := dit
            cases dv with
            | list dl => simp only [hp, List.head?_cons]; split <;> (intro h; cases h)
            | _ => intro h; cases h
        | _ =>
          cases first
          all_goals first
            | (intro h; cases h; done)
            | (intro _
               show ¬ ListAt ((s.setDbS d db1).srv.dbs.getD d []) src
               rw [key, ← e1]
               exact get_some_nolist hg.1 e2 (fun l hl => by cases hl))
  · have hd : s.srv.dbs.length ≤ d := by omega
    have : (brpoplpushPass d src dst first s).2.srv.dbs.length = s.srv.dbs.length :=
      brpoplpushPass_frame (fun s' => s'.srv.dbs.length = s.srv.dbs.length) (fun s i db h => by simpa using h)
        (fun s d k h => h) d src dst first s rfl
    rw [getD_out_of_range _ d (by rw [this]; exact hd)]
    rintro ⟨_, _, hm, _⟩; cases hm

/-! ## parking -/

theorem noLost_park {s1 : Sys} (h : NoLost s1) (c : Nat) (f : Conn → Conn) (p : Parked) (hf : ParkFn p f)
    (hp : p.woken = false → ∀ k ∈ serveKeys p, ¬ ListAt (s1.srv.dbs.getD p.db []) k) : NoLost (s1.updConn c f) := by
  intro x' hx' p' hp' hw k hk
  rw [Sys.updConn_eq_mapConns] at hx'
  have : x' ∈ s1.srv.conns.map (fun x => if x.id == c then f x else x) := hx'
  obtain ⟨x, hx, rfl⟩ := List.mem_map.1 this
  split at hp'
  · rw [(hf x).1] at hp'
    simp only [Option.some.injEq] at hp'
    subst hp'
    exact hp hw k hk
  · exact h x hx p' hp' hw k hk

theorem inv_parkB (s : Sys) (c : Nat) (left : Bool) (keys : List Bytes) (p : Parked) (f : Conn → Conn) (h : Inv s)
    (hf : ParkFn p f) (hk : p.keys = keys) (hdb : p.db = (s.conn c).db) (hw : p.woken = false)
    (hn : (bpopPass (s.conn c).db left true keys s).1 = .ok none) :
    Inv ((bpopPass (s.conn c).db left true keys s).2.updConn c f) := by
  have h1 : Inv (bpopPass (s.conn c).db left true keys s).2 := k_bpopPass _ _ _ _ s h
  refine ⟨h1.1, noLost_park h1.2 c f p hf ?_⟩
  intro _ k hkk
  rw [hdb]
  exact bpopPass_none_noList _ _ _ _ s (h.1.dbAt _).1 hn k (hk ▸ serveKeys_sub p k hkk)

theorem serveKeys_brpoplpush {p : Parked} {src dst : Bytes} (hkind : p.kind = "brpoplpush") (hk : p.keys = [src, dst]) :
    serveKeys p = [src] := by
  unfold serveKeys
  rw [hkind, hk]
  first | rfl | simp

theorem inv_parkR (s : Sys) (c : Nat) (src dst : Bytes) (p : Parked) (f : Conn → Conn) (h : Inv s)
    (hf : ParkFn p f) (hkind : p.kind = "brpoplpush") (hk : p.keys = [src, dst]) (hdb : p.db = (s.conn c).db)
    (hw : p.woken = false) (hn : (brpoplpushPass (s.conn c).db src dst true s).1 = .ok none) :
    Inv ((brpoplpushPass (s.conn c).db src dst true s).2.updConn c f) := by
  have h1 : Inv (brpoplpushPass (s.conn c).db src dst true s).2 := k_brpoplpushPass _ _ _ _ s h
  refine ⟨h1.1, noLost_park h1.2 c f p hf ?_⟩
  intro _ k hkk
  rw [serveKeys_brpoplpush hkind hk, List.mem_singleton] at hkk
  subst hkk
  rw [hdb]
  exact brpoplpushPass_none_noList _ _ _ _ s (h.1.dbAt _) hn

theorem inv_stay (s : Sys) (c : Nat) (p : Parked) (f : Conn → Conn) (h : Inv s) (hp : (s.conn c).parked = some p)
    (hf : ParkFn { p with woken := false } f) (hn : (parkedPass c p s).1 = .ok none) :
    Inv ((parkedPass c p s).2.updConn c f) := by
  have h1 : Inv (parkedPass c p s).2 := k_parkedPass c p s h
  refine ⟨h1.1, noLost_park h1.2 c f _ hf ?_⟩
  intro _ k hkk
  show ¬ ListAt ((parkedPass c p s).2.srv.dbs.getD p.db []) k
  have hkk : k ∈ serveKeys p := hkk
  rcases parkedPass_cases c p with ⟨src, dst, hkind, hkeys, he⟩ | ⟨_, he⟩ | ⟨_, he⟩
  · rw [serveKeys_brpoplpush hkind hkeys, List.mem_singleton] at hkk
    subst hkk
    rw [he] at hn ⊢
    exact brpoplpushPass_none_noList _ _ _ _ s (h.1.dbAt _) hn
  · rw [he] at hn ⊢
    exact bpopPass_none_noList _ _ _ _ s (h.1.dbAt _).1 hn k (serveKeys_sub p k hkk)
  · rw [he] at hn ⊢
    exact bpopPass_none_noList _ _ _ _ s (h.1.dbAt _).1 hn k (serveKeys_sub p k hkk)

/-! ## SWAPDB -/

def notify2 (a b : Nat) (key : Bytes) : M PUnit := do notifyWatch a key; notifyWatch b key

theorem forM_notify2_cons (a b : Nat) (k : Bytes) (ks : List Bytes) (s : Sys) :
    ((k :: ks).forM (notify2 a b)) s = (ks.forM (notify2 a b)) ((s.mapConns (notifyFn a k)).mapConns (notifyFn b k)) := rfl

theorem forM_notify2_unwoken (a b : Nat) (ks : List Bytes) (s : Sys) :
    ∀ x' ∈ ((ks.forM (notify2 a b)) s).2.srv.conns, ∀ p, x'.parked = some p → p.woken = false →
      ∃ x ∈ s.srv.conns, x.parked = some p := by
  induction ks generalizing s with
  | nil => intro x hx p hp _; exact ⟨x, hx, hp⟩
  | cons k ks ih =>
    rw [forM_notify2_cons]
    intro x' hx' p hp hw
    obtain ⟨x1, hx1, hp1⟩ := ih _ x' hx' p hp hw
    obtain ⟨x2, hx2, hp2⟩ := conns_map (notifyFn b k) rfl (notifyFn_unwoken b k) x1 hx1 p hp1 hw
    exact conns_map (notifyFn a k) rfl (notifyFn_unwoken a k) x2 hx2 p hp2 hw

theorem forM_notify2_dbs (a b : Nat) (ks : List Bytes) (s : Sys) :
    ((ks.forM (notify2 a b)) s).2.srv.dbs = s.srv.dbs := by
  induction ks generalizing s with
  | nil => rfl
  | cons k ks ih => rw [forM_notify2_cons, ih]; rfl

theorem forM_notify2_allWoken_pres (a b j : Nat) (ks : List Bytes) (s : Sys) (h : s.AllWoken j) :
    ((ks.forM (notify2 a b)) s).2.AllWoken j := by
  induction ks generalizing s with
  | nil => exact h
  | cons k ks ih =>
    rw [forM_notify2_cons]
    exact ih _ (Sys.allWoken_notify_pres _ j b k (Sys.allWoken_notify_pres _ j a k h))

theorem forM_notify2_allWoken (a b : Nat) (ks : List Bytes) (s : Sys) (hks : ks ≠ []) :
    ((ks.forM (notify2 a b)) s).2.AllWoken a ∧ ((ks.forM (notify2 a b)) s).2.AllWoken b := by
  cases ks with
  | nil => exact absurd rfl hks
  | cons k ks =>
    rw [forM_notify2_cons]
    exact ⟨forM_notify2_allWoken_pres a b a ks _ (Sys.allWoken_notify_pres _ a b k (Sys.allWoken_notify _ a k)),
      forM_notify2_allWoken_pres a b b ks _ (Sys.allWoken_notify _ b k)⟩

theorem inv_swap (args : List Arg) (cis : List CI) : Pres Inv (swapdbCmd args cis) := by
  intro s h
  refine ⟨swapdbCmd_preserves args cis s h.1, ?_⟩
  unfold swapdbCmd
  split
  · rename_i i1 i2
    show NoLost (swapdbCmd [Arg.int i1, Arg.int i2] cis s).2
    by_cases hne : (i1 != i2) = true
    · have key : (swapdbCmd [Arg.int i1, Arg.int i2] cis s).2 =
          (((Cmd.setUnion
              ((Db.purge (((s.setDbS i1.toNat (s.dbAt i2.toNat)).setDbS i2.toNat (s.dbAt i1.toNat)).dbAt i1.toNat)).dict.map Prod.fst)
              ((Db.purge ((((s.setDbS i1.toNat (s.dbAt i2.toNat)).setDbS i2.toNat (s.dbAt i1.toNat)).setDbS i1.toNat
                (Db.purge (((s.setDbS i1.toNat (s.dbAt i2.toNat)).setDbS i2.toNat (s.dbAt i1.toNat)).dbAt i1.toNat))).dbAt i2.toNat)).dict.map Prod.fst)).forM
            (notify2 i1.toNat i2.toNat))
            ((((s.setDbS i1.toNat (s.dbAt i2.toNat)).setDbS i2.toNat (s.dbAt i1.toNat)).setDbS i1.toNat
                (Db.purge (((s.setDbS i1.toNat (s.dbAt i2.toNat)).setDbS i2.toNat (s.dbAt i1.toNat)).dbAt i1.toNat))).setDbS i2.toNat
              (Db.purge ((((s.setDbS i1.toNat (s.dbAt i2.toNat)).setDbS i2.toNat (s.dbAt i1.toNat)).setDbS i1.toNat
                (Db.purge (((s.setDbS i1.toNat (s.dbAt i2.toNat)).setDbS i2.toNat (s.dbAt i1.toNat)).dbAt i1.toNat))).dbAt i2.toNat)))).2 := by
        unfold swapdbCmd
        simp only [hne, if_true]
        rfl
      rw [key]
      generalize i1.toNat = a
      generalize i2.toNat = b
      generalize hs2 : (s.setDbS a (s.dbAt b)).setDbS b (s.dbAt a) = s2
      generalize hs3 : s2.setDbS a (Db.purge (s2.dbAt a)) = s3
      generalize hs4 : s3.setDbS b (Db.purge (s3.dbAt b)) = s4
      generalize hks : Cmd.setUnion ((Db.purge (s2.dbAt a)).dict.map Prod.fst) ((Db.purge (s3.dbAt b)).dict.map Prod.fst) = ks
      have hlen2 : s2.srv.dbs.length = s.srv.dbs.length := by rw [← hs2]; simp
      have hlen3 : s3.srv.dbs.length = s.srv.dbs.length := by rw [← hs3]; simp [hlen2]
      have hconns : s4.srv.conns = s.srv.conns := by rw [← hs4, ← hs3, ← hs2]; rfl
      have hother : ∀ j, j ≠ a → j ≠ b → s4.srv.dbs.getD j [] = s.srv.dbs.getD j [] := by
        intro j ha hb
        rw [← hs4, setDbS_getD, ← hs3, setDbS_getD, ← hs2, setDbS_getD, setDbS_getD]
        simp [ha, hb]
      have hb4 : ∀ q ∈ s4.srv.dbs.getD b [], q.1 ∈ ks := by
        intro q hq
        rw [← hs4, setDbS_getD] at hq
        split at hq
        · rw [← hks, ZStore.mem_setUnion]
          exact .inr (List.mem_map.2 ⟨q, hq, rfl⟩)
        · rename_i hnb
          have : s3.srv.dbs.length ≤ b := by
            simp only [true_and, Nat.not_lt] at hnb; exact hnb
          rw [getD_out_of_range s3 b this] at hq; cases hq
      have ha4 : ∀ q ∈ s4.srv.dbs.getD a [], q.1 ∈ ks := by
        intro q hq
        by_cases hab : a = b
        · subst hab; exact hb4 q hq
        · rw [← hs4, setDbS_getD] at hq
          simp only [hab, false_and, if_false] at hq
          rw [← hs3, setDbS_getD] at hq
          split at hq
          · rw [← hks, ZStore.mem_setUnion]
            exact .inl (List.mem_map.2 ⟨q, hq, rfl⟩)
          · rename_i hna
            have : s2.srv.dbs.length ≤ a := by
              simp only [true_and, Nat.not_lt] at hna; exact hna
            rw [getD_out_of_range s2 a this] at hq; cases hq
      refine h.2.of_step ?_ ?_
      · intro x' hx' p hp hw
        obtain ⟨x, hx, hxp⟩ := forM_notify2_unwoken a b ks s4 x' hx' p hp hw
        rw [hconns] at hx
        exact ⟨x, hx, hxp⟩
      · intro j
        rw [forM_notify2_dbs]
        by_cases hja : j = a
        · subst hja
          by_cases hk : ks = []
          · right
            rintro k ⟨it, l, hm, _⟩
            have := ha4 _ hm
            rw [hk] at this; cases this
          · exact .inl (forM_notify2_allWoken j b ks s4 hk).1
        · by_cases hjb : j = b
          · subst hjb
            by_cases hk : ks = []
            · right
              rintro k ⟨it, l, hm, _⟩
              have := hb4 _ hm
              rw [hk] at this; cases this
            · exact .inl (forM_notify2_allWoken a j ks s4 hk).2
          · right
            intro k hk
            rw [hother j hja hjb] at hk
            exact hk
    · have : swapdbCmd [Arg.int i1, Arg.int i2] cis s = (.ok (some .ok, cis), s) := by
        unfold swapdbCmd
        simp only [hne, Bool.false_eq_true, if_false]
        rfl
      rw [this]; exact h.2
  · exact h.2

/-! ## MOVE -/

theorem inv_putNotify (s : Sys) (h : Inv s) (i : Nat) (k : Bytes) (it : Item) (hit : it.value.isEmptyColl = false) :
    Inv ((s.setDbS i ⟨Db.setRaw (s.dbAt i).dict k it, (s.dbAt i).time⟩).mapConns (notifyFn i k)) := by
  have hg : Good (Db.setRaw (s.dbAt i).dict k it) := (h.1.dbAt i).setRaw k hit
  refine ⟨(h.1.setDbS i (db := ⟨_, _⟩) hg).frame rfl, ?_⟩
  refine h.2.of_step (conns_map (notifyFn i k) rfl (notifyFn_unwoken i k)) ?_
  intro j
  by_cases hj : j = i
  · subst hj; exact .inl (Sys.allWoken_notify _ j k)
  · right
    intro k' hk'
    have : ((s.setDbS i ⟨Db.setRaw (s.dbAt i).dict k it, (s.dbAt i).time⟩).mapConns (notifyFn i k)).srv.dbs
        = (s.setDbS i ⟨Db.setRaw (s.dbAt i).dict k it, (s.dbAt i).time⟩).srv.dbs := rfl
    rw [this, setDbS_getD] at hk'
    simp only [hj, false_and, if_false] at hk'
    exact hk'

theorem inv_move (d : Nat) (args : List Arg) (cis : List CI) : Pres Inv (moveCmd d args cis) := by
  unfold moveCmd
  split
  · rename_i k dst
    simp only []
    split
    · kpres
    · split
      · kpres
      · refine k_getDb_bind _ (fun s hs => ?_)
        refine at_setDb_bind hs (by k_del) ?_
        split
        · kpres
        · refine k_getDb_bind _ (fun s hs => ?_)
          refine at_setDb_bind hs (by k_del) ?_
          split
          · kpres
          · rename_i it heq2
            have hit : it.value.isEmptyColl = false := (hs.1.dbAt d).get_snd heq2
            intro s1 h1
            exact inv_putNotify s1 h1 dst.toNat (ciAt cis k).key it hit
  · kpres

instance : Kit Inv where
  swap := inv_swap
  move := inv_move
  parkB := inv_parkB
  parkR := inv_parkR
  stay := inv_stay

/-! ## EXEC -/

theorem inv_runQueue (inner : Inner) (hinner : ∀ sig raw, Pres Inv (inner sig raw)) (c : Nat)
    (q : List (String × List Bytes)) : Pres Inv (runQueue inner c q) := by
  induction q with
  | nil => unfold runQueue; kpres
  | cons a rest ih =>
    rw [runQueue_cons]
    refine Pres.bind ?_ (fun _ => Pres.bind ih (fun _ => Pres.pure _))
    unfold queueStep
    split
    · kpres
    · refine Pres.bind (fun s h => inv_updConn s c _ h (fun x p hp _ => hp)) (fun _ => ?_)
      refine Pres.bind (hinner _ _) (fun r => ?_)
      refine Pres.bind (fun s h => inv_updConn s c _ h (fun x p hp _ => hp)) (fun _ => Pres.pure _)

theorem inv_execCmd (inner : Inner) (hinner : ∀ sig raw, Pres Inv (inner sig raw)) (c : Nat) (cis : List CI) :
    Pres Inv (execCmd inner c cis) := by
  have hq := inv_runQueue inner hinner c
  unfold execCmd
  kpres

theorem inv_execOk : ExecOk Inv := by
  have hstub : ∀ c cis, Pres Inv (execCmd (fun _ _ => do fault "nested exec"; return none) c cis) :=
    fun c cis => inv_execCmd _ (fun sig raw => by kpres) c cis
  exact ⟨hstub, fun mode c cis => inv_execCmd _ (fun sig raw => k_runInner' hstub mode c sig raw) c cis⟩

/-- **No lost wake-up, over all histories.** -/
theorem inv_stepEv (s : Sys) (e : Ev) (h : Inv s) : Inv (stepEv s e) := k_stepEv inv_execOk s e h

theorem inv_foldl (evs : List Ev) (s : Sys) (h : Inv s) : Inv (evs.foldl stepEv s) := k_foldl inv_execOk evs s h

theorem inv_runHistory (evs : List Ev) : Inv (runHistory evs) := k_runHistory inv_execOk inv_init evs

end FR.Conserve

/-!
# Part C: conservation of list elements
-/
namespace FR.Conserve
open FR FR.M FR.Db
set_option linter.unusedSimpArgs false
set_option linter.unusedVariables false
set_option linter.unusedSectionVars false

/-! ## the stored elements -/

/-- the elements of a stored value, if it is a list -/
def elemsOf : Value → List Bytes
  | .list l => l
  | _ => []

/-- all list elements of one database dictionary, in dict order -/
def dictElems (d : Dict) : List Bytes := d.flatMap fun q => elemsOf q.2.value

/-- all list elements stored in all lists of all databases -/
def stored (s : Sys) : List Bytes := s.srv.dbs.flatMap dictElems

/-- the list elements under key `k` (nothing if the key is missing or not a list) -/
def elemsAt (d : Dict) (k : Bytes) : List Bytes :=
  match d.lookup k with
  | some it => elemsOf it.value
  | none => []

theorem dictElems_append (a b : Dict) : dictElems (a ++ b) = dictElems a ++ dictElems b := by
  unfold dictElems; simp

theorem dictElems_cons (q : Bytes × Item) (d : Dict) : dictElems (q :: d) = elemsOf q.2.value ++ dictElems d := by
  unfold dictElems; simp

theorem erase_of_noentry {d : Dict} {k : Bytes} (h : ∀ q ∈ d, q.1 ≠ k) : erase d k = d := by
  unfold erase
  rw [List.filter_eq_self]
  intro q hq
  simpa using h q hq

/-- with unique keys: the elements of a dictionary are those under `k` plus those of the rest -/
theorem dictElems_split {d : Dict} (nd : NodupKeys d) (k : Bytes) :
    (dictElems d).Perm (elemsAt d k ++ dictElems (erase d k)) := by
  induction d with
  | nil => simp [dictElems, elemsAt, erase]
  | cons x xs ih =>
    obtain ⟨k', it'⟩ := x
    rw [nodup_cons] at nd
    by_cases hk : k' = k
    · subst hk
      have hno : ∀ q ∈ xs, q.1 ≠ k' := nd.1
      have h1 : elemsAt ((k', it') :: xs) k' = elemsOf it'.value := by
        unfold elemsAt; simp
      have h2 : erase ((k', it') :: xs) k' = xs := by
        have : erase ((k', it') :: xs) k' = erase xs k' := by
          unfold erase; simp
        rw [this, erase_of_noentry hno]
      rw [h1, h2, dictElems_cons]
    · have hb : (k == k') = false := by simpa using fun e => hk e.symm
      have h1 : elemsAt ((k', it') :: xs) k = elemsAt xs k := by
        unfold elemsAt; simp only [List.lookup_cons, hb]
      have h2 : erase ((k', it') :: xs) k = (k', it') :: erase xs k := by
        unfold erase
        have : ((k', it').1 != k) = true := by simpa using hk
        simp only [List.filter_cons, this, if_true]
      rw [h1, h2, dictElems_cons, dictElems_cons]
      have := ih nd.2
      refine (List.Perm.append_left _ this).trans ?_
      rw [← List.append_assoc, ← List.append_assoc]
      exact List.Perm.append_right _ List.perm_append_comm

theorem filter_map_set_ne (d : Dict) (k : Bytes) (it : Item) :
    (d.map (fun p => if p.1 == k then (k, it) else p)).filter (fun p => p.1 != k) = d.filter (fun p => p.1 != k) := by
  induction d with
  | nil => rfl
  | cons x xs ih =>
    simp only [beq_iff_eq] at ih
    by_cases hx : x.1 = k
    · simp [hx, ih]
    · have hb : (x.1 == k) = false := by simpa using hx
      simp [hb, hx, ih]

theorem erase_setRaw (d : Dict) (k : Bytes) (it : Item) : erase (setRaw d k it) k = erase d k := by
  unfold setRaw
  split
  · unfold erase
    exact filter_map_set_ne d k it
  · unfold erase
    rw [List.filter_append]
    simp

theorem elemsAt_setRaw (d : Dict) (k : Bytes) (it : Item) : elemsAt (setRaw d k it) k = elemsOf it.value := by
  unfold elemsAt; rw [lookup_setRaw_self]

theorem elemsAt_erase (d : Dict) (k : Bytes) : elemsAt (erase d k) k = [] := by
  unfold elemsAt; rw [lookup_erase_self]

theorem erase_erase' (d : Dict) (k : Bytes) : erase (erase d k) k = erase d k := erase_erase d k

/-- replacing the entry of `k` -/
theorem dictElems_setRaw {d : Dict} (nd : NodupKeys d) (k : Bytes) (it : Item) :
    (dictElems (setRaw d k it)).Perm (elemsOf it.value ++ dictElems (erase d k)) := by
  have := dictElems_split (nodup_setRaw k it nd) k
  rw [elemsAt_setRaw, erase_setRaw] at this
  exact this

/-! ## no key has a time to live -/

/-- no stored entry has an expiry time (true of every history without EXPIRE-family commands) -/
def NoTTLd (d : Dict) : Prop := ∀ q ∈ d, q.2.expireat = none
def NoTTL (s : Sys) : Prop := ∀ d ∈ s.srv.dbs, NoTTLd d

theorem NoTTL.dbAt {s : Sys} (h : NoTTL s) (i : Nat) : NoTTLd (s.dbAt i).dict := by
  show NoTTLd (s.srv.dbs.getD i [])
  rw [List.getD_eq_getElem?_getD]
  cases hi : s.srv.dbs[i]? with
  | none => intro q hq; cases hq
  | some d => exact h d (List.mem_of_getElem? hi)

theorem get_noTTL {db : Db} (h : NoTTLd db.dict) (k : Bytes) : db.get k = (db, db.dict.lookup k) := by
  unfold Db.get
  cases hl : db.dict.lookup k with
  | none => rfl
  | some it =>
    have : it.expireat = none := h _ (lookup_some_mem hl)
    simp [Db.expired, this]

/-! ## the database level -/

theorem flatMap_split {α β} (f : α → List β) (l : List α) (d : Nat) (hd : d < l.length) :
    l.flatMap f = (l.take d).flatMap f ++ f l[d] ++ (l.drop (d + 1)).flatMap f := by
  induction l generalizing d with
  | nil => cases hd
  | cons x xs ih =>
    cases d with
    | zero => simp
    | succ d =>
      have hd' : d < xs.length := by simpa using hd
      simp only [List.flatMap_cons, List.take_succ_cons, List.drop_succ_cons, List.getElem_cons_succ]
      rw [ih d hd']
      simp only [List.append_assoc]

theorem flatMap_set {α β} (f : α → List β) (l : List α) (d : Nat) (x : α) (hd : d < l.length) :
    (l.set d x).flatMap f = (l.take d).flatMap f ++ f x ++ (l.drop (d + 1)).flatMap f := by
  induction l generalizing d with
  | nil => cases hd
  | cons y ys ih =>
    cases d with
    | zero => simp
    | succ d =>
      have hd' : d < ys.length := by simpa using hd
      simp only [List.set_cons_succ, List.flatMap_cons, List.take_succ_cons, List.drop_succ_cons]
      rw [ih d hd']
      simp only [List.append_assoc]

theorem stored_split (s : Sys) (d : Nat) (hd : d < s.srv.dbs.length) (db' : Db) :
    ∃ A B, stored s = A ++ dictElems (s.dbAt d).dict ++ B ∧ stored (s.setDbS d db') = A ++ dictElems db'.dict ++ B := by
  refine ⟨(s.srv.dbs.take d).flatMap dictElems, (s.srv.dbs.drop (d + 1)).flatMap dictElems, ?_, ?_⟩
  · have hdb : (s.dbAt d).dict = s.srv.dbs[d] := by
      show s.srv.dbs.getD d [] = _
      rw [List.getD_eq_getElem?_getD, List.getElem?_eq_getElem hd]; rfl
    rw [hdb]
    exact flatMap_split dictElems s.srv.dbs d hd
  · exact flatMap_set dictElems s.srv.dbs d db'.dict hd

/-- replacing database `d`: the balance of the whole system is that of the one dictionary -/
theorem stored_setDbS_perm (s : Sys) (d : Nat) (hd : d < s.srv.dbs.length) (db' : Db) (X Y : List Bytes)
    (h : (dictElems db'.dict ++ X).Perm (dictElems (s.dbAt d).dict ++ Y)) :
    (stored (s.setDbS d db') ++ X).Perm (stored s ++ Y) := by
  obtain ⟨A, B, h1, h2⟩ := stored_split s d hd db'
  rw [h1, h2]
  -- A ++ D' ++ B ++ X ~ A ++ D ++ B ++ Y
  have e1 : (A ++ dictElems db'.dict ++ B ++ X).Perm (A ++ B ++ (dictElems db'.dict ++ X)) := by
    simp only [List.append_assoc]
    refine List.Perm.append_left A ?_
    rw [← List.append_assoc, ← List.append_assoc]
    exact (List.Perm.append_right X List.perm_append_comm).trans (by rw [List.append_assoc])
  have e2 : (A ++ dictElems (s.dbAt d).dict ++ B ++ Y).Perm (A ++ B ++ (dictElems (s.dbAt d).dict ++ Y)) := by
    simp only [List.append_assoc]
    refine List.Perm.append_left A ?_
    rw [← List.append_assoc, ← List.append_assoc]
    exact (List.Perm.append_right Y List.perm_append_comm).trans (by rw [List.append_assoc])
  exact e1.trans ((List.Perm.append_left _ h).trans e2.symm)

theorem stored_mapConns (s : Sys) (g : Conn → Conn) : stored (s.mapConns g) = stored s := rfl

theorem stored_of_dbs {s s' : Sys} (h : s'.srv.dbs = s.srv.dbs) : stored s' = stored s := by
  unfold stored; rw [h]

/-! ## write-back of a list -/

theorem get_fst_noTTL {db : Db} (h : NoTTLd db.dict) (k : Bytes) : (db.get k).1 = db := by rw [get_noTTL h]
theorem get_snd_noTTL {db : Db} (h : NoTTLd db.dict) (k : Bytes) : (db.get k).2 = db.dict.lookup k := by rw [get_noTTL h]

/-- writing back a modified list value: the new elements replace those under the key -/
theorem writeback_list_perm {db : Db} (nd : NodupKeys db.dict) (ht : NoTTLd db.dict) (ci : CI)
    (hm : ci.modified = true) (l' : List Bytes) (hv : ci.val = some (.list l')) :
    (dictElems (ci.writeback db).1.dict).Perm (l' ++ dictElems (erase db.dict ci.key)) := by
  unfold CI.writeback
  simp only [hm, if_true, hv, Value.isEmptyColl, List.isEmpty_iff]
  by_cases hl : l' = []
  · subst hl
    simp only [if_true, pop_eq, List.nil_append]
    exact List.Perm.refl _
  · simp only [hl, if_false]
    unfold Db.put
    simp only [get_fst_noTTL ht]
    exact dictElems_setRaw nd ci.key _

theorem perm_balance {L' L R X Y : List Bytes} {D' D : List Bytes} (h' : D'.Perm (L' ++ R)) (h : D.Perm (L ++ R))
    (hb : (L' ++ X).Perm (L ++ Y)) : (D' ++ X).Perm (D ++ Y) := by
  refine (List.Perm.append_right X h').trans ?_
  refine List.Perm.trans ?_ (List.Perm.append_right Y h).symm
  -- L' ++ R ++ X ~ L ++ R ++ Y
  have e1 : (L' ++ R ++ X).Perm (R ++ (L' ++ X)) := by
    rw [List.append_assoc]
    exact (List.perm_append_comm).trans (by rw [List.append_assoc]; exact List.Perm.append_left R List.perm_append_comm)
  have e2 : (L ++ R ++ Y).Perm (R ++ (L ++ Y)) := by
    rw [List.append_assoc]
    exact (List.perm_append_comm).trans (by rw [List.append_assoc]; exact List.Perm.append_left R List.perm_append_comm)
  exact e1.trans ((List.Perm.append_left R hb).trans e2.symm)

/-- one write-back step at system level -/
theorem stored_wbStep_perm (s : Sys) (d : Nat) (hd : d < s.srv.dbs.length) (nd : NodupKeys (s.dbAt d).dict)
    (ht : NoTTLd (s.dbAt d).dict) (ci : CI) (hm : ci.modified = true) (l' : List Bytes) (hv : ci.val = some (.list l'))
    (X Y : List Bytes) (hb : (l' ++ X).Perm (elemsAt (s.dbAt d).dict ci.key ++ Y)) :
    (stored (s.wbStep d ci) ++ X).Perm (stored s ++ Y) := by
  have : stored (s.wbStep d ci) = stored (s.setDbS d (ci.writeback (s.dbAt d)).1) := by
    unfold Sys.wbStep; simp only [hm, if_true]; rfl
  rw [this]
  exact stored_setDbS_perm s d hd _ X Y
    (perm_balance (writeback_list_perm nd ht ci hm l' hv) (dictElems_split nd ci.key) hb)

/-! ## BLPOP / BRPOP passes -/

theorem setDbS_get_noTTL (s : Sys) (d : Nat) (key : Bytes) (ht : NoTTLd (s.dbAt d).dict) :
    s.setDbS d ((s.dbAt d).get key).1 = s := by
  rw [get_fst_noTTL ht]; exact Sys.setDbS_self s d

theorem elemsAt_of_lookup {d : Dict} {k : Bytes} {it : Item} {l : List Bytes} (h : d.lookup k = some it)
    (hv : it.value = .list l) : elemsAt d k = l := by
  unfold elemsAt; rw [h]; simp only [hv, elemsOf]

/-- A pass of BLPOP / BRPOP over a database without TTLs: if it is served, the reply is `[key, x]` and the stored
elements are exactly the old ones minus `x`; otherwise no database changes. -/
theorem bpopPass_conserve (d : Nat) (left first : Bool) (keys : List Bytes) (s : Sys)
    (hg : Good (s.dbAt d).dict) (ht : NoTTLd (s.dbAt d).dict) :
    (∀ r, (bpopPass d left first keys s).1 = .ok (some r) →
      ∃ k x, k ∈ keys ∧ r = .arr [.bulk k, .bulk x] ∧ (stored (bpopPass d left first keys s).2 ++ [x]).Perm (stored s)) ∧
    ((∀ r, (bpopPass d left first keys s).1 ≠ .ok (some r)) → (bpopPass d left first keys s).2 = s) := by
  induction keys with
  | nil => exact ⟨fun r h => (by cases h), fun _ => rfl⟩
  | cons key rest ih =>
    cases hgk : ((s.dbAt d).get key).2 with
    | none =>
      rw [bpopPass_cons_none _ _ _ _ _ _ hgk, setDbS_get_noTTL s d key ht]
      refine ⟨fun r h => ?_, ih.2⟩
      obtain ⟨k, x, hk, hr, hp⟩ := ih.1 r h
      exact ⟨k, x, List.mem_cons_of_mem _ hk, hr, hp⟩
    | some it =>
      rcases Value.list_or_not it.value with ⟨l, hv⟩ | hv
      · rw [bpopPass_cons_list _ _ _ _ _ _ hgk hv, setDbS_get_noTTL s d key ht]
        refine ⟨fun r h => ?_, fun h => absurd rfl (h _)⟩
        simp only [Except.ok.injEq, Option.some.injEq] at h
        have hlk : (s.dbAt d).dict.lookup key = some it := by rw [← get_snd_noTTL ht]; exact hgk
        have hl : l ≠ [] := by
          have := hg.2 _ (lookup_some_mem hlk)
          simp only [hv, Value.isEmptyColl] at this
          intro e; subst e; simp at this
        have hd : d < s.srv.dbs.length := by
          by_cases hd : d < s.srv.dbs.length
          · exact hd
          · rw [Sys.dbAt_out_of_range s d (by omega)] at hlk; cases hlk
        have hat : elemsAt (s.dbAt d).dict key = l := elemsAt_of_lookup hlk hv
        cases left with
        | true =>
          obtain ⟨x, rem, hp, hx⟩ := popLeftN_one hl
          refine ⟨key, x, List.mem_cons_self, ?_, ?_⟩
          · rw [← h]; simp only [bpopReply, if_true, hp]; rfl
          · have := stored_wbStep_perm s d hd hg.1 ht (bpopCI true key it l) rfl rem
              (by simp only [bpopCI, if_true, hp]) [x] [] (by
                show (rem ++ [x]).Perm (elemsAt (s.dbAt d).dict key ++ [])
                rw [hat, List.append_nil, ← hx]
                exact List.perm_append_comm)
            rw [List.append_nil] at this
            exact this
        | false =>
          obtain ⟨x, rem, hp, hx⟩ := popRightN_one hl
          refine ⟨key, x, List.mem_cons_self, ?_, ?_⟩
          · rw [← h]; simp only [bpopReply, Bool.false_eq_true, if_false, hp]; rfl
          · have := stored_wbStep_perm s d hd hg.1 ht (bpopCI false key it l) rfl rem
              (by simp only [bpopCI, Bool.false_eq_true, if_false, hp]) [x] [] (by
                show (rem ++ [x]).Perm (elemsAt (s.dbAt d).dict key ++ [])
                rw [hat, List.append_nil, ← hx])
            rw [List.append_nil] at this
            exact this
      · rw [bpopPass_cons_other _ _ _ _ _ _ hgk hv, setDbS_get_noTTL s d key ht]
        cases first
        · simp only [Bool.false_eq_true, if_false]
          refine ⟨fun r h => ?_, ih.2⟩
          obtain ⟨k, x, hk, hr, hp⟩ := ih.1 r h
          exact ⟨k, x, List.mem_cons_of_mem _ hk, hr, hp⟩
        · exact ⟨fun r h => (by cases h), fun _ => rfl⟩

/-! ## events: wake-ups and time-outs -/

/-- the element handed over by a BLPOP / BRPOP reply `[key, element]` -/
def popElem : Reply → List Bytes
  | .arr [.bulk _, .bulk x] => [x]
  | _ => []

/-- the elements handed to clients by the pop replies emitted during an event -/
def delivered (out : List (Nat × Reply)) : List Bytes := out.flatMap fun p => popElem p.2

/-- the state an event starts from (outputs reset, hints loaded): same databases, same connections -/
theorem begin_frEq (s : Sys) (clocks : List Int) (picks : List (List Bytes)) :
    FrEq s (s.beginEvent.withHints clocks picks) := ⟨rfl, rfl⟩

/-- the parked command is BLPOP or BRPOP (its pass is `bpopPass`) -/
def IsBpop (p : Parked) : Prop := ¬ (p.kind = "brpoplpush" ∧ ∃ a b, p.keys = [a, b])

theorem parkedPass_bpop (c : Nat) (p : Parked) (h : IsBpop p) :
    ∃ left, parkedPass c p = bpopPass p.db left false p.keys := by
  rcases parkedPass_cases c p with ⟨src, dst, hk, hkeys, _⟩ | ⟨_, he⟩ | ⟨_, he⟩
  · exact absurd ⟨hk, src, dst, hkeys⟩ h
  · exact ⟨true, he⟩
  · exact ⟨false, he⟩

/-- **Wake-up of a connection parked in BLPOP / BRPOP** (any state without TTLs): at most one element `x` is taken
out of the lists, nothing else changes in the stored elements, and the reply handed to the client is exactly
`[key, x]` — unless its socket has been closed meanwhile, in which case the element is taken and the reply dropped. -/
theorem wake_bpop_conserve (s : Sys) (c : Nat) (clocks : List Int) (p : Parked) (hd : s.DataInv) (ht : NoTTL s)
    (hp : (s.conn c).parked = some p) (hk : IsBpop p) :
    ∃ taken : List Bytes, taken.length ≤ 1 ∧
      (stored (stepEv s (.wake c clocks)) ++ taken).Perm (stored s) ∧
      delivered (stepEv s (.wake c clocks)).out = (if (s.conn c).closed then [] else taken) ∧
      (taken = [] → (stepEv s (.wake c clocks)).srv.dbs = s.srv.dbs) := by
  obtain ⟨left, he⟩ := parkedPass_bpop c p hk
  generalize hs0 : s.beginEvent.withHints clocks [] = s0
  have hfr : FrEq s s0 := by rw [← hs0]; exact begin_frEq s clocks []
  have hout0 : s0.out = [] := by rw [← hs0]; rfl
  have hp0 : (s0.conn c).parked = some p := by rw [hfr.conn c]; exact hp
  have hst0 : stored s0 = stored s := stored_of_dbs hfr.1
  have hg0 : Good (s0.dbAt p.db).dict := by
    have : s0.DataInv := hd.frame hfr.1
    exact this.dbAt _
  have ht0 : NoTTLd (s0.dbAt p.db).dict := by
    have : NoTTL s0 := by unfold NoTTL; rw [hfr.1]; exact ht
    exact this.dbAt _
  have hstep : stepEv s (.wake c clocks) = (wakeConn c s0).2 := by rw [← hs0]; rfl
  rw [hstep, wakeConn_run c p s0 hp0, he]
  have hcons := bpopPass_conserve p.db left false p.keys s0 hg0 ht0
  have hc1 : (bpopPass p.db left false p.keys s0).2.HasConn c := by
    rw [← he]; exact parkedPass_hasConn c p s0 c (Sys.hasConn_of_parked hp0)
  have hcl : ((bpopPass p.db left false p.keys s0).2.conn c).closed = (s.conn c).closed := by
    rw [← he, parkedPass_conn_proj Conn.closed notifyFn_closed c p s0 c, hfr.conn c]
  have hout : (bpopPass p.db left false p.keys s0).2.out = [] := by
    rw [← he, parkedPass_out c p s0]; exact hout0
  revert hcons hc1 hcl hout
  generalize bpopPass p.db left false p.keys s0 = pr
  obtain ⟨res, s1⟩ := pr
  intro hcons hc1 hcl hout
  simp only at hcons hc1 hcl hout ⊢
  cases res with
  | error e =>
    have h1 : s1 = s0 := hcons.2 (fun r h => by cases h)
    obtain ⟨_, h2, h3, _⟩ := unpark_emit_spec s1 c (.err (strBytes e)) hc1
    refine ⟨[], by simp, ?_, ?_, fun _ => ?_⟩
    · simp only [wakeState, List.append_nil]
      rw [stored_of_dbs h3, h1, hst0]
    · simp only [wakeState]
      rw [h2, hcl, hout]
      split <;> rfl
    · simp only [wakeState]; rw [h3, h1]; exact hfr.1
  | ok o =>
    cases o with
    | some r =>
      obtain ⟨k, x, _, hr, hperm⟩ := hcons.1 r rfl
      obtain ⟨_, h2, h3, _⟩ := unpark_emit_spec s1 c r hc1
      refine ⟨[x], by simp, ?_, ?_, fun h => by cases h⟩
      · simp only [wakeState]
        rw [stored_of_dbs h3, ← hst0]
        exact hperm
      · simp only [wakeState]
        rw [h2, hcl, hout, hr]
        split <;> rfl
    | none =>
      have h1 : s1 = s0 := hcons.2 (fun r h => by cases h)
      subst h1
      refine ⟨[], by simp, ?_, ?_, fun _ => ?_⟩
      · simp only [wakeState, List.append_nil]
        split
        · exact List.Perm.of_eq hst0
        · split
          · have e : stored (((nextClock s1).2.updConn c unpark).emitS c .nil) = stored s1 :=
              stored_of_dbs (by rw [Sys.emitS_srv]; simp only [Sys.updConn_dbs, nextClock_srv])
            exact List.Perm.of_eq (e.trans hst0)
          · have e : stored ((nextClock s1).2.updConn c (stayParked p)) = stored s1 :=
              stored_of_dbs (by simp only [Sys.updConn_dbs, nextClock_srv])
            exact List.Perm.of_eq (e.trans hst0)
      · simp only [wakeState]
        split
        · rw [show (s1.updConn c (stayParked p)).out = s1.out from rfl, hout]
          split <;> rfl
        · split
          · have hc2 : (nextClock s1).2.HasConn c := (Sys.nextClock_hasConn s1 c).2 hc1
            obtain ⟨_, h2, _, _⟩ := unpark_emit_spec (nextClock s1).2 c .nil hc2
            rw [h2, nextClock_out, hout]
            split <;> split <;> rfl
          · rw [show ((nextClock s1).2.updConn c (stayParked p)).out = (nextClock s1).2.out from rfl, nextClock_out, hout]
            split <;> rfl
      · simp only [wakeState]
        split
        · exact hfr.1
        · split
          · rw [Sys.emitS_srv]; simp only [Sys.updConn_dbs, nextClock_srv]; exact hfr.1
          · simp only [Sys.updConn_dbs, nextClock_srv]; exact hfr.1

/-- a time-out takes nothing and delivers nothing -/
theorem timeout_conserve (s : Sys) (c : Nat) :
    (stepEv s (.timeout c)).srv.dbs = s.srv.dbs ∧ delivered (stepEv s (.timeout c)).out = [] := by
  have hstep : stepEv s (.timeout c) = (timeoutConn c s.beginEvent).2 := rfl
  rw [hstep]
  cases hp : (s.beginEvent.conn c).parked with
  | none =>
    have : timeoutConn c s.beginEvent = M.fault "timeout: connection is not parked" s.beginEvent := by
      unfold timeoutConn
      simp only [bind, StateT.bind, getConn_run, hp]
    rw [this]
    have hf : ∀ msg, (M.fault msg s.beginEvent).2.srv = s.srv ∧ (M.fault msg s.beginEvent).2.out = [] := by
      intro msg
      have : (M.fault msg s.beginEvent).2 =
          (if s.beginEvent.fault.isNone then { s.beginEvent with fault := some msg } else s.beginEvent) := rfl
      rw [this]
      split <;> exact ⟨rfl, rfl⟩
    exact ⟨by rw [(hf _).1], by rw [(hf _).2]; rfl⟩
  | some p =>
    rw [timeoutConn_run c p _ hp]
    obtain ⟨_, h2, h3, _⟩ := unpark_emit_spec s.beginEvent c .nil (Sys.hasConn_of_parked hp)
    refine ⟨h3, ?_⟩
    rw [h2]
    split <;> rfl

/-- opening, closing and collecting connections touches no list and delivers nothing -/
theorem open_close_conserve (s : Sys) (c : Nat) :
    ((stepEv s (.open c)).srv.dbs = s.srv.dbs ∧ delivered (stepEv s (.open c)).out = []) ∧
    ((stepEv s (.close c)).srv.dbs = s.srv.dbs ∧ delivered (stepEv s (.close c)).out = []) ∧
    ((stepEv s (.gc c)).srv.dbs = s.srv.dbs ∧ delivered (stepEv s (.gc c)).out = []) :=
  ⟨⟨rfl, rfl⟩, ⟨rfl, rfl⟩, ⟨rfl, rfl⟩⟩

/-! ## a woken connection is served from its first non-empty key -/

theorem first_unique {α} {P : α → Prop} {pre pre' post post' : List α} {k k' : α}
    (h : pre ++ k :: post = pre' ++ k' :: post') (hpre : ∀ a ∈ pre, ¬ P a) (hk : P k)
    (hpre' : ∀ a ∈ pre', ¬ P a) (hk' : P k') : k = k' := by
  induction pre generalizing pre' with
  | nil =>
    cases pre' with
    | nil => simp at h; exact h.1
    | cons a as =>
      simp at h
      exact absurd (h.1 ▸ hk) (hpre' a (by simp))
  | cons b bs ih =>
    cases pre' with
    | nil =>
      simp at h
      exact absurd (h.1 ▸ hk') (hpre b (by simp))
    | cons a as =>
      simp at h
      exact ih h.2 (fun x hx => hpre x (by simp [hx])) (fun x hx => hpre' x (by simp [hx]))

/-- **A wake-up serves the first key that holds a list**: if `k` is the first key of the parked BLPOP / BRPOP
holding a live list `l`, the turn un-parks the connection and replies `[k, x]` with `x` the head (BLPOP) or the
last element (BRPOP) of `l`. -/
theorem wake_serves_first_key (s : Sys) (c : Nat) (clocks : List Int) (p : Parked) (pre post : List Bytes)
    (k : Bytes) (it : Item) (l : List Bytes) (hd : s.DataInv)
    (hp : (s.conn c).parked = some p) (hb : IsBpop p) (hkeys : p.keys = pre ++ k :: post)
    (hpre : ∀ k' ∈ pre, ¬ HoldsList (s.dbAt p.db) k')
    (hk : (s.dbAt p.db).live k = some it) (hv : it.value = .list l) (hopen : (s.conn c).closed = false) :
    ((stepEv s (.wake c clocks)).conn c).parked = none ∧
    ∃ x, (stepEv s (.wake c clocks)).out = [(c, .arr [.bulk k, .bulk x])] ∧
      (if p.kind = "blpop" then l.head? = some x else l.getLast? = some x) := by
  generalize hs0 : s.beginEvent.withHints clocks [] = s0
  have hfr : FrEq s s0 := by rw [← hs0]; exact begin_frEq s clocks []
  have hout0 : s0.out = [] := by rw [← hs0]; rfl
  have hdb0 : s0.dbAt p.db = s.dbAt p.db := by rw [← hs0]; rfl
  have hp0 : (s0.conn c).parked = some p := by rw [hfr.conn c]; exact hp
  have hcl0 : (s0.conn c).closed = false := by rw [hfr.conn c]; exact hopen
  have hg0 : Good (s0.dbAt p.db).dict := by rw [hdb0]; exact hd.dbAt _
  have hstep : stepEv s (.wake c clocks) = (wakeConn c s0).2 := by rw [← hs0]; rfl
  rw [hstep]
  -- the pass
  have hpass : ∃ left, parkedPass c p = bpopPass p.db left false p.keys ∧ (left = true ↔ p.kind = "blpop") := by
    rcases parkedPass_cases c p with ⟨src, dst, hk1, hkeys1, _⟩ | ⟨hk1, he⟩ | ⟨hk1, he⟩
    · exact absurd ⟨hk1, src, dst, hkeys1⟩ hb
    · exact ⟨true, he, by simp [hk1]⟩
    · exact ⟨false, he, by simp [hk1]⟩
  obtain ⟨left, he, hleft⟩ := hpass
  have hres : ∃ x rem, (parkedPass c p s0).1 = .ok (some (.arr [.bulk k, .bulk x])) ∧
      (if left then l = x :: rem else l = rem ++ [x]) := by
    rw [he]
    cases hr : (bpopPass p.db left false p.keys s0).1 with
    | error e => exact absurd (bpopPass_error _ _ _ _ _ e hr).1 (by simp)
    | ok o =>
      cases o with
      | none =>
        have := (bpopPass_none_iff' p.db left p.keys s0 hg0.1).1 hr k (by rw [hkeys]; simp)
        exact absurd ⟨it, l, by rw [hdb0]; exact hk, hv⟩ this
      | some r =>
        have hd0 : p.db < s0.srv.dbs.length := by
          by_cases hd0 : p.db < s0.srv.dbs.length
          · exact hd0
          · rw [bpopPass_out_of_range _ _ _ _ s0 (by omega)] at hr; cases hr
        obtain ⟨pre', k', post', it', l', x, rem, hkeys', hpre', hlive', hv', hx, hr', _⟩ :=
          bpopPass_served p.db left false p.keys s0 r hd0 hg0.1 hg0.2 hr
        have hkk : k = k' := by
          refine first_unique (P := fun a => HoldsList (s0.dbAt p.db) a) (hkeys.symm.trans hkeys') ?_ ?_ ?_ ?_
          · intro a ha; rw [hdb0]; exact hpre a ha
          · exact ⟨it, l, by rw [hdb0]; exact hk, hv⟩
          · intro a ha ⟨ita, la, hla, hva⟩
            exact ((hpre' a ha) ita hla).2 la hva
          · exact ⟨it', l', hlive', hv'⟩
        subst hkk
        rw [hdb0, hk] at hlive'
        simp only [Option.some.injEq] at hlive'
        subst hlive'
        rw [hv] at hv'
        simp only [Value.list.injEq] at hv'
        subst hv'
        exact ⟨x, rem, by rw [hr'], hx⟩
  obtain ⟨x, rem, hres, hx⟩ := hres
  rcases FR.Props.C11.wakeConn_served_or_stays c p s0 hp0 with ⟨hun, rep, hout, hrep⟩ | ⟨_, _, hnone, _⟩
  · refine ⟨hun, x, ?_, ?_⟩
    · simp only [hcl0, Bool.false_eq_true, if_false, hout0] at hout
      rw [hout]
      rcases hrep with ⟨e, he', _⟩ | hr | ⟨hr, _⟩
      · rw [hres] at he'; cases he'
      · rw [hres] at hr
        simp only [Except.ok.injEq, Option.some.injEq] at hr
        rw [hr]
      · rw [hres] at hr; cases hr
    · by_cases hkind : p.kind = "blpop"
      · have : left = true := hleft.2 hkind
        subst this
        simp only [if_true] at hx
        simp [hkind, hx]
      · have : left = false := by
          cases left with
          | false => rfl
          | true => exact absurd (hleft.1 rfl) hkind
        subst this
        simp only [Bool.false_eq_true, if_false] at hx
        simp [hkind, hx]
  · rw [hres] at hnone; cases hnone

/-- **A time-out answers nil and un-parks** (and, by `timeout_conserve`, takes nothing) -/
theorem timeout_unparks (s : Sys) (c : Nat) (p : Parked) (hp : (s.conn c).parked = some p) :
    ((stepEv s (.timeout c)).conn c).parked = none ∧
    (stepEv s (.timeout c)).out = (if (s.conn c).closed then [] else [(c, .nil)]) := by
  have hstep : stepEv s (.timeout c) = (timeoutConn c s.beginEvent).2 := rfl
  have hp0 : (s.beginEvent.conn c).parked = some p := hp
  rw [hstep]
  obtain ⟨h1, h2, _, _⟩ := FR.Props.C11.timeoutConn_spec c p s.beginEvent hp0
  exact ⟨h1, h2⟩

end FR.Conserve
