import FR.Sys.Lockset
import FR.Sys.LockTable
import FR.Props.C12l
/-!
# C12 (link between the static lock table and the lockset trace model): semantics and helper lemmas

One thread `tid` executes one command through a table `t` of `FR.LockTable`.  `LExec tid t f held ltr`: running function
`f` while the lock is (`held = true`) / is not held by `tid` may produce the labelled trace `ltr` - a list of lockset
events, each carrying the label `(function, atom)` of the table entry it comes from (`atom = ""` for `acq` / `rel`).
Control flow is over-approximated: a function performs any of its accesses and follows any of its call edges, in any
order, any number of times.  Object ids and the read/write flag of an access are arbitrary.

`reports st ltr` scans a labelled trace with `Lockset.bad` / `Lockset.next` and collects the violations with the label
of the offending event.  `exec_reports`: the invariant that carries the theorems of `FR/Props/C12t.lean`.
-/
namespace FR.Props.C12t
open FR.Lockset FR.LockTable FR.Props.C12l

/-- label of an event: (function, atom) of the table entry; atom `""` for the `acq` / `rel` of a `with` block -/
abbrev Lab := String × String
abbrev LTrace := List (Ev × Lab)

/-- the plain trace of a labelled one -/
def proj (ltr : LTrace) : Trace := ltr.map (·.1)

/-- `body` inside `with lock:` written in function `f`, when the `with` really takes the lock (`b`) -/
def bracket (tid : Tid) (f : String) (b : Bool) (body : LTrace) : LTrace :=
  if b then (Ev.acq tid, (f, "")) :: body ++ [(Ev.rel tid, (f, ""))] else body

/-- one access `(a, l)` of function `f`: under a `with` of its own when `l` and the lock is not held yet -/
def accEvs (tid : Tid) (f a : String) (l held : Bool) (o : Nat) (w : Bool) : LTrace :=
  bracket tid f (l && !held) [(Ev.acc tid o w, (f, a))]

/-- labelled executions of function `f` of table `t` by thread `tid`, the lock `held` by `tid` or not -/
inductive LExec (tid : Tid) (t : Table) : String → Bool → LTrace → Prop
  | done (f : String) (held : Bool) : LExec tid t f held []
  | access {f : String} {held : Bool} {fn : Fn} {a : String} {l : Bool} {rest : LTrace} (o : Nat) (w : Bool) :
      fn ∈ t → fn.name = f → (a, l) ∈ fn.accesses → LExec tid t f held rest →
      LExec tid t f held (accEvs tid f a l held o w ++ rest)
  | call {f : String} {held : Bool} {fn : Fn} {g : String} {l : Bool} {body rest : LTrace} :
      fn ∈ t → fn.name = f → (g, l) ∈ fn.calls → LExec tid t g (held || l) body → LExec tid t f held rest →
      LExec tid t f held (bracket tid f (l && !held) body ++ rest)

/-- the same on plain traces (no labels) -/
inductive Exec (tid : Tid) (t : Table) : String → Bool → Trace → Prop
  | done (f : String) (held : Bool) : Exec tid t f held []
  | access {f : String} {held : Bool} {fn : Fn} {a : String} {l : Bool} {rest : Trace} (o : Nat) (w : Bool) :
      fn ∈ t → fn.name = f → (a, l) ∈ fn.accesses → Exec tid t f held rest →
      Exec tid t f held ((if l && !held then [Ev.acq tid, Ev.acc tid o w, Ev.rel tid] else [Ev.acc tid o w]) ++ rest)
  | call {f : String} {held : Bool} {fn : Fn} {g : String} {l : Bool} {body rest : Trace} :
      fn ∈ t → fn.name = f → (g, l) ∈ fn.calls → Exec tid t g (held || l) body → Exec tid t f held rest →
      Exec tid t f held ((if l && !held then Ev.acq tid :: body ++ [Ev.rel tid] else body) ++ rest)

theorem proj_append (a b : LTrace) : proj (a ++ b) = proj a ++ proj b := by simp [proj]

theorem proj_bracket (tid : Tid) (f : String) (b : Bool) (body : LTrace) :
    proj (bracket tid f b body) = if b then Ev.acq tid :: proj body ++ [Ev.rel tid] else proj body := by
  cases b <;> simp [bracket, proj]

/-- every plain execution is the projection of a labelled one -/
theorem exec_labelled {tid : Tid} {t : Table} {f : String} {held : Bool} {tr : Trace} (h : Exec tid t f held tr) :
    ∃ ltr, LExec tid t f held ltr ∧ proj ltr = tr := by
  induction h with
  | done f held => exact ⟨[], .done f held, rfl⟩
  | @access f held fn a l rest o w hfn hname ha _ ih =>
    obtain ⟨lr, hl, hp⟩ := ih
    refine ⟨_, .access o w hfn hname ha hl, ?_⟩
    rw [proj_append, hp, accEvs, proj_bracket]
    cases (l && !held) <;> simp [proj]
  | @call f held fn g l body rest hfn hname hc _ _ ihb ihr =>
    obtain ⟨lb, hlb, hpb⟩ := ihb
    obtain ⟨lr, hlr, hpr⟩ := ihr
    refine ⟨_, .call hfn hname hc hlb hlr, ?_⟩
    rw [proj_append, hpr, proj_bracket, hpb]

/-- … and conversely -/
theorem lexec_proj {tid : Tid} {t : Table} {f : String} {held : Bool} {ltr : LTrace} (h : LExec tid t f held ltr) :
    Exec tid t f held (proj ltr) := by
  induction h with
  | done f held => exact .done f held
  | @access f held fn a l rest o w hfn hname ha _ ih =>
    have := Exec.access (tid := tid) o w hfn hname ha ih
    rw [proj_append, accEvs, proj_bracket]
    cases hb : (l && !held) <;> simpa [proj, hb] using this
  | @call f held fn g l body rest hfn hname hc _ _ ihb ihr =>
    have := Exec.call (tid := tid) hfn hname hc ihb ihr
    rw [proj_append, proj_bracket]
    exact this

/-! ## scanning a labelled trace -/

/-- the violations `Lockset.bad` reports along the trace, each with the label of the offending event -/
def reports (st : St) : LTrace → List (String × Lab)
  | [] => []
  | (e, lab) :: rest =>
    (match bad st e with
      | some r => [(r, lab)]
      | none => []) ++ reports (next st e) rest

/-- the scan state after the trace -/
def run (st : St) : LTrace → St
  | [] => st
  | (e, _) :: rest => run (next st e) rest

theorem reports_append (st : St) (a b : LTrace) : reports st (a ++ b) = reports st a ++ reports (run st a) b := by
  induction a generalizing st with
  | nil => rfl
  | cons x xs ih => obtain ⟨e, lab⟩ := x; simp [reports, run, ih]

theorem run_append (st : St) (a b : LTrace) : run st (a ++ b) = run (run st a) b := by
  induction a generalizing st with
  | nil => rfl
  | cons x xs ih => obtain ⟨e, lab⟩ := x; simp [run, ih]

/-- a trace without reports passes the `wlFrom` scan up to its end -/
theorem wlFrom_of_reports_nil (st : St) (ltr : LTrace) (rest : Trace) (h : reports st ltr = []) :
    wlFrom st (proj ltr ++ rest) = wlFrom (run st ltr) rest := by
  induction ltr generalizing st with
  | nil => rfl
  | cons x xs ih =>
    obtain ⟨e, lab⟩ := x
    simp only [reports, List.append_eq_nil_iff] at h
    have hb : bad st e = none := by
      cases hbe : bad st e with
      | none => rfl
      | some r => rw [hbe] at h; exact absurd h.1 (by simp)
    simp only [proj, List.map_cons, List.cons_append, wlFrom, ok, hb, Option.isNone_none, Bool.true_and, run]
    exact ih _ h.2

/-- thread `tid` is inside command `cid`; it holds the lock iff `held`, otherwise the lock is free -/
def Inv (tid : Tid) (cid : Cid) (held : Bool) (st : St) : Prop :=
  st.holder = (if held then some tid else none) ∧ ∃ b, cget st.cur tid = some (cid, b)

theorem cget_cset (cur : Cur) (t : Tid) (v : Cid × Bool) : cget (cset cur t v) t = some v := by
  simp [cget, cset]

/-- a report is acceptable: an access outside the lock that the list `b` declares benign -/
def Benign (b : List (String × String)) (r : String × Lab) : Prop :=
  r.1 = "acc-without-lock" ∧ (r.2 ∈ b ∨ ("*", r.2.2) ∈ b)

theorem inv_acq {tid : Tid} {cid : Cid} {st : St} (h : Inv tid cid false st) :
    bad st (.acq tid) = none ∧ Inv tid cid true (next st (.acq tid)) := by
  obtain ⟨hh, b, hc⟩ := h
  simp only [Bool.false_eq_true, if_false] at hh
  refine ⟨by simp [bad, hh, hc], ?_, ?_⟩
  · simp [next]
  · exact ⟨true, by simp [next, hc, cget_cset]⟩

theorem inv_rel {tid : Tid} {cid : Cid} {st : St} (h : Inv tid cid true st) :
    bad st (.rel tid) = none ∧ Inv tid cid false (next st (.rel tid)) := by
  obtain ⟨hh, b, hc⟩ := h
  simp only [if_true] at hh
  exact ⟨by simp [bad, hh], by simp [next], b, by simpa [next] using hc⟩

theorem inv_acc {tid : Tid} {cid : Cid} {st : St} (h : Inv tid cid true st) (o : Nat) (w : Bool) :
    bad st (.acc tid o w) = none := by
  obtain ⟨hh, -⟩ := h
  simp only [if_true] at hh
  simp [bad, hh]

theorem inv_acc_free {tid : Tid} {cid : Cid} {st : St} (h : Inv tid cid false st) (o : Nat) (w : Bool) :
    bad st (.acc tid o w) = some "acc-without-lock" := by
  obtain ⟨hh, -⟩ := h
  simp only [Bool.false_eq_true, if_false] at hh
  simp [bad, hh]

/-- scanning a `with` block: if the body keeps the invariant with the lock held, the block keeps it with the lock free,
and reports what the body reports -/
theorem bracket_scan {tid : Tid} {cid : Cid} {f : String} {body : LTrace} {P : String × Lab → Prop}
    (hbody : ∀ st, Inv tid cid true st → (∀ r ∈ reports st body, P r) ∧ Inv tid cid true (run st body))
    {st : St} (h : Inv tid cid false st) :
    (∀ r ∈ reports st (bracket tid f true body), P r) ∧ Inv tid cid false (run st (bracket tid f true body)) := by
  obtain ⟨ha, hi1⟩ := inv_acq h
  obtain ⟨hr, hi2⟩ := hbody _ hi1
  obtain ⟨hl, hi3⟩ := inv_rel hi2
  simp only [bracket, if_true]
  constructor
  · intro r hmem
    simp only [List.cons_append, reports, ha, List.nil_append, reports_append, hl, List.append_nil] at hmem
    exact hr r hmem
  · simp only [run, run_append]
    exact hi3

/-- **the invariant**: the table is closed and clean on `X`; a function entered without the lock is in `X`.  Then an
execution keeps "inside the command, lock held iff `held`", and everything the scan reports is a benign access -/
theorem exec_reports {b : List (String × String)} {t : Table} {X : List String}
    (hclosed : closed t X = true) (hclean : clean b t X = true)
    {tid : Tid} {cid : Cid} {f : String} {held : Bool} {ltr : LTrace} (h : LExec tid t f held ltr) :
    ∀ st, Inv tid cid held st → (held = true ∨ f ∈ X) →
      (∀ r ∈ reports st ltr, Benign b r) ∧ Inv tid cid held (run st ltr) := by
  induction h with
  | done f held => intro st hi _; exact ⟨by simp [reports], hi⟩
  | @access f held fn a l rest o w hfn hname ha _ ih =>
    intro st hi hX
    have key : (∀ r ∈ reports st (accEvs tid f a l held o w), Benign b r) ∧
        Inv tid cid held (run st (accEvs tid f a l held o w)) := by
      cases held with
      | true =>
        have hb := inv_acc hi o w
        simp [accEvs, bracket, reports, run, next, hb, hi]
      | false =>
        cases l with
        | true =>
          refine bracket_scan (body := [(Ev.acc tid o w, (f, a))]) ?_ hi
          intro st' hi'
          have hb := inv_acc hi' o w
          simp [reports, run, next, hb, hi']
        | false =>
          have hb := inv_acc_free hi o w
          have hfX : fn.name ∈ X := by
            rcases hX with hX | hX
            · cases hX
            · rw [hname]; exact hX
          have hben := clean_access hclean hfn hfX ha
          refine ⟨?_, by simpa [accEvs, bracket, run, next] using hi⟩
          intro r hr
          simp only [accEvs, bracket, Bool.false_and, Bool.false_eq_true, if_false, reports, hb, List.append_nil,
            List.mem_singleton] at hr
          subst hr
          refine ⟨rfl, ?_⟩
          rcases hben with hben | hben | hben
          · cases hben
          · exact .inl (by rw [← hname]; exact hben)
          · exact .inr hben
    obtain ⟨k1, k2⟩ := key
    obtain ⟨r1, r2⟩ := ih _ k2 hX
    refine ⟨?_, by rw [run_append]; exact r2⟩
    intro r hr
    rw [reports_append, List.mem_append] at hr
    rcases hr with hr | hr
    · exact k1 r hr
    · exact r1 r hr
  | @call f held fn g l body rest hfn hname hc _ _ ihb ihr =>
    intro st hi hX
    have key : (∀ r ∈ reports st (bracket tid f (l && !held) body), Benign b r) ∧
        Inv tid cid held (run st (bracket tid f (l && !held) body)) := by
      cases held with
      | true =>
        have := ihb st (by simpa using hi) (.inl (by simp))
        simpa [bracket] using this
      | false =>
        cases l with
        | true =>
          refine bracket_scan ?_ hi
          intro st' hi'
          exact ihb st' (by simpa using hi') (.inl (by simp))
        | false =>
          have hfX : fn.name ∈ X := by
            rcases hX with hX | hX
            · cases hX
            · rw [hname]; exact hX
          have hg := closed_step hclosed hfn hfX hc
          have := ihb st (by simpa using hi) (.inr hg)
          simpa [bracket] using this
    obtain ⟨k1, k2⟩ := key
    obtain ⟨r1, r2⟩ := ihr _ k2 hX
    refine ⟨?_, by rw [run_append]; exact r2⟩
    intro r hr
    rw [reports_append, List.mem_append] at hr
    rcases hr with hr | hr
    · exact k1 r hr
    · exact r1 r hr

/-! ## several threads: the thread-local part of the scan state -/

/-- the acting thread of an event -/
def evTid : Ev → Tid
  | .call t _ | .ret t _ | .acq t | .rel t | .acc t _ _ => t

/-- the part of the scan state that belongs to thread `tid`: does it hold the lock, which command is it in -/
def LInv (tid : Tid) (cid : Cid) (held : Bool) (st : St) : Prop :=
  (st.holder = some tid ↔ held = true) ∧ ∃ b, cget st.cur tid = some (cid, b)

theorem cget_cdel_ne (cur : Cur) {t u : Tid} (h : u ≠ t) : cget (cdel cur u) t = cget cur t := by
  induction cur with
  | nil => rfl
  | cons x xs ih =>
    obtain ⟨k, v⟩ := x
    simp only [cget, cdel] at ih ⊢
    by_cases hk : k = u
    · subst hk
      have : (t == k) = false := by simpa using fun h' => h h'.symm
      simp [List.filter, List.lookup, this, ih]
    · have : (k != u) = true := by simpa using hk
      simp only [List.filter, this, List.lookup]
      cases t == k <;> simp [ih]

theorem cget_cset_ne (cur : Cur) {t u : Tid} (v : Cid × Bool) (h : u ≠ t) : cget (cset cur u v) t = cget cur t := by
  have : (t == u) = false := by simpa using fun h' => h h'.symm
  have h2 := cget_cdel_ne cur h
  simp only [cget, cset, List.lookup, this] at h2 ⊢
  exact h2

end FR.Props.C12t
