import FR.Proofs.C18aArith
/-!
# C18a helper — what the rounding `Dbl.RN` / `roundAbs` means, in rational arithmetic

`roundPos_core`: the result of `roundPos neg num den` is `M · 2^e` where `M` is the integer nearest to
`X = num/den / 2^e` (ties to even), `e ≥ -1074` is the exponent with `2^52 ≤ X < 2^53` (or `-1074` below the normal range).
From it: nearest among ALL canonical doubles, half an ulp, ties to even, exactness, thresholds.
-/
namespace FR.C18a
open FR FR.C18f FR.DumpRound

theorem sN_div_sD (num den : Nat) (hd : 0 < den) (e : Int) :
    (sN num e : ℚ) / (sD den e : ℚ) = (num : ℚ) / (den : ℚ) / (2 : ℚ) ^ e := by
  have hdq : (den : ℚ) ≠ 0 := by exact_mod_cast hd.ne'
  unfold sN sD
  split
  · rename_i he
    have : e = (e.toNat : Int) := by omega
    conv_rhs => rw [this, zpow_natCast]
    push_cast
    rw [div_div]
  · rename_i he
    have : e = -((-e).toNat : Int) := by omega
    conv_rhs => rw [this, zpow_neg, zpow_natCast]
    push_cast
    field_simp

/-- the rounded significand in rational terms -/
theorem rm_rat (n' d' : Nat) (hd : 0 < d') :
    |(rm n' d' : ℚ) - (n' : ℚ) / (d' : ℚ)| ≤ 1 / 2 ∧
    (|(rm n' d' : ℚ) - (n' : ℚ) / (d' : ℚ)| = 1 / 2 → rm n' d' % 2 = 0) := by
  obtain ⟨s1, s2, _, _, s5, s6⟩ := rm_spec n' d' hd
  generalize rm n' d' = M at *
  have hdq : (0 : ℚ) < (d' : ℚ) := by exact_mod_cast hd
  have hrw : (M : ℚ) - (n' : ℚ) / (d' : ℚ) = ((M : ℚ) * d' - n') / d' := by field_simp
  have c1 : (2 : ℚ) * ((M : ℚ) * d') ≤ 2 * n' + d' := by exact_mod_cast s1
  have c2 : (2 : ℚ) * n' ≤ 2 * ((M : ℚ) * d') + d' := by exact_mod_cast s2
  rw [hrw, abs_div, abs_of_pos hdq]
  constructor
  · rw [div_le_iff₀ hdq, abs_le]
    constructor <;> linarith
  · intro h
    rw [div_eq_iff hdq.ne'] at h
    rcases abs_cases ((M : ℚ) * d' - n') with ⟨ha, _⟩ | ⟨ha, _⟩
    · apply s5
      have : (2 : ℚ) * ((M : ℚ) * d') = 2 * n' + d' := by linarith
      exact_mod_cast this
    · apply s6
      have : (2 : ℚ) * n' = 2 * ((M : ℚ) * d') + d' := by linarith
      exact_mod_cast this

/-- CORE: everything `roundPos` does, in rational terms -/
theorem roundPos_core (neg : Bool) (num den : Nat) (h0 : num ≠ 0) (hd : 0 < den) :
    ∃ (e : Int) (M : Nat), -1074 ≤ e ∧ M ≤ 2 ^ 53 ∧ (e ≠ -1074 → 2 ^ 52 ≤ M) ∧
      (e ≠ -1074 → (2 : ℚ) ^ 52 ≤ (num : ℚ) / den / (2 : ℚ) ^ e) ∧
      (num : ℚ) / den / (2 : ℚ) ^ e < (2 : ℚ) ^ 53 ∧
      |(M : ℚ) - (num : ℚ) / den / (2 : ℚ) ^ e| ≤ 1 / 2 ∧
      (|(M : ℚ) - (num : ℚ) / den / (2 : ℚ) ^ e| = 1 / 2 → M % 2 = 0) ∧
      Dbl.roundPos neg num den =
        if M = 2 ^ 53 then (if e + 1 > 971 then .inf neg else .fin neg (2 ^ 52) (e + 1))
        else (if e > 971 then .inf neg else .fin neg M e) := by
  obtain ⟨hd', hq, he, hq52, hres⟩ := roundPos_cases neg num den h0 hd
  obtain ⟨_, _, s3, s4, _, _⟩ := rm_spec (sN num (rE num den)) (sD den (rE num den)) hd'
  obtain ⟨r1, r2⟩ := rm_rat (sN num (rE num den)) (sD den (rE num den)) hd'
  rw [sN_div_sD num den hd] at r1 r2
  have hdq : (0 : ℚ) < (sD den (rE num den) : ℚ) := by exact_mod_cast hd'
  refine ⟨rE num den, rm (sN num (rE num den)) (sD den (rE num den)), he, by omega, fun h => ?_, fun h => ?_, ?_, r1, r2,
    hres⟩
  · have := hq52 h; omega
  · have h52 := hq52 h
    rw [← sN_div_sD num den hd, le_div_iff₀ hdq]
    have := (Nat.le_div_iff_mul_le hd').mp h52
    exact_mod_cast this
  · rw [← sN_div_sD num den hd, div_lt_iff₀ hdq]
    have := (Nat.div_lt_iff_lt_mul hd').mp hq
    exact_mod_cast this

theorem natAbs_num_ne_zero {q : ℚ} (hq : q ≠ 0) : q.num.natAbs ≠ 0 := by
  intro h
  exact hq (Rat.num_eq_zero.mp (Int.natAbs_eq_zero.mp h))

/-- CORE for a rational: with `x = |q|` -/
theorem roundAbs_core (neg : Bool) (q : ℚ) (hq : q ≠ 0) :
    ∃ (e : Int) (M : Nat), -1074 ≤ e ∧ M ≤ 2 ^ 53 ∧ (e ≠ -1074 → 2 ^ 52 ≤ M) ∧
      (e ≠ -1074 → (2 : ℚ) ^ 52 ≤ |q| / (2 : ℚ) ^ e) ∧
      |q| / (2 : ℚ) ^ e < (2 : ℚ) ^ 53 ∧
      |(M : ℚ) - |q| / (2 : ℚ) ^ e| ≤ 1 / 2 ∧
      (|(M : ℚ) - |q| / (2 : ℚ) ^ e| = 1 / 2 → M % 2 = 0) ∧
      roundAbs neg q =
        if M = 2 ^ 53 then (if e + 1 > 971 then .inf neg else .fin neg (2 ^ 52) (e + 1))
        else (if e > 971 then .inf neg else .fin neg M e) := by
  rw [abs_eq_natAbs_div]
  exact roundPos_core neg _ _ (natAbs_num_ne_zero hq) q.den_pos

/-- an integer within `1/2` of `X` is at least as close to `X` as any other integer -/
theorem int_nearest (X : ℚ) (M K : Int) (h : |(M : ℚ) - X| ≤ 1 / 2) : |(M : ℚ) - X| ≤ |(K : ℚ) - X| := by
  by_cases hk : K = M
  · rw [hk]
  · have h1 : (1 : ℚ) ≤ |(K : ℚ) - (M : ℚ)| := by
      have : (1 : Int) ≤ |K - M| := Int.one_le_abs (sub_ne_zero.mpr hk)
      exact_mod_cast this
    have h2 : |(K : ℚ) - (M : ℚ)| ≤ |(K : ℚ) - X| + |(M : ℚ) - X| := by
      have := abs_sub_le (K : ℚ) X (M : ℚ)
      rwa [abs_sub_comm X (M : ℚ)] at this
    linarith

/-- NEAREST (magnitudes): `M · 2^e` is at least as close to `x` as any `m' · 2^e'` with `m' < 2^53`, `e' ≥ -1074` -/
theorem nearest_of_core (x : ℚ) (e : Int) (M : Nat) (h52 : e ≠ -1074 → (2 : ℚ) ^ 52 ≤ x / (2 : ℚ) ^ e)
    (hM : |(M : ℚ) - x / (2 : ℚ) ^ e| ≤ 1 / 2) (m' : Nat) (e' : Int) (hm' : m' < 2 ^ 53) (he' : -1074 ≤ e') :
    |(M : ℚ) * (2 : ℚ) ^ e - x| ≤ |(m' : ℚ) * (2 : ℚ) ^ e' - x| := by
  have hP : (0 : ℚ) < (2 : ℚ) ^ e := two_zpow_pos e
  have e1 : (M : ℚ) * (2 : ℚ) ^ e - x = ((M : ℚ) - x / (2 : ℚ) ^ e) * (2 : ℚ) ^ e := by field_simp
  have e2 : (m' : ℚ) * (2 : ℚ) ^ e' - x = ((m' : ℚ) * (2 : ℚ) ^ (e' - e) - x / (2 : ℚ) ^ e) * (2 : ℚ) ^ e := by
    rw [zpow_sub₀ (by norm_num)]; field_simp
  rw [e1, e2, abs_mul, abs_mul, abs_of_pos hP]
  apply mul_le_mul_of_nonneg_right _ hP.le
  generalize x / (2 : ℚ) ^ e = X at *
  by_cases hge : e ≤ e'
  · have : e' - e = ((e' - e).toNat : Int) := by omega
    rw [this, zpow_natCast]
    have := int_nearest X (M : Int) ((m' * 2 ^ (e' - e).toNat : Nat) : Int) (by simpa using hM)
    simpa using this
  · have hX := h52 (by omega)
    have hk : e' - e = -((e - e').toNat : Int) := by omega
    have hW : (m' : ℚ) * (2 : ℚ) ^ (e' - e) < (2 : ℚ) ^ 52 := by
      have h1 : (2 : ℚ) ^ 1 ≤ (2 : ℚ) ^ (e - e').toNat := pow_le_pow_right₀ (by norm_num) (by omega)
      rw [hk, zpow_neg, zpow_natCast, ← div_eq_mul_inv]
      generalize (2 : ℚ) ^ (e - e').toNat = P at *
      have hPp : (0 : ℚ) < P := by linarith
      rw [div_lt_iff₀ hPp]
      have h2 : (m' : ℚ) < (2 : ℚ) ^ 53 := by exact_mod_cast hm'
      have h3 : (2 : ℚ) ^ 52 * (2 : ℚ) ^ 1 ≤ (2 : ℚ) ^ 52 * P := mul_le_mul_of_nonneg_left h1 (by positivity)
      have h4 : (2 : ℚ) ^ 52 * (2 : ℚ) ^ 1 = (2 : ℚ) ^ 53 := by norm_num
      linarith
    generalize (m' : ℚ) * (2 : ℚ) ^ (e' - e) = W at *
    have := int_nearest X (M : Int) ((2 : Int) ^ 52) (by simpa using hM)
    have hc : (((2 : Int) ^ 52 : Int) : ℚ) = (2 : ℚ) ^ 52 := by norm_cast
    rw [hc] at this
    have h4 : |(2 : ℚ) ^ 52 - X| = X - (2 : ℚ) ^ 52 := by
      rw [abs_sub_comm, abs_of_nonneg (by linarith)]
    have h5 : |W - X| = X - W := by
      rw [abs_sub_comm, abs_of_nonneg (by linarith)]
    rw [h4] at this
    rw [h5]
    have h6 : (((M : Int) : ℚ)) = (M : ℚ) := by norm_cast
    rw [h6] at this
    linarith

theorem roundAbs_wf (neg : Bool) (q : ℚ) : Dbl.WF (roundAbs neg q) :=
  (wf_iff_canon _).mpr (roundPos_canon neg _ _ q.den_pos)

/-- a finite result of `roundAbs`, linked to the core data -/
theorem roundAbs_fin_core (neg : Bool) (q : ℚ) (hq : q ≠ 0) {n : Bool} {m : Nat} {e' : Int}
    (h : roundAbs neg q = .fin n m e') :
    n = neg ∧ ∃ (e : Int) (M : Nat), e ≤ e' ∧ (m : ℚ) * (2 : ℚ) ^ e' = (M : ℚ) * (2 : ℚ) ^ e ∧
      (e ≠ -1074 → (2 : ℚ) ^ 52 ≤ |q| / (2 : ℚ) ^ e) ∧ |(M : ℚ) - |q| / (2 : ℚ) ^ e| ≤ 1 / 2 ∧
      ((M = m ∧ e = e') ∨ m = 2 ^ 52) ∧ (|(M : ℚ) - |q| / (2 : ℚ) ^ e| = 1 / 2 → M % 2 = 0) := by
  obtain ⟨e, M, he, hM, hM52, hX52, hX53, hhalf, htie, hres⟩ := roundAbs_core neg q hq
  rw [hres] at h
  split at h
  · rename_i hM53
    split at h
    · cases h
    · injection h with h1 h2 h3
      subst h1 h2 h3 hM53
      refine ⟨rfl, e, 2 ^ 53, by omega, ?_, hX52, hhalf, Or.inr rfl, htie⟩
      rw [zpow_add₀ (by norm_num)]
      push_cast
      ring
  · split at h
    · cases h
    · injection h with h1 h2 h3
      subst h1 h2 h3
      exact ⟨rfl, e, M, le_refl _, rfl, hX52, hhalf, Or.inl ⟨rfl, rfl⟩, htie⟩

/-- NEAREST: no `m' · 2^e''` with `m' < 2^53`, `e'' ≥ -1074` is closer to `|q|` than the (finite) result -/
theorem roundAbs_nearest (neg : Bool) (q : ℚ) (hq : q ≠ 0) {n : Bool} {m : Nat} {e' : Int}
    (h : roundAbs neg q = .fin n m e') (m' : Nat) (e'' : Int) (hm' : m' < 2 ^ 53) (he'' : -1074 ≤ e'') :
    |(m : ℚ) * (2 : ℚ) ^ e' - abs q| ≤ |(m' : ℚ) * (2 : ℚ) ^ e'' - abs q| := by
  obtain ⟨_, e, M, _, hv, hX52, hhalf, _, _⟩ := roundAbs_fin_core neg q hq h
  rw [hv]
  exact nearest_of_core |q| e M hX52 hhalf m' e'' hm' he''

theorem abs_scaled_sub (x : ℚ) (e : Int) (M : Nat) :
    |(M : ℚ) * (2 : ℚ) ^ e - x| = |(M : ℚ) - x / (2 : ℚ) ^ e| * (2 : ℚ) ^ e := by
  have hP : (0 : ℚ) < (2 : ℚ) ^ e := two_zpow_pos e
  have e1 : (M : ℚ) * (2 : ℚ) ^ e - x = ((M : ℚ) - x / (2 : ℚ) ^ e) * (2 : ℚ) ^ e := by field_simp
  rw [e1, abs_mul, abs_of_pos hP]

/-- HALF-ULP: the finite result is within half a unit in its last place of `|q|` -/
theorem roundAbs_half_ulp (neg : Bool) (q : ℚ) (hq : q ≠ 0) {n : Bool} {m : Nat} {e' : Int}
    (h : roundAbs neg q = .fin n m e') :
    |(m : ℚ) * (2 : ℚ) ^ e' - abs q| ≤ (2 : ℚ) ^ e' / 2 := by
  obtain ⟨_, e, M, hee, hv, _, hhalf, _, _⟩ := roundAbs_fin_core neg q hq h
  rw [hv, abs_scaled_sub]
  have hP : (0 : ℚ) < (2 : ℚ) ^ e := two_zpow_pos e
  have hmono : (2 : ℚ) ^ e ≤ (2 : ℚ) ^ e' := zpow_le_zpow_right₀ (by norm_num) hee
  have := mul_le_mul_of_nonneg_right hhalf hP.le
  linarith

/-- TIES TO EVEN -/
theorem roundAbs_tie_even (neg : Bool) (q : ℚ) (hq : q ≠ 0) {n : Bool} {m : Nat} {e' : Int}
    (h : roundAbs neg q = .fin n m e') (ht : |(m : ℚ) * (2 : ℚ) ^ e' - abs q| = (2 : ℚ) ^ e' / 2) :
    m % 2 = 0 := by
  obtain ⟨_, e, M, hee, hv, _, hhalf, hc, htie⟩ := roundAbs_fin_core neg q hq h
  rcases hc with ⟨rfl, rfl⟩ | rfl
  · apply htie
    rw [abs_scaled_sub] at ht
    have hP : (0 : ℚ) < (2 : ℚ) ^ e := two_zpow_pos e
    have : |(M : ℚ) - |q| / (2 : ℚ) ^ e| * (2 : ℚ) ^ e = (1 / 2) * (2 : ℚ) ^ e := by linarith
    exact mul_right_cancel₀ hP.ne' this
  · decide

/-! ### thresholds, exactness -/

set_option exponentiation.threshold 1100 in
theorem ovf_cast : ((ovf : Nat) : ℚ) = (2 : ℚ) ^ 1024 - (2 : ℚ) ^ 970 := by
  have h : ovf + 2 ^ 970 = 2 ^ 1024 := by unfold ovf; decide +kernel
  have : ((ovf + 2 ^ 970 : Nat) : ℚ) = ((2 ^ 1024 : Nat) : ℚ) := by rw [h]
  push_cast at this
  linarith

/-- OVERFLOW: the result is an infinity iff `|q| ≥ 2^1024 − 2^970` -/
theorem roundAbs_isInf_iff (neg : Bool) (q : ℚ) (hq : q ≠ 0) :
    (roundAbs neg q).isInf = true ↔ (2 : ℚ) ^ 1024 - (2 : ℚ) ^ 970 ≤ |q| := by
  unfold roundAbs
  rw [roundPos_isInf_iff neg _ _ (natAbs_num_ne_zero hq) q.den_pos, ← ovf_cast, abs_eq_natAbs_div,
    le_div_iff₀ (by exact_mod_cast q.den_pos)]
  norm_cast

set_option exponentiation.threshold 1100 in
/-- UNDERFLOW: the result is a zero iff `|q| ≤ 2^-1075` -/
theorem roundAbs_isZero_iff (neg : Bool) (q : ℚ) (hq : q ≠ 0) :
    (roundAbs neg q).isZero = true ↔ |q| ≤ (2 : ℚ) ^ (-1075 : Int) := by
  unfold roundAbs
  rw [roundPos_isZero_iff neg _ _ (natAbs_num_ne_zero hq) q.den_pos, abs_eq_natAbs_div,
    div_le_iff₀ (by exact_mod_cast q.den_pos), zpow_neg, show ((1075 : Int)) = ((1075 : Nat) : Int) from rfl,
    zpow_natCast, inv_mul_eq_div, le_div_iff₀ (by positivity)]
  norm_cast

theorem roundAbs_shape (neg : Bool) (q : ℚ) :
    roundAbs neg q = .inf neg ∨ ∃ m e, roundAbs neg q = .fin neg m e := roundPos_shape neg _ _

set_option exponentiation.threshold 1100 in
/-- EXACTNESS: a magnitude that IS a canonical double rounds to that double -/
theorem roundAbs_exact (neg : Bool) (q : ℚ) (m : Nat) (e : Int) (hwf : Dbl.WF (.fin neg m e)) (hm : m ≠ 0)
    (h : |q| = (m : ℚ) * (2 : ℚ) ^ e) : roundAbs neg q = .fin neg m e := by
  have he : -1074 ≤ e := hwf.2.1
  rw [roundAbs_of_abs neg q (m * 2 ^ (e + 1074).toNat) (2 ^ 1074) (Nat.pow_pos (by decide))]
  · exact roundPos_exact_canon neg m e ((wf_iff_canon _).mp hwf) hm
  · rw [h]
    have : e = ((e + 1074).toNat : Int) - (1074 : Nat) := by omega
    conv_lhs => rw [this, zpow_sub₀ (by norm_num), zpow_natCast, zpow_natCast]
    push_cast
    ring

/-! ### the signed specification `Dbl.RN` -/

theorem RN_zero (z : Bool) : Dbl.RN z 0 = .fin z 0 (-1074) := by
  unfold Dbl.RN; rw [if_pos rfl]

theorem RN_of_ne {q : ℚ} (hq : q ≠ 0) (z : Bool) : Dbl.RN z q = roundAbs (decide (q < 0)) q := by
  unfold Dbl.RN; rw [if_neg hq]

theorem RN_wf (z : Bool) (q : ℚ) : Dbl.WF (Dbl.RN z q) := by
  unfold Dbl.RN
  split
  · exact ⟨by decide, by decide, by decide, Or.inr rfl, fun _ => rfl⟩
  · exact roundAbs_wf _ _

theorem RN_not_nan (z : Bool) (q : ℚ) : (Dbl.RN z q).isNaN = false := by
  unfold Dbl.RN
  split
  · rfl
  · exact Dbl.roundPos_not_nan _ _ _

/-- the sign bit of the result: the sign of `q`, or `z` for an exact zero -/
theorem RN_signBit (z : Bool) (q : ℚ) : (Dbl.RN z q).signBit = if q = 0 then z else decide (q < 0) := by
  unfold Dbl.RN
  split
  · rfl
  · rcases roundAbs_shape (decide (q < 0)) q with h | ⟨m, e, h⟩ <;> rw [h] <;> rfl

theorem abs_val_sub (q : ℚ) (m : Nat) (e : Int) :
    |Dbl.val (.fin (decide (q < 0)) m e) - q| = |(m : ℚ) * (2 : ℚ) ^ e - abs q| := by
  rw [val_fin]
  by_cases h : q < 0
  · simp only [h, decide_true, if_true, abs_of_neg h]
    rw [← abs_neg]; congr 1; ring
  · simp only [h, decide_false, Bool.false_eq_true, if_false, abs_of_nonneg (not_lt.mp h), one_mul]

theorem val_sign (n : Bool) (m : Nat) (e : Int) :
    (n = true → Dbl.val (.fin n m e) ≤ 0) ∧ (n = false → 0 ≤ Dbl.val (.fin n m e)) := by
  have : (0 : ℚ) ≤ (m : ℚ) * (2 : ℚ) ^ e := mul_nonneg (by positivity) (two_zpow_pos e).le
  rw [val_fin]
  constructor
  · rintro rfl; simp only [if_true]; linarith
  · rintro rfl; simp only [Bool.false_eq_true, if_false]; linarith

/-- NEAREST: a finite result of `RN z q` is at least as close to `q` as ANY canonical finite double -/
theorem RN_nearest (z : Bool) (q : ℚ) {n : Bool} {m : Nat} {e : Int} (h : Dbl.RN z q = .fin n m e)
    (n' : Bool) (m' : Nat) (e' : Int) (hwf : Dbl.WF (.fin n' m' e')) :
    |Dbl.val (.fin n m e) - q| ≤ |Dbl.val (.fin n' m' e') - q| := by
  by_cases hq : q = 0
  · subst hq
    rw [RN_zero] at h
    injection h with h1 h2 h3
    subst h1 h2 h3
    rw [val_fin]; simp
  · rw [RN_of_ne hq] at h
    obtain ⟨hn, _⟩ := roundAbs_fin_core _ q hq h
    subst hn
    rw [abs_val_sub]
    by_cases hs : n' = decide (q < 0)
    · subst hs
      rw [abs_val_sub]
      exact roundAbs_nearest _ q hq h m' e' hwf.1 hwf.2.1
    · have h0 := roundAbs_nearest _ q hq h 0 (-1074) (by decide) (by decide)
      have h1 : |((0 : Nat) : ℚ) * (2 : ℚ) ^ (-1074 : Int) - abs q| = |q| := by
        rw [Nat.cast_zero, zero_mul, zero_sub, abs_neg, abs_abs]
      rw [h1] at h0
      refine le_trans h0 ?_
      obtain ⟨v1, v2⟩ := val_sign n' m' e'
      by_cases hlt : q < 0
      · have : n' = false := by cases n' <;> simp_all
        have := v2 this
        rw [abs_of_neg hlt, abs_of_nonneg (by linarith)]
        linarith
      · have : n' = true := by cases n' <;> simp_all
        have := v1 this
        have hq0 : 0 ≤ q := not_lt.mp hlt
        rw [abs_of_nonneg hq0, abs_sub_comm, abs_of_nonneg (by linarith)]
        linarith

/-- HALF-ULP -/
theorem RN_half_ulp (z : Bool) (q : ℚ) {n : Bool} {m : Nat} {e : Int} (h : Dbl.RN z q = .fin n m e) :
    |Dbl.val (.fin n m e) - q| ≤ (2 : ℚ) ^ e / 2 := by
  by_cases hq : q = 0
  · subst hq
    rw [RN_zero] at h
    injection h with h1 h2 h3
    subst h1 h2 h3
    rw [val_fin]
    simp only [Nat.cast_zero, mul_zero, zero_mul, sub_zero, abs_zero]
    exact (div_pos (two_zpow_pos _) (by norm_num)).le
  · rw [RN_of_ne hq] at h
    obtain ⟨hn, _⟩ := roundAbs_fin_core _ q hq h
    subst hn
    rw [abs_val_sub]
    exact roundAbs_half_ulp _ q hq h

/-- TIES TO EVEN -/
theorem RN_tie_even (z : Bool) (q : ℚ) {n : Bool} {m : Nat} {e : Int} (h : Dbl.RN z q = .fin n m e)
    (ht : |Dbl.val (.fin n m e) - q| = (2 : ℚ) ^ e / 2) : m % 2 = 0 := by
  by_cases hq : q = 0
  · subst hq
    rw [RN_zero] at h
    injection h with h1 h2 h3
    subst h2; rfl
  · rw [RN_of_ne hq] at h
    obtain ⟨hn, _⟩ := roundAbs_fin_core _ q hq h
    subst hn
    rw [abs_val_sub] at ht
    exact roundAbs_tie_even _ q hq h ht

/-- OVERFLOW threshold and the sign of the infinity -/
theorem RN_isInf_iff (z : Bool) (q : ℚ) :
    (Dbl.RN z q).isInf = true ↔ (2 : ℚ) ^ 1024 - (2 : ℚ) ^ 970 ≤ |q| := by
  by_cases hq : q = 0
  · subst hq
    rw [RN_zero, abs_zero]
    constructor
    · intro h; cases h
    · intro h
      exfalso
      have : (2 : ℚ) ^ 970 < (2 : ℚ) ^ 1024 := pow_lt_pow_right₀ (by norm_num) (by norm_num)
      exact absurd h (not_le.mpr (sub_pos.mpr this))
  · rw [RN_of_ne hq, roundAbs_isInf_iff _ q hq]

theorem RN_eq_inf_iff (z : Bool) (q : ℚ) (n : Bool) :
    Dbl.RN z q = .inf n ↔ (2 : ℚ) ^ 1024 - (2 : ℚ) ^ 970 ≤ |q| ∧ n = decide (q < 0) := by
  rw [← RN_isInf_iff z q]
  by_cases hq : q = 0
  · subst hq
    rw [RN_zero]
    constructor
    · intro h; cases h
    · rintro ⟨h, _⟩; cases h
  · rw [RN_of_ne hq]
    rcases roundAbs_shape (decide (q < 0)) q with h | ⟨m, e, h⟩ <;> rw [h]
    · constructor
      · intro h'; injection h' with h'; exact ⟨rfl, h'.symm⟩
      · rintro ⟨_, rfl⟩; rfl
    · constructor
      · intro h'; cases h'
      · rintro ⟨h', _⟩; cases h'

/-- UNDERFLOW threshold -/
theorem RN_isZero_iff (z : Bool) (q : ℚ) :
    (Dbl.RN z q).isZero = true ↔ |q| ≤ (2 : ℚ) ^ (-1075 : Int) := by
  by_cases hq : q = 0
  · subst hq
    rw [RN_zero, abs_zero]
    exact ⟨fun _ => (two_zpow_pos _).le, fun _ => rfl⟩
  · rw [RN_of_ne hq, roundAbs_isZero_iff _ q hq]

/-- EXACTNESS: the value of a canonical finite double rounds to that double (the zero keeps its sign bit through `z`) -/
theorem RN_val (n : Bool) (m : Nat) (e : Int) (hwf : Dbl.WF (.fin n m e)) :
    Dbl.RN n (Dbl.val (.fin n m e)) = .fin n m e := by
  by_cases hm : m = 0
  · subst hm
    have he : e = -1074 := hwf.2.2.2.2 rfl
    subst he
    rw [val_fin]
    simp only [Nat.cast_zero, mul_zero, zero_mul]
    exact RN_zero n
  · have hmq : (0 : ℚ) < (m : ℚ) * (2 : ℚ) ^ e :=
      mul_pos (by exact_mod_cast Nat.pos_of_ne_zero hm) (two_zpow_pos e)
    have hv : Dbl.val (.fin n m e) ≠ 0 := by
      rw [val_fin, mul_assoc]; exact mul_ne_zero (sgn_ne_zero n) hmq.ne'
    have hneg : decide (Dbl.val (.fin n m e) < 0) = n := by
      rw [val_fin, mul_assoc]
      cases n
      · simp only [Bool.false_eq_true, if_false, one_mul, decide_eq_false_iff_not]; exact not_lt.mpr hmq.le
      · simp only [if_true, decide_eq_true_eq]; linarith
    rw [RN_of_ne hv, hneg]
    apply roundAbs_exact n _ m e hwf hm
    rw [val_fin, mul_assoc, abs_mul, abs_sgn, one_mul, abs_of_pos hmq]

/-- … for a non-zero value the zero-sign parameter is irrelevant -/
theorem RN_val_of_ne (z n : Bool) (m : Nat) (e : Int) (hwf : Dbl.WF (.fin n m e)) (hm : m ≠ 0) :
    Dbl.RN z (Dbl.val (.fin n m e)) = .fin n m e := by
  have hmq : (0 : ℚ) < (m : ℚ) * (2 : ℚ) ^ e :=
    mul_pos (by exact_mod_cast Nat.pos_of_ne_zero hm) (two_zpow_pos e)
  have hv : Dbl.val (.fin n m e) ≠ 0 := by
    rw [val_fin, mul_assoc]; exact mul_ne_zero (sgn_ne_zero n) hmq.ne'
  have := RN_val n m e hwf
  rw [RN_of_ne hv] at this
  rw [RN_of_ne hv, this]

end FR.C18a
