import FR.Proofs.Decimal
import FR.Cmd.Sig
/-!
# C18f helper — the declarative float grammar and the analysis of the model's parser

Definitions: `Sgn`, `ExpPart`, `DecLit` (the parse tree of a decimal literal), `DecLit.render` (its bytes),
`DecLit.Valid`, `InfWord`, `StrtodDecimal`, the positional value `decNat`, and the analysis of
`PyFloat.parseExp`, `PyFloat.parseUnsigned`, `PyFloat.parse`: the model's parser accepts exactly the renderings
of valid parse trees, the `inf`/`infinity` words, and the `nan` word.
-/
namespace FR.C18f
open FR

/-! ## the declarative grammar -/

/-- an ASCII decimal digit `0`…`9` -/
def IsDig (c : UInt8) : Prop := 48 ≤ c ∧ c ≤ 57
instance (c : UInt8) : Decidable (IsDig c) := by unfold IsDig; infer_instance

/-- a (possibly empty) string of decimal digits -/
def Digits (l : Bytes) : Prop := ∀ c ∈ l, IsDig c

instance (l : Bytes) : Decidable (Digits l) := by unfold Digits; infer_instance

/-- an optional sign -/
inductive Sgn where
  | none | plus | minus
  deriving DecidableEq, Repr, Inhabited

def Sgn.bytes : Sgn → Bytes
  | .none => []
  | .plus => [43]
  | .minus => [45]

def Sgn.neg : Sgn → Bool
  | .minus => true
  | _ => false

/-- the exponent part `[eE][+-]?digits` -/
structure ExpPart where
  letter : UInt8
  sign : Sgn
  digits : Bytes
  deriving Repr, Inhabited

/-- the parse tree of a decimal literal: sign, integer digits, optional `.` with fraction digits, optional
exponent part -/
structure DecLit where
  sign : Sgn
  ip : Bytes
  frac : Option Bytes
  exp : Option ExpPart
  deriving Repr, Inhabited

namespace DecLit

/-- the fraction digits (none when there is no `.`) -/
def fp (L : DecLit) : Bytes := L.frac.getD []

def fracBytes (L : DecLit) : Bytes :=
  match L.frac with
  | none => []
  | some f => 46 :: f

def expBytes (L : DecLit) : Bytes :=
  match L.exp with
  | none => []
  | some x => x.letter :: (x.sign.bytes ++ x.digits)

/-- the bytes of the literal: nothing before, between or after the parts -/
def render (L : DecLit) : Bytes := L.sign.bytes ++ (L.ip ++ (L.fracBytes ++ L.expBytes))

/-- the C grammar: `digits [. digits*] | . digits`, then optionally `[eE][+-]?digits` -/
def Valid (L : DecLit) : Prop :=
  Digits L.ip ∧ Digits L.fp ∧ (L.ip ≠ [] ∨ L.fp ≠ []) ∧
  ∀ x, L.exp = some x → (x.letter = 101 ∨ x.letter = 69) ∧ Digits x.digits ∧ x.digits ≠ []

instance (L : DecLit) : Decidable L.Valid :=
  match h : L.exp with
  | none =>
    decidable_of_iff (Digits L.ip ∧ Digits L.fp ∧ (L.ip ≠ [] ∨ L.fp ≠ [])) (by
      unfold Valid; rw [h]
      exact ⟨fun ⟨a, b, c⟩ => ⟨a, b, c, fun x hx => by cases hx⟩, fun ⟨a, b, c, _⟩ => ⟨a, b, c⟩⟩)
  | some x =>
    decidable_of_iff (Digits L.ip ∧ Digits L.fp ∧ (L.ip ≠ [] ∨ L.fp ≠ []) ∧
        ((x.letter = 101 ∨ x.letter = 69) ∧ Digits x.digits ∧ x.digits ≠ [])) (by
      unfold Valid; rw [h]
      exact ⟨fun ⟨a, b, c, d⟩ => ⟨a, b, c, fun y hy => by cases hy; exact d⟩,
        fun ⟨a, b, c, d⟩ => ⟨a, b, c, d x rfl⟩⟩)

end DecLit

/-- positional decimal value of a digit string: `Σ (cᵢ − '0') · 10^(n−1−i)` -/
def decNat : Bytes → Nat
  | [] => 0
  | c :: rest => (c.toNat - 48) * 10 ^ rest.length + decNat rest

namespace DecLit
/-- all mantissa digits read as one natural number -/
def mant (L : DecLit) : Nat := decNat (L.ip ++ L.fp)
/-- the written exponent (0 when absent) -/
def expo (L : DecLit) : Int :=
  match L.exp with
  | none => 0
  | some x => if x.sign.neg then -(decNat x.digits : Int) else (decNat x.digits : Int)
/-- the power of ten that multiplies `mant` -/
def exp10 (L : DecLit) : Int := L.expo - (L.fp.length : Int)
/-- numerator and denominator of `|mant · 10^exp10|` (one of the two powers is `10^0`) -/
def ratNum (L : DecLit) : Nat := L.mant * 10 ^ L.exp10.toNat
def ratDen (L : DecLit) : Nat := 10 ^ (-L.exp10).toNat
/-- the rational number the literal denotes: `± mant · 10^exp10` -/
def rat (L : DecLit) : Rat := mkRat ((if L.sign.neg then -1 else 1) * (L.ratNum : Int)) L.ratDen
end DecLit

/-- `w` is `lit` up to ASCII case (`lit` is given in lower case) -/
def CIEq : Bytes → Bytes → Prop
  | [], [] => True
  | c :: w, l :: lit => (c = l ∨ c + 32 = l ∧ 65 ≤ c ∧ c ≤ 90) ∧ CIEq w lit
  | _, _ => False

instance : ∀ (w lit : Bytes), Decidable (CIEq w lit)
  | [], [] => isTrue trivial
  | [], _ :: _ => isFalse (fun h => h)
  | _ :: _, [] => isFalse (fun h => h)
  | c :: w, l :: lit =>
    have : Decidable (CIEq w lit) := instDecidableCIEq w lit
    decidable_of_iff ((c = l ∨ c + 32 = l ∧ 65 ≤ c ∧ c ≤ 90) ∧ CIEq w lit) Iff.rfl

/-- `inf` or `infinity`, any case -/
def InfWord (w : Bytes) : Prop := CIEq w [105, 110, 102] ∨ CIEq w [105, 110, 102, 105, 110, 105, 116, 121]
/-- `nan`, any case -/
def NanWord (w : Bytes) : Prop := CIEq w [110, 97, 110]
instance (w : Bytes) : Decidable (InfWord w) := by unfold InfWord; infer_instance
instance (w : Bytes) : Decidable (NanWord w) := by unfold NanWord; infer_instance

/-- THE GRAMMAR: an optional sign followed by a decimal literal or by `inf`/`infinity`; nothing else -/
def StrtodDecimal (s : Bytes) : Prop :=
  (∃ L : DecLit, L.Valid ∧ s = L.render) ∨ (∃ (sg : Sgn) (w : Bytes), InfWord w ∧ s = sg.bytes ++ w)

/-! ## literals -/

theorem lit_inf : strBytes "inf" = [105, 110, 102] := by rw [strBytes_eq]; rfl
theorem lit_infinity : strBytes "infinity" = [105, 110, 102, 105, 110, 105, 116, 121] := by rw [strBytes_eq]; rfl
theorem lit_nan : strBytes "nan" = [110, 97, 110] := by rw [strBytes_eq]; rfl
theorem lit_zero_dot_zero : strBytes "0.0" = [48, 46, 48] := by rw [strBytes_eq]; rfl

/-! ## digits -/

theorem isDig_iff (c : UInt8) : isDigit c = true ↔ IsDig c := by
  unfold isDigit IsDig; simp

theorem digits_iff_all (l : Bytes) : Digits l ↔ l.all isDigit = true := by
  rw [List.all_eq_true]
  exact ⟨fun h c hc => (isDig_iff c).mpr (h c hc), fun h c hc => (isDig_iff c).mp (h c hc)⟩

theorem Digits.nil : Digits [] := fun _ h => by cases h
theorem Digits.cons {c : UInt8} {l : Bytes} (hc : IsDig c) (hl : Digits l) : Digits (c :: l) := by
  intro x hx
  rcases List.mem_cons.mp hx with rfl | hx
  · exact hc
  · exact hl x hx
theorem Digits.tail {c : UInt8} {l : Bytes} (h : Digits (c :: l)) : Digits l :=
  fun x hx => h x (List.mem_cons_of_mem _ hx)
theorem Digits.head {c : UInt8} {l : Bytes} (h : Digits (c :: l)) : IsDig c := h c (List.mem_cons_self ..)
theorem Digits.append {a b : Bytes} (ha : Digits a) (hb : Digits b) : Digits (a ++ b) := by
  intro x hx
  rcases List.mem_append.mp hx with h | h
  · exact ha x h
  · exact hb x h

theorem of_mem_takeWhile {α} (p : α → Bool) : ∀ (l : List α) {x : α}, x ∈ l.takeWhile p → p x = true
  | [], _, h => by cases h
  | a :: l, x, h => by
    rw [List.takeWhile_cons] at h
    split at h
    · rcases List.mem_cons.mp h with rfl | h
      · assumption
      · exact of_mem_takeWhile p l h
    · cases h

theorem digits_takeWhile (l : Bytes) : Digits (l.takeWhile isDigit) := by
  intro c hc
  exact (isDig_iff c).mp (of_mem_takeWhile _ _ hc)

/-- `digitsVal` (the model's left fold) is the positional value -/
theorem digitsVal_eq_decNat (l : Bytes) : digitsVal l = decNat l := by
  suffices h : ∀ (l : Bytes) (acc : Nat),
      l.foldl (fun acc c => acc * 10 + (c.toNat - 48)) acc = acc * 10 ^ l.length + decNat l by
    have := h l 0
    simpa [digitsVal] using this
  intro l
  induction l with
  | nil => intro acc; simp [decNat]
  | cons c rest ih =>
    intro acc
    rw [List.foldl_cons, ih, decNat, List.length_cons, Nat.pow_succ, Nat.add_mul, Nat.mul_assoc,
      Nat.mul_comm 10, Nat.add_assoc]

theorem decNat_append (a b : Bytes) : decNat (a ++ b) = decNat a * 10 ^ b.length + decNat b := by
  induction a with
  | nil => simp [decNat]
  | cons c rest ih =>
    rw [List.cons_append, decNat, decNat, ih, List.length_append, Nat.pow_add, Nat.add_mul, Nat.mul_assoc,
      Nat.add_assoc]

theorem decNat_lt (l : Bytes) (h : Digits l) : decNat l < 10 ^ l.length := by
  induction l with
  | nil => simp [decNat]
  | cons c rest ih =>
    have hc := h.head
    have := ih h.tail
    unfold IsDig at hc
    have hc1 : c.toNat - 48 ≤ 9 := by
      have : c.toNat ≤ 57 := hc.2
      omega
    rw [decNat, List.length_cons, Nat.pow_succ]
    have : (c.toNat - 48) * 10 ^ rest.length ≤ 9 * 10 ^ rest.length := Nat.mul_le_mul_right _ hc1
    omega

/-- a digit string without a leading zero is at least `10^(n-1)` -/
theorem decNat_ge {c : UInt8} {rest : Bytes} (hc : IsDig c) (h0 : c ≠ 48) :
    10 ^ rest.length ≤ decNat (c :: rest) := by
  unfold IsDig at hc
  have h1 : 1 ≤ c.toNat - 48 := by
    have h48 : (48 : UInt8).toNat ≤ c.toNat := hc.1
    have : c.toNat ≠ 48 := fun h => h0 (UInt8.toNat_inj.mp h)
    have e : (48 : UInt8).toNat = 48 := rfl
    omega
  rw [decNat]
  have : 1 * 10 ^ rest.length ≤ (c.toNat - 48) * 10 ^ rest.length := Nat.mul_le_mul_right _ h1
  omega

theorem decNat_dropZeros (l : Bytes) : decNat (l.dropWhile (· == 48)) = decNat l := by
  induction l with
  | nil => rfl
  | cons c rest ih =>
    rw [List.dropWhile_cons]
    split
    · rename_i h
      have : c = 48 := by simpa using h
      subst this
      rw [ih, decNat]
      simp
    · rfl

/-- all digits are `0` iff the value is zero -/
theorem decNat_eq_zero_iff (l : Bytes) (h : Digits l) : decNat l = 0 ↔ ∀ c ∈ l, c = 48 := by
  induction l with
  | nil => simp [decNat]
  | cons c rest ih =>
    have hc := h.head
    unfold IsDig at hc
    rw [decNat]
    constructor
    · intro h0
      have hp : 0 < 10 ^ rest.length := Nat.pow_pos (by decide)
      have h1 : (c.toNat - 48) * 10 ^ rest.length = 0 := by omega
      have h2 : decNat rest = 0 := by omega
      have h3 : c.toNat - 48 = 0 := by
        rcases Nat.mul_eq_zero.mp h1 with h | h
        · exact h
        · omega
      have h48 : (48 : UInt8).toNat ≤ c.toNat := hc.1
      have e : (48 : UInt8).toNat = 48 := rfl
      have hc48 : c = 48 := UInt8.toNat_inj.mp (by omega)
      intro x hx
      rcases List.mem_cons.mp hx with rfl | hx
      · exact hc48
      · exact (ih h.tail).mp h2 x hx
    · intro hall
      have hc48 : c = 48 := hall c (List.mem_cons_self ..)
      have := (ih h.tail).mpr (fun x hx => hall x (List.mem_cons_of_mem _ hx))
      subst hc48
      simp [this]

end FR.C18f
