import FR
import FR.Proofs.Basic
/-! # LREM (C02) -/
namespace FR.Proofs
open FR

/-- the index set LREM deletes -/
def lremRm (l : List Bytes) (count : Int) (v : Bytes) : List Nat :=
  let found := Cmd.occurrences l v
  if count > 0 then found.take count.toNat
  else if count < 0 then found.drop (found.length - (-count).toNat)
  else found

/-- the list LREM leaves -/
def lremKeep (l : List Bytes) (rm : List Nat) : List Bytes :=
  (l.zipIdx.filter (fun p => !rm.contains p.2)).map Prod.fst

theorem lrem_body (ctx : Ctx) (cis : List CI) (k : Nat) (count : Int) (v : Bytes) :
    Cmd.lrem ctx [.key k, .int count, .raw v] cis =
      (let l := Cmd.listOf (ciAt cis k)
       let rm := lremRm l count v
       if rm.isEmpty then ret (.int 0) cis
       else ret (.int rm.length) (Cmd.setList cis k (lremKeep l rm))) := rfl

theorem mem_occurrences (l : List Bytes) (v : Bytes) (i : Nat) :
    i ∈ Cmd.occurrences l v ↔ l[i]? = some v := by
  simp only [Cmd.occurrences, List.mem_map, List.mem_filter, List.mem_zipIdx_iff_getElem?,
    beq_iff_eq]
  constructor
  · rintro ⟨⟨x, j⟩, ⟨h1, h2⟩, rfl⟩
    simp only at h1 h2 ⊢
    rw [h1, h2]
  · intro h
    exact ⟨(v, i), ⟨h, rfl⟩, rfl⟩

theorem occurrences_sublist (l : List Bytes) (v : Bytes) :
    (Cmd.occurrences l v).Sublist (List.range' 0 l.length) := by
  unfold Cmd.occurrences
  rw [← List.zipIdx_map_snd 0 l]
  exact List.Sublist.map _ List.filter_sublist

theorem occurrences_sorted (l : List Bytes) (v : Bytes) :
    (Cmd.occurrences l v).Pairwise (· < ·) :=
  List.Pairwise.sublist (occurrences_sublist l v) (List.pairwise_lt_range' 1)

theorem occurrences_length (l : List Bytes) (v : Bytes) :
    (Cmd.occurrences l v).length = l.count v := by
  unfold Cmd.occurrences
  rw [List.length_map, ← List.countP_eq_length_filter, List.count_eq_countP]
  conv => rhs; rw [← List.zipIdx_map_fst 0 l, List.countP_map]
  rfl

theorem lremRm_sublist (l : List Bytes) (count : Int) (v : Bytes) :
    (lremRm l count v).Sublist (Cmd.occurrences l v) := by
  unfold lremRm
  simp only
  split
  · exact List.take_sublist _ _
  · split
    · exact List.drop_sublist _ _
    · exact List.Sublist.refl _

/-- number of removed elements: `min |count| occurrences`, all of them when `count = 0` -/
theorem lremRm_length (l : List Bytes) (count : Int) (v : Bytes) :
    (lremRm l count v).length =
      if count = 0 then l.count v else min count.natAbs (l.count v) := by
  unfold lremRm
  simp only
  rw [← occurrences_length]
  split
  · rw [List.length_take]; split <;> omega
  · split
    · rw [List.length_drop]; split <;> omega
    · have : count = 0 := by omega
      simp [this]

/-- prefix / suffix / everything -/
theorem lremRm_shape (l : List Bytes) (count : Int) (v : Bytes) :
    (0 < count → lremRm l count v = (Cmd.occurrences l v).take count.natAbs) ∧
    (count < 0 → lremRm l count v = ((Cmd.occurrences l v).reverse.take count.natAbs).reverse) ∧
    (count = 0 → lremRm l count v = Cmd.occurrences l v) := by
  unfold lremRm
  simp only
  refine ⟨fun h => ?_, fun h => ?_, fun h => ?_⟩
  · rw [if_pos h]; congr 1; omega
  · rw [if_neg (by omega), if_pos h, List.reverse_take, List.reverse_reverse,
      List.length_reverse]
    congr 2
    omega
  · subst h; simp

theorem filter_mem_of_sublist {α} [DecidableEq α] {r L : List α} (h : r.Sublist L) (hn : L.Nodup) :
    L.filter (fun x => decide (x ∈ r)) = r := by
  induction h with
  | slnil => rfl
  | @cons r' L' a hs ih =>
    have ⟨ha, hn'⟩ := List.nodup_cons.mp hn
    have : a ∉ r' := fun hm => ha (hs.subset hm)
    simp only [List.filter_cons, this, decide_false, Bool.false_eq_true, if_false]
    exact ih hn'
  | @cons_cons r' L' a hs ih =>
    have ⟨ha, hn'⟩ := List.nodup_cons.mp hn
    simp only [List.filter_cons, List.mem_cons, true_or, decide_true, if_true]
    congr 1
    have e : L'.filter (fun x => decide (x = a ∨ x ∈ r')) = L'.filter (fun x => decide (x ∈ r')) := by
      apply List.filter_congr
      intro x hx
      have : x ≠ a := fun e => ha (e ▸ hx)
      simp [this]
    rw [e]
    exact ih hn'

theorem lremKeep_length (l : List Bytes) (rm : List Nat)
    (h : rm.Sublist (List.range' 0 l.length)) :
    (lremKeep l rm).length + rm.length = l.length := by
  unfold lremKeep
  rw [List.length_map]
  have h1 := List.length_eq_countP_add_countP (fun p : Bytes × Nat => !rm.contains p.2) (l := l.zipIdx)
  rw [List.length_zipIdx] at h1
  rw [← List.countP_eq_length_filter]
  have h2 : List.countP (fun a : Bytes × Nat => decide ¬(!rm.contains a.2) = true) l.zipIdx = rm.length := by
    have e : (fun a : Bytes × Nat => decide ¬(!rm.contains a.2) = true)
        = (fun i : Nat => decide (i ∈ rm)) ∘ Prod.snd := by
      funext a; simp
    rw [e, ← List.countP_map, List.zipIdx_map_snd, List.countP_eq_length_filter,
      filter_mem_of_sublist h (List.nodup_range' 1)]
  omega

/-- LREM as a whole -/
theorem lrem_count_semantics (l : List Bytes) (count : Int) (v : Bytes) :
    let rm := lremRm l count v
    let l' := lremKeep l rm
    rm.length = (if count = 0 then l.count v else min count.natAbs (l.count v)) ∧
    l'.length = l.length - rm.length ∧
    (∀ i ∈ rm, l[i]? = some v) ∧
    l'.filter (· != v) = l.filter (· != v) ∧
    l'.count v = l.count v - rm.length := by
  intro rm l'
  have hsub : rm.Sublist (List.range' 0 l.length) :=
    (lremRm_sublist l count v).trans (occurrences_sublist l v)
  have hlen : l'.length + rm.length = l.length := lremKeep_length l rm hsub
  have hv : ∀ i ∈ rm, l[i]? = some v := fun i hi =>
    (mem_occurrences l v i).mp ((lremRm_sublist l count v).subset hi)
  have hpres : l'.filter (· != v) = l.filter (· != v) := by
    show (lremKeep l rm).filter _ = _
    unfold lremKeep
    conv => rhs; rw [← List.zipIdx_map_fst 0 l]
    rw [List.filter_map, List.filter_map, List.filter_filter]
    congr 1
    apply List.filter_congr
    rintro ⟨x, i⟩ hx
    have hx := List.mem_zipIdx_iff_getElem?.mp hx
    simp only at hx
    simp only [Function.comp]
    by_cases hxv : x = v
    · simp [hxv]
    · have : i ∉ rm := fun hi => by
        have := hv i hi
        rw [hx] at this
        exact hxv (Option.some.inj this)
      simp [this]
  refine ⟨lremRm_length l count v, by omega, hv, hpres, ?_⟩
  -- count of `v` drops by exactly the number removed
  have c1 : ∀ m : List Bytes, m.length = m.count v + (m.filter (· != v)).length := by
    intro m
    have := List.length_eq_countP_add_countP (fun x => x == v) (l := m)
    rw [List.count_eq_countP, List.countP_eq_length_filter (p := fun x => decide ¬(x == v) = true)] at *
    have e : (fun x : Bytes => decide ¬(x == v) = true) = (fun x => x != v) := by
      funext x; by_cases h : x = v <;> simp [h]
    rw [e] at this
    exact this
  have a := c1 l
  have b := c1 l'
  rw [hpres] at b
  omega

/-! ## structural (index-free) specification of LREM -/

/-- delete the first `n` elements equal to `v` -/
def eraseFirstN (v : Bytes) : Nat → List Bytes → List Bytes
  | 0, l => l
  | _ + 1, [] => []
  | n + 1, x :: xs => if x == v then eraseFirstN v n xs else x :: eraseFirstN v (n + 1) xs

/-- keep the first `k` elements equal to `v`, delete every later one -/
def eraseAfterK (v : Bytes) : Nat → List Bytes → List Bytes
  | _, [] => []
  | 0, x :: xs => if x == v then eraseAfterK v 0 xs else x :: eraseAfterK v 0 xs
  | k + 1, x :: xs => if x == v then x :: eraseAfterK v k xs else x :: eraseAfterK v (k + 1) xs

/-- Redis LREM, declaratively: `count > 0` deletes the first `count` occurrences, `count < 0` the last
`-count` (i.e. all but the first `occurrences - |count|`), `count = 0` all of them -/
def lremSpec (l : List Bytes) (count : Int) (v : Bytes) : List Bytes :=
  if count > 0 then eraseFirstN v count.toNat l
  else if count < 0 then eraseAfterK v (l.count v - (-count).toNat) l
  else l.filter (· != v)

def occK (v : Bytes) (l : List Bytes) (k : Nat) : List Nat :=
  ((l.zipIdx k).filter (fun p => p.1 == v)).map Prod.snd
def keepK (l : List Bytes) (k : Nat) (rm : List Nat) : List Bytes :=
  ((l.zipIdx k).filter (fun p => !rm.contains p.2)).map Prod.fst

theorem occK_ge (v : Bytes) (l : List Bytes) (k i : Nat) (h : i ∈ occK v l k) : k ≤ i := by
  simp only [occK, List.mem_map, List.mem_filter] at h
  obtain ⟨p, ⟨hp, _⟩, rfl⟩ := h
  exact List.le_snd_of_mem_zipIdx hp

theorem occK_cons (v x : Bytes) (xs : List Bytes) (k : Nat) :
    occK v (x :: xs) k = if x == v then k :: occK v xs (k + 1) else occK v xs (k + 1) := by
  simp only [occK, List.zipIdx_cons, List.filter_cons]
  split <;> simp

theorem keepK_nil_rm (l : List Bytes) (k : Nat) : keepK l k [] = l := by
  simp only [keepK, List.contains_nil, Bool.not_false]
  rw [List.filter_eq_self.mpr (fun _ _ => rfl), List.zipIdx_map_fst]

/-- one step of `keepK` when the head index is not in `rm` -/
theorem keepK_cons_keep (x : Bytes) (xs : List Bytes) (k : Nat) (rm : List Nat) (h : k ∉ rm) :
    keepK (x :: xs) k rm = x :: keepK xs (k + 1) rm := by
  simp [keepK, List.zipIdx_cons, h]

/-- one step of `keepK` when the head index is the head of `rm` -/
theorem keepK_cons_drop (x : Bytes) (xs : List Bytes) (k : Nat) (rm : List Nat) :
    keepK (x :: xs) k (k :: rm) = keepK xs (k + 1) rm := by
  simp only [keepK, List.zipIdx_cons, List.filter_cons, List.contains_cons, beq_self_eq_true,
    Bool.true_or, Bool.not_true, Bool.false_eq_true, if_false]
  congr 1
  apply List.filter_congr
  intro p hp
  have := List.le_snd_of_mem_zipIdx hp
  have : (p.2 == k) = false := by simp; omega
  simp [this]

theorem sublist_ge {r L : List Nat} {k : Nat} (h : r.Sublist L) (hL : ∀ i ∈ L, k + 1 ≤ i) : k ∉ r :=
  fun hk => by have := hL k (h.subset hk); omega

theorem keepK_take (v : Bytes) (l : List Bytes) : ∀ (k n : Nat),
    keepK l k ((occK v l k).take n) = eraseFirstN v n l := by
  induction l with
  | nil => intro k n; cases n <;> simp [keepK, eraseFirstN]
  | cons x xs ih =>
    intro k n
    cases n with
    | zero => simp [keepK_nil_rm, eraseFirstN]
    | succ n =>
      rw [occK_cons, eraseFirstN]
      split
      · rw [List.take_succ_cons, keepK_cons_drop, ih]
      · rw [keepK_cons_keep _ _ _ _ (sublist_ge (List.take_sublist _ _) (occK_ge v xs (k + 1))), ih]

theorem keepK_drop (v : Bytes) (l : List Bytes) : ∀ (k j : Nat),
    keepK l k ((occK v l k).drop j) = eraseAfterK v j l := by
  induction l with
  | nil => intro k j; simp [keepK, eraseAfterK]
  | cons x xs ih =>
    intro k j
    rw [occK_cons]
    cases j with
    | zero =>
      rw [eraseAfterK]
      split
      · rw [List.drop_zero, keepK_cons_drop]
        have := ih (k + 1) 0
        rwa [List.drop_zero] at this
      · rw [keepK_cons_keep _ _ _ _ (sublist_ge (List.drop_sublist _ _) (occK_ge v xs (k + 1))), ih]
    | succ j =>
      rw [eraseAfterK]
      split
      · rw [List.drop_succ_cons,
          keepK_cons_keep _ _ _ _ (sublist_ge (List.drop_sublist _ _) (occK_ge v xs (k + 1))), ih]
      · rw [keepK_cons_keep _ _ _ _ (sublist_ge (List.drop_sublist _ _) (occK_ge v xs (k + 1))), ih]

theorem eraseAfterK_zero (v : Bytes) (l : List Bytes) : eraseAfterK v 0 l = l.filter (· != v) := by
  induction l with
  | nil => rfl
  | cons x xs ih =>
    rw [eraseAfterK, ih, List.filter_cons]
    by_cases h : x = v <;> simp [h]

/-- the list LREM leaves is the declarative one -/
theorem lrem_eq_spec (l : List Bytes) (count : Int) (v : Bytes) :
    lremKeep l (lremRm l count v) = lremSpec l count v := by
  have hocc : Cmd.occurrences l v = occK v l 0 := rfl
  have hkeep : ∀ rm, lremKeep l rm = keepK l 0 rm := fun _ => rfl
  unfold lremRm lremSpec
  simp only
  rw [hkeep, occurrences_length, hocc]
  split
  · exact keepK_take v l 0 _
  · split
    · exact keepK_drop v l 0 _
    · have := keepK_drop v l 0 0
      rw [List.drop_zero] at this
      rw [this, eraseAfterK_zero]

theorem eraseFirstN_nil (v : Bytes) (n : Nat) : eraseFirstN v n [] = [] := by
  cases n <;> rfl

theorem eraseFirstN_append (v : Bytes) (a b : List Bytes) : ∀ m,
    eraseFirstN v m (a ++ b) = eraseFirstN v m a ++ eraseFirstN v (m - a.count v) b := by
  induction a with
  | nil => intro m; simp [eraseFirstN_nil]
  | cons x a' ih =>
    intro m
    cases m with
    | zero => simp [eraseFirstN]
    | succ m =>
      rw [List.cons_append, eraseFirstN, eraseFirstN, List.count_cons]
      by_cases h : (x == v) = true
      · rw [if_pos h, if_pos h, if_pos h, ih]
        congr 2
        omega
      · rw [if_neg h, if_neg h, if_neg h, ih]
        rfl

theorem eraseAfterK_cons_ne (v x : Bytes) (xs : List Bytes) (k : Nat) (h : ¬ (x == v) = true) :
    eraseAfterK v k (x :: xs) = x :: eraseAfterK v k xs := by
  cases k <;> rw [eraseAfterK, if_neg h]

/-- "keep only the first `occ - m` occurrences" is "delete the last `m` occurrences" -/
theorem eraseAfterK_eq_reverse (v : Bytes) (l : List Bytes) (m : Nat) :
    eraseAfterK v (l.count v - m) l = (eraseFirstN v m l.reverse).reverse := by
  induction l with
  | nil => simp [eraseAfterK, eraseFirstN_nil]
  | cons x xs ih =>
    rw [List.reverse_cons, eraseFirstN_append, List.reverse_append, ← ih, List.count_reverse,
      List.count_cons]
    by_cases h : (x == v) = true
    · rw [if_pos h]
      by_cases hm : xs.count v < m
      · have e1 : xs.count v + 1 - m = 0 := by omega
        have e2 : xs.count v - m = 0 := by omega
        obtain ⟨j, hj⟩ : ∃ j, m - xs.count v = j + 1 := ⟨m - xs.count v - 1, by omega⟩
        rw [e1, e2, hj, eraseAfterK, if_pos h, eraseFirstN, if_pos h, eraseFirstN_nil]
        rfl
      · have e1 : xs.count v + 1 - m = (xs.count v - m) + 1 := by omega
        have e2 : m - xs.count v = 0 := by omega
        rw [e1, e2, eraseAfterK, if_pos h]
        rfl
    · rw [if_neg h, Nat.add_zero, eraseAfterK_cons_ne _ _ _ _ h]
      cases hm : m - xs.count v with
      | zero => rfl
      | succ j => rw [eraseFirstN, if_neg h]; rfl

/-- `lremSpec` in its most familiar form -/
theorem lremSpec_neg (l : List Bytes) (count : Int) (v : Bytes) (h : count < 0) :
    lremSpec l count v = (eraseFirstN v count.natAbs l.reverse).reverse := by
  unfold lremSpec
  rw [if_neg (by omega), if_pos h, eraseAfterK_eq_reverse]
  congr 3
  omega

end FR.Proofs
