import FR.Proofs.C18fParse
/-!
# C18f helper — `Conv.floatGen` (Python `Float.decode`) in terms of the grammar

* the over/underflow detector `re.match(b'^[^a-zA-Z]*[1-9]', value)` on strings of the grammar;
* the alphabet of the grammar (no whitespace, no `_`);
* `floatGen_ok_iff`: the complete characterisation of `Float.decode` for the four flags.
-/
namespace FR.C18f
open FR

/-! ## the crude over/underflow detector `re.match(b'^[^a-zA-Z]*[1-9]', value)` -/

def IsLetter (c : UInt8) : Prop := (65 ≤ c ∧ c ≤ 90) ∨ (97 ≤ c ∧ c ≤ 122)
def IsNz (c : UInt8) : Prop := 49 ≤ c ∧ c ≤ 57
instance (c : UInt8) : Decidable (IsLetter c) := by unfold IsLetter; infer_instance
instance (c : UInt8) : Decidable (IsNz c) := by unfold IsNz; infer_instance

theorem nz_cons_nz {c : UInt8} (t : Bytes) (h : IsNz c) : Conv.nonzeroDigitBeforeLetter (c :: t) = true := by
  unfold IsNz at h
  simp [Conv.nonzeroDigitBeforeLetter, h.1, h.2]

theorem nz_cons_letter {c : UInt8} (t : Bytes) (h : IsLetter c) : Conv.nonzeroDigitBeforeLetter (c :: t) = false := by
  have h1 : ¬ (49 ≤ c ∧ c ≤ 57) := by
    rintro ⟨_, h2⟩
    have h2' : c.toNat ≤ 57 := h2
    rcases h with ⟨h3, _⟩ | ⟨h3, _⟩
    · have : 65 ≤ c.toNat := h3
      omega
    · have : 97 ≤ c.toNat := h3
      omega
  unfold Conv.nonzeroDigitBeforeLetter
  have h1' : (49 ≤ c && c ≤ 57) = false := by simpa using h1
  have h2' : ((65 ≤ c && c ≤ 90) || (97 ≤ c && c ≤ 122)) = true := by
    unfold IsLetter at h; simpa using h
  rw [h1', h2']; rfl

theorem nz_cons_skip {c : UInt8} (t : Bytes) (h1 : ¬ IsNz c) (h2 : ¬ IsLetter c) :
    Conv.nonzeroDigitBeforeLetter (c :: t) = Conv.nonzeroDigitBeforeLetter t := by
  conv => lhs; unfold Conv.nonzeroDigitBeforeLetter
  have h1' : (49 ≤ c && c ≤ 57) = false := by unfold IsNz at h1; simpa using h1
  have h2' : ((65 ≤ c && c ≤ 90) || (97 ≤ c && c ≤ 122)) = false := by
    unfold IsLetter at h2; simpa using h2
  rw [h1', h2']; rfl

theorem nz_nil : Conv.nonzeroDigitBeforeLetter [] = false := rfl

theorem nz_digits (l rest : Bytes) (h : Digits l) :
    Conv.nonzeroDigitBeforeLetter (l ++ rest) =
      if decNat l ≠ 0 then true else Conv.nonzeroDigitBeforeLetter rest := by
  induction l with
  | nil => simp [decNat]
  | cons c t ih =>
    have hc := h.head
    by_cases h48 : c = 48
    · subst h48
      rw [List.cons_append, nz_cons_skip _ (by decide) (by decide), ih h.tail, decNat]
      simp
    · have hge := decNat_ge (rest := t) hc h48
      have hp : 0 < 10 ^ t.length := Nat.pow_pos (by decide)
      rw [if_pos (by omega), List.cons_append]
      apply nz_cons_nz
      unfold IsDig at hc
      refine ⟨?_, hc.2⟩
      have h1 : 48 ≤ c.toNat := hc.1
      have h2 : c.toNat ≠ 48 := fun e => h48 (UInt8.toNat_inj.mp e)
      show (49 : UInt8).toNat ≤ c.toNat
      have : (49 : UInt8).toNat = 49 := rfl
      omega

theorem nz_sign (sg : Sgn) (rest : Bytes) :
    Conv.nonzeroDigitBeforeLetter (sg.bytes ++ rest) = Conv.nonzeroDigitBeforeLetter rest := by
  cases sg with
  | none => rfl
  | plus => exact nz_cons_skip _ (by decide) (by decide)
  | minus => exact nz_cons_skip _ (by decide) (by decide)

theorem nz_expBytes (L : DecLit) (hv : L.Valid) : Conv.nonzeroDigitBeforeLetter L.expBytes = false := by
  unfold DecLit.expBytes
  cases he : L.exp with
  | none => rfl
  | some x =>
    obtain ⟨hl, _, _⟩ := hv.2.2.2 x he
    apply nz_cons_letter
    rcases hl with h | h <;> rw [h]
    · exact Or.inr (by decide)
    · exact Or.inl (by decide)

/-- on a literal of the grammar the detector fires iff some mantissa digit is not `0` -/
theorem nz_render (L : DecLit) (hv : L.Valid) :
    Conv.nonzeroDigitBeforeLetter L.render = decide (L.mant ≠ 0) := by
  have hE := nz_expBytes L hv
  obtain ⟨hip, hfp, _, _⟩ := hv
  unfold DecLit.render DecLit.mant
  rw [nz_sign, nz_digits _ _ hip, decNat_append]
  unfold DecLit.fracBytes
  unfold DecLit.fp at hfp ⊢
  have hp : 0 < 10 ^ (L.frac.getD []).length := Nat.pow_pos (by decide)
  cases hf : L.frac with
  | none =>
    simp only [Option.getD_none, List.nil_append, hE, decNat, List.length_nil, Nat.pow_zero, Nat.mul_one,
      Nat.add_zero]
    by_cases h0 : decNat L.ip = 0 <;> simp [h0]
  | some f =>
    rw [hf] at hfp hp
    simp only [Option.getD_some] at hfp hp ⊢
    rw [List.cons_append, nz_cons_skip _ (by decide) (by decide), nz_digits _ _ hfp, hE]
    by_cases h0 : decNat L.ip = 0
    · by_cases h1 : decNat f = 0 <;> simp [h0, h1]
    · have : decNat L.ip * 10 ^ f.length ≠ 0 := Nat.mul_ne_zero h0 (by omega)
      simp [h0]
      exact Or.inl this

theorem nz_word (sg : Sgn) (w : Bytes) (h : InfWord w ∨ NanWord w) :
    Conv.nonzeroDigitBeforeLetter (sg.bytes ++ w) = false := by
  rw [nz_sign]
  cases w with
  | nil => rfl
  | cons c t =>
    apply nz_cons_letter
    have : ∃ l : UInt8, (97 ≤ l ∧ l ≤ 122) ∧ (c = l ∨ c + 32 = l ∧ 65 ≤ c ∧ c ≤ 90) := by
      rcases h with (h | h) | h
      · exact ⟨_, by decide, h.1⟩
      · exact ⟨_, by decide, h.1⟩
      · exact ⟨_, by decide, h.1⟩
    obtain ⟨l, hl, h1⟩ := this
    rcases h1 with e | ⟨_, h65⟩
    · rw [e]; exact Or.inr hl
    · exact Or.inl h65

theorem isSpace_skip {c : UInt8} (h : PyFloat.isSpace c = true) : ¬ IsNz c ∧ ¬ IsLetter c := by
  unfold PyFloat.isSpace at h
  have h' : c = 32 ∨ (9 ≤ c ∧ c ≤ 13) := by simpa using h
  have hc : c.toNat ≤ 32 := by
    rcases h' with e | ⟨_, h2⟩
    · rw [e]; decide
    · have : c.toNat ≤ 13 := h2
      omega
  refine ⟨?_, ?_⟩
  · rintro ⟨h1, _⟩
    have : 49 ≤ c.toNat := h1
    omega
  · rintro (⟨h1, _⟩ | ⟨h1, _⟩)
    · have : 65 ≤ c.toNat := h1
      omega
    · have : 97 ≤ c.toNat := h1
      omega

theorem nz_dropSpaces (v : Bytes) :
    Conv.nonzeroDigitBeforeLetter (v.dropWhile PyFloat.isSpace) = Conv.nonzeroDigitBeforeLetter v := by
  induction v with
  | nil => rfl
  | cons c t ih =>
    rw [List.dropWhile_cons]
    split
    · rename_i h
      obtain ⟨h1, h2⟩ := isSpace_skip h
      rw [ih, nz_cons_skip _ h1 h2]
    · rfl


/-! ## the alphabet of the grammar -/

/-- the bytes that can occur in a string the parser accepts -/
def Alpha (c : UInt8) : Prop := IsDig c ∨ c = 43 ∨ c = 45 ∨ c = 46 ∨ IsLetter c

theorem Alpha.not_space {c : UInt8} (h : Alpha c) : PyFloat.isSpace c = false := by
  cases hs : PyFloat.isSpace c with
  | false => rfl
  | true =>
    exfalso
    obtain ⟨h1, h2⟩ := isSpace_skip hs
    unfold PyFloat.isSpace at hs
    have h' : c = 32 ∨ (9 ≤ c ∧ c ≤ 13) := by simpa using hs
    have hc : c.toNat ≤ 32 := by
      rcases h' with e | ⟨_, h2⟩
      · rw [e]; decide
      · have : c.toNat ≤ 13 := h2
        omega
    rcases h with h | h | h | h | h
    · have : 48 ≤ c.toNat := h.1
      omega
    · rw [h] at hc; exact absurd hc (by decide)
    · rw [h] at hc; exact absurd hc (by decide)
    · rw [h] at hc; exact absurd hc (by decide)
    · exact h2 h

theorem Alpha.ne_95 {c : UInt8} (h : Alpha c) : c ≠ 95 := by
  rintro rfl
  rcases h with h | h | h | h | h
  all_goals exact absurd h (by decide)

theorem alpha_sign (sg : Sgn) : ∀ c ∈ sg.bytes, Alpha c := by
  intro c hc
  cases sg with
  | none => cases hc
  | plus =>
    have : c = 43 := by simpa [Sgn.bytes] using hc
    exact Or.inr (Or.inl this)
  | minus =>
    have : c = 45 := by simpa [Sgn.bytes] using hc
    exact Or.inr (Or.inr (Or.inl this))

theorem alpha_digits {l : Bytes} (h : Digits l) : ∀ c ∈ l, Alpha c := fun c hc => Or.inl (h c hc)

theorem alpha_render (L : DecLit) (hv : L.Valid) : ∀ c ∈ L.render, Alpha c := by
  obtain ⟨hip, hfp, _, hexp⟩ := hv
  intro c hc
  unfold DecLit.render at hc
  rcases List.mem_append.mp hc with h | h
  · exact alpha_sign _ c h
  rcases List.mem_append.mp h with h | h
  · exact alpha_digits hip c h
  rcases List.mem_append.mp h with h | h
  · unfold DecLit.fracBytes at h
    unfold DecLit.fp at hfp
    cases hf : L.frac with
    | none => rw [hf] at h; cases h
    | some f =>
      rw [hf] at h hfp
      rcases List.mem_cons.mp h with e | h
      · exact Or.inr (Or.inr (Or.inr (Or.inl e)))
      · exact alpha_digits hfp c h
  · unfold DecLit.expBytes at h
    cases he : L.exp with
    | none => rw [he] at h; cases h
    | some x =>
      rw [he] at h
      obtain ⟨hl, hd, _⟩ := hexp x he
      rcases List.mem_cons.mp h with e | h
      · right; right; right; right
        rcases hl with h1 | h1 <;> rw [e, h1]
        · exact Or.inr (by decide)
        · exact Or.inl (by decide)
      · rcases List.mem_append.mp h with h | h
        · exact alpha_sign _ c h
        · exact alpha_digits hd c h

theorem alpha_ciEq : ∀ (w lit : Bytes), (∀ l ∈ lit, 97 ≤ l ∧ l ≤ 122) → CIEq w lit → ∀ c ∈ w, Alpha c
  | [], _, _, _ => fun _ h => by cases h
  | _ :: _, [], _, h => h.elim
  | c :: w, l :: lit, hl, h => by
    intro x hx
    rcases List.mem_cons.mp hx with e | hx
    · right; right; right; right
      rw [e]
      rcases h.1 with e' | ⟨_, h2⟩
      · rw [e']; exact Or.inr (hl l (List.mem_cons_self ..))
      · exact Or.inl h2
    · exact alpha_ciEq w lit (fun y hy => hl y (List.mem_cons_of_mem _ hy)) h.2 x hx

theorem alpha_word {w : Bytes} (h : InfWord w ∨ NanWord w) : ∀ c ∈ w, Alpha c := by
  rcases h with (h | h) | h
  · exact alpha_ciEq _ _ (by decide) h
  · exact alpha_ciEq _ _ (by decide) h
  · exact alpha_ciEq _ _ (by decide) h

theorem core_alpha {s : Bytes} {d : Dbl} (h : Core s d) : s ≠ [] ∧ ∀ c ∈ s, Alpha c := by
  rcases h with ⟨L, hv, hs, _⟩ | ⟨sg, w, hw, hs, _⟩ | ⟨sg, w, hw, hs, _⟩
  · obtain ⟨c, t, hb, _⟩ := body_head L hv
    rw [hs]
    refine ⟨?_, alpha_render L hv⟩
    rw [render_eq, hb]; simp
  · obtain ⟨c, t, hb, _⟩ := word_head (Or.inl hw)
    rw [hs]
    refine ⟨by rw [hb]; simp, ?_⟩
    intro x hx
    rcases List.mem_append.mp hx with h | h
    · exact alpha_sign _ x h
    · exact alpha_word (Or.inl hw) x h
  · obtain ⟨c, t, hb, _⟩ := word_head (Or.inr hw)
    rw [hs]
    refine ⟨by rw [hb]; simp, ?_⟩
    intro x hx
    rcases List.mem_append.mp hx with h | h
    · exact alpha_sign _ x h
    · exact alpha_word (Or.inr hw) x h

/-! ## `Conv.floatGen` -/

/-- the string `Float.decode` hands to Python's `float`: cut at the first NUL (`crop_null`), `b''` replaced by
`b'0.0'` (`allow_empty`) -/
def prep (allowEmpty cropNull : Bool) (b : Bytes) : Bytes :=
  let v := if cropNull then nullTerminate b else b
  if allowEmpty && v.isEmpty then strBytes "0.0" else v

theorem floatGen_gate (msg : String) (w e m c : Bool) (b : Bytes) (d : Dbl) :
    Conv.floatGen msg w e m c b = .ok d ↔
      ((w = true ∨ ((prep m c b).head?.map PyFloat.isSpace).getD false = false) ∧
       ((prep m c b).getLast?.map PyFloat.isSpace).getD false = false ∧
       (prep m c b).contains 95 = false ∧
       PyFloat.parse (prep m c b) = some d ∧ d.isNaN = false ∧
       (e = true ∨ ((d.isInf || d.isZero) && Conv.nonzeroDigitBeforeLetter (prep m c b)) = false)) := by
  have hdef : Conv.floatGen msg w e m c b =
      (if !w && ((prep m c b).head?.map PyFloat.isSpace).getD false then .error msg
       else if ((prep m c b).getLast?.map PyFloat.isSpace).getD false then .error msg
       else if (prep m c b).contains 95 then .error msg
       else match PyFloat.parse (prep m c b) with
        | none => .error msg
        | some d =>
          if d.isNaN then .error msg
          else if !e && (d.isInf || d.isZero) && Conv.nonzeroDigitBeforeLetter (prep m c b) then .error msg
          else .ok d) := rfl
  rw [hdef]
  generalize prep m c b = v
  cases w <;> cases e <;>
  cases h1 : (v.head?.map PyFloat.isSpace).getD false <;>
  cases h2 : (v.getLast?.map PyFloat.isSpace).getD false <;>
  cases h3 : v.contains 95 <;>
  cases h4 : PyFloat.parse v with
  | none => simp
  | some d' =>
    cases h5 : d'.isNaN <;>
    cases h6 : ((d'.isInf || d'.isZero) && Conv.nonzeroDigitBeforeLetter v) <;>
    simp [h5, h6] <;> (try (intro e; subst e; simp_all))

/-- the string the grammar is applied to: with `allow_leading_whitespace` the leading ASCII whitespace
(bytes 9–13 and 32) is dropped first -/
def strip (allowLeadWs : Bool) (v : Bytes) : Bytes := if allowLeadWs then v.dropWhile PyFloat.isSpace else v

/-- the range rule of `allow_erange = False`, on the value `d` of a literal with mantissa digits `mant` -/
def RangeOK (allowErange : Bool) (mant : Nat) (d : Dbl) : Prop :=
  allowErange = true ∨ mant = 0 ∨ (d.isInf = false ∧ d.isZero = false)

theorem head_dropWhile_eq {v : Bytes} (h : (v.head?.map PyFloat.isSpace).getD false = false) :
    v.dropWhile PyFloat.isSpace = v := by
  cases v with
  | nil => rfl
  | cons a t =>
    simp only [List.head?_cons, Option.map_some, Option.getD_some] at h
    exact List.dropWhile_cons_of_neg (by simp [h])

theorem roundPos_aux (neg : Bool) (p : Nat × Int) :
    (match p with | (m, e) => if e > 971 then Dbl.inf neg else Dbl.fin neg m e).isNaN = false := by
  obtain ⟨m, e⟩ := p
  simp only []
  split <;> rfl

theorem roundPos_not_nan (neg : Bool) (num den : Nat) : (Dbl.roundPos neg num den).isNaN = false := by
  unfold Dbl.roundPos
  split
  · rfl
  · exact roundPos_aux neg _

theorem ofDecimal_not_nan (neg : Bool) (digits : Nat) (exp10 : Int) :
    (Dbl.ofDecimal neg digits exp10).isNaN = false := by
  unfold Dbl.ofDecimal
  split
  · rfl
  · simp only []
    split
    · rfl
    · split
      · rfl
      · split <;> exact roundPos_not_nan _ _ _

theorem mem_of_getLast? {α} {l : List α} {a : α} (h : l.getLast? = some a) : a ∈ l := by
  rw [← List.head?_reverse] at h
  have := List.mem_of_head? h
  exact List.mem_reverse.mp this

/-- `Float.decode` for arbitrary flags: the prepared, stripped string is a decimal literal of the grammar whose
model value passes the range rule, or a signed `inf`/`infinity` -/
theorem floatGen_ok_iff (msg : String) (w e m c : Bool) (b : Bytes) (d : Dbl) :
    Conv.floatGen msg w e m c b = .ok d ↔
      ((∃ L : DecLit, L.Valid ∧ strip w (prep m c b) = L.render ∧ d = modelVal L ∧ RangeOK e L.mant d) ∨
       (∃ (sg : Sgn) (wd : Bytes), InfWord wd ∧ strip w (prep m c b) = sg.bytes ++ wd ∧ d = .inf sg.neg)) := by
  rw [floatGen_gate]
  generalize prep m c b = v
  constructor
  · rintro ⟨h1, h2, h3, h4, h5, h6⟩
    rw [parse_eq, stripSpaces_of_last v h2] at h4
    have hs : strip w v = v.dropWhile PyFloat.isSpace := by
      unfold strip
      cases w with
      | true => rfl
      | false =>
        rcases h1 with h1 | h1
        · cases h1
        · exact (head_dropWhile_eq h1).symm
    rw [hs]
    rw [← nz_dropSpaces] at h6
    generalize v.dropWhile PyFloat.isSpace = s at *
    rcases (parseCore_iff s d).mp h4 with ⟨L, hv, hs', hd⟩ | ⟨sg, wd, hw, hs', hd⟩ | ⟨sg, wd, hw, hs', hd⟩
    · refine Or.inl ⟨L, hv, hs', hd, ?_⟩
      rcases h6 with h6 | h6
      · exact Or.inl h6
      · rw [hs', nz_render L hv] at h6
        by_cases h0 : L.mant = 0
        · exact Or.inr (Or.inl h0)
        · right; right
          have : decide (L.mant ≠ 0) = true := by simpa using h0
          rw [this, Bool.and_true] at h6
          simpa using h6
    · exact Or.inr ⟨sg, wd, hw, hs', hd⟩
    · rw [hd] at h5; cases h5
  · intro h
    have hcore : Core (strip w v) d ∧ d.isNaN = false ∧
        (e = true ∨ ((d.isInf || d.isZero) && Conv.nonzeroDigitBeforeLetter (strip w v)) = false) := by
      rcases h with ⟨L, hv, hs, hd, hr⟩ | ⟨sg, wd, hw, hs, hd⟩
      · refine ⟨Or.inl ⟨L, hv, hs, hd⟩, ?_, ?_⟩
        · rw [hd]; exact ofDecimal_not_nan _ _ _
        · rcases hr with hr | hr | ⟨hr1, hr2⟩
          · exact Or.inl hr
          · right; rw [hs, nz_render L hv]; simp [hr]
          · right; rw [hr1, hr2]; rfl
      · refine ⟨Or.inr (Or.inl ⟨sg, wd, hw, hs, hd⟩), by rw [hd]; rfl, ?_⟩
        right; rw [hs, nz_word sg wd (Or.inl hw)]; simp
    obtain ⟨hc, hnan, hrange⟩ := hcore
    obtain ⟨hne, ha⟩ := core_alpha hc
    have hhead : ∀ {s : Bytes}, s ≠ [] → (∀ c ∈ s, Alpha c) → (s.head?.map PyFloat.isSpace).getD false = false := by
      intro s hne ha
      cases s with
      | nil => exact absurd rfl hne
      | cons a t =>
        have := (ha a (List.mem_cons_self ..)).not_space
        simp [this]
    have hs : v.dropWhile PyFloat.isSpace = strip w v := by
      unfold strip
      cases w with
      | true => rfl
      | false => exact head_dropWhile_eq (hhead (by simpa [strip] using hne) (by simpa [strip] using ha))
    have hv : v = v.takeWhile PyFloat.isSpace ++ strip w v := by
      rw [← hs]; exact List.takeWhile_append_dropWhile.symm
    have hlast : (v.getLast?.map PyFloat.isSpace).getD false = false := by
      have : v.getLast? = (strip w v).getLast? := by
        conv => lhs; rw [hv, List.getLast?_append]
        cases hl : (strip w v).getLast? with
        | none => exact absurd (List.getLast?_eq_none_iff.mp hl) hne
        | some x => rfl
      rw [this]
      cases hl : (strip w v).getLast? with
      | none => rfl
      | some a =>
        have := (ha a (mem_of_getLast? hl)).not_space
        simp [this]
    refine ⟨?_, hlast, ?_, ?_, hnan, ?_⟩
    · cases w with
      | true => exact Or.inl rfl
      | false => exact Or.inr (hhead (by simpa [strip] using hne) (by simpa [strip] using ha))
    · cases h95 : v.contains 95 with
      | false => rfl
      | true =>
        exfalso
        have hm : (95 : UInt8) ∈ v := by simpa using h95
        rw [hv] at hm
        rcases List.mem_append.mp hm with h | h
        · have := of_mem_takeWhile _ _ h
          exact absurd this (by decide)
        · exact (ha 95 h).ne_95 rfl
    · rw [parse_eq, stripSpaces_of_last v hlast, hs]
      exact (parseCore_iff _ _).mpr hc
    · rw [← nz_dropSpaces, hs]; exact hrange

end FR.C18f
