import FR.Proofs.C04k
/-!
# After the fix of KF-1: EXEC, `processCommand`, the events

Built on the traversal of `FR/Proofs/C04k.lean`.
-/
namespace FR.C04k
open FR FR.M FR.ErrSys

/-! ## 1. when does a special body return `NoResponse`? -/

/-- a special body returned normally without a reply (`NoResponse`) -/
def noneS : SpecialOut → Prop
  | .ok (none, _) => True
  | _ => False

/-- apart from EXEC, (P)SUBSCRIBE / (P)UNSUBSCRIBE, the script commands (not modelled below `special`) and the blocking
pops, no special body ever returns `NoResponse` -/
theorem special_never_none (inner : Inner) (mode : Mode) (c : Nat) (name : String) (args : List Arg) (cis : List CI)
    (h : name ∉ gated) (hs : name ∉ scriptNames) (hb : name ∉ blockingNames) :
    Never noneS (special inner mode c name args cis) := by
  unfold special selectCmd swapdbCmd moveCmd randomkeyCmd scanCmd multiCmd discardCmd watchCmd okR
  simp only []
  refine Never.bind (fun conn => ?_)
  split
  all_goals first
    | exact absurd (by decide) h
    | exact absurd (by decide) hs
    | exact absurd (by decide) hb
    | (never; done)

/-- `_blocking` inside EXEC (`inTx`): never `NoResponse` -/
theorem blocking_inTx_ne (c : Nat) (park : Bool) (kind : String) (keys : List Bytes) (timeout : Int) (pass : Pass)
    (hpass : Framed (pass true)) (s : Sys) (hin : (s.conn c).inTx = true) :
    (blocking c park kind keys timeout pass s).1 ≠ .ok none := by
  have hfr := (hpass.frame s).inTx c
  revert hfr
  cases hp : pass true s with
  | mk r s1 =>
    intro hfr
    simp only at hfr
    cases r with
    | error e => rw [blocking_served_err c park kind keys timeout pass s s1 e hp]; exact fun h => by cases h
    | ok r =>
      cases r with
      | some r => rw [blocking_served_ok c park kind keys timeout pass s s1 r hp]; exact fun h => by cases h
      | none =>
        rw [blocking_inTx c park kind keys timeout pass s s1 hp (hfr.trans hin)]
        exact fun h => by cases h

theorem blockingAsync_inTx_ne (c : Nat) (kind : String) (keys : List Bytes) (pass : Pass)
    (hpass : Framed (pass true)) (s : Sys) (hin : (s.conn c).inTx = true) :
    (blockingAsync c kind keys pass s).1 ≠ .ok none := by
  have hfr := (hpass.frame s).inTx c
  revert hfr
  cases hp : pass true s with
  | mk r s1 =>
    intro hfr
    simp only at hfr
    cases r with
    | error e => rw [blockingAsync_served_err c kind keys pass s s1 e hp]; exact fun h => by cases h
    | ok r =>
      cases r with
      | some r => rw [blockingAsync_served_ok c kind keys pass s s1 r hp]; exact fun h => by cases h
      | none =>
        rw [blockingAsync_inTx c kind keys pass s s1 hp (hfr.trans hin)]
        exact fun h => by cases h

/-- the tail of the blocking branches of `special` -/
theorem blockTail_ne (X : M (Except Err (Option Reply))) (cis : List CI) (s : Sys) (h : (X s).1 ≠ .ok none) :
    ¬ noneS (StateT.bind X (fun r => match r with
      | .error e => (pure (.error e) : M SpecialOut)
      | .ok r => pure (.ok (r, cis))) s).1 := by
  simp only [StateT.bind]
  revert h
  generalize X s = r
  obtain ⟨r1, s1⟩ := r
  intro h
  cases r1 with
  | error e => exact fun h => h
  | ok r =>
    cases r with
    | none => exact absurd rfl h
    | some r => exact fun h => h

/-- a blocking pop run by EXEC never returns `NoResponse` (it answers nil at once instead of waiting) -/
theorem special_blocking_inTx (inner : Inner) (mode : Mode) (c : Nat) (name : String) (args : List Arg) (cis : List CI)
    (s : Sys) (hb : name ∈ blockingNames) (hin : (s.conn c).inTx = true) :
    ¬ noneS (special inner mode c name args cis s).1 := by
  unfold special
  simp only [bind, StateT.bind, getConn_run]
  split
  all_goals first
    | exact absurd hb (by decide)
    | skip
  · cases mode.async <;> simp only [Bool.false_eq_true, if_false, if_true] <;>
      (cases (Cmd.rawArgs args).getLast? with
       | none => exact fun h => h
       | some tb =>
         simp only []
         cases Conv.timeout tb with
         | error e => exact fun h => h
         | ok timeout =>
           simp only []
           refine blockTail_ne _ cis s ?_
           first
           | exact blocking_inTx_ne _ _ _ _ _ _ (framed_bpopPass _ _ _ _) s hin
           | exact blockingAsync_inTx_ne _ _ _ _ (framed_bpopPass _ _ _ _) s hin)
  · cases mode.async <;> simp only [Bool.false_eq_true, if_false, if_true] <;>
      (cases (Cmd.rawArgs args).getLast? with
       | none => exact fun h => h
       | some tb =>
         simp only []
         cases Conv.timeout tb with
         | error e => exact fun h => h
         | ok timeout =>
           simp only []
           refine blockTail_ne _ cis s ?_
           first
           | exact blocking_inTx_ne _ _ _ _ _ _ (framed_bpopPass _ _ _ _) s hin
           | exact blockingAsync_inTx_ne _ _ _ _ (framed_bpopPass _ _ _ _) s hin)
  · cases mode.async <;> simp only [Bool.false_eq_true, if_false, if_true] <;>
      (split
       · refine blockTail_ne _ cis s ?_
         first
         | exact blocking_inTx_ne _ _ _ _ _ _ (framed_brpoplpushPass _ _ _ _) s hin
         | exact blockingAsync_inTx_ne _ _ _ _ (framed_brpoplpushPass _ _ _ _) s hin
       · exact fun h => h)
  · exact fun h => h

theorem noneS_iff {v : SpecialOut} : noneS v ↔ ∃ cis, v = .ok (none, cis) := by
  constructor
  · intro h
    match v, h with
    | .ok (none, cis), _ => exact ⟨cis, rfl⟩
  · rintro ⟨cis, rfl⟩; trivial

/-- `runWith` returns `NoResponse` only when the special body did; the state is then the body's, written back -/
theorem afterSpecial_none (d : Nat) (cis : List CI) (X : M SpecialOut) (s : Sys)
    (h : (afterSpecial d cis X s).1 = none) :
    ∃ cis', (X s).1 = .ok (none, cis') ∧ (afterSpecial d cis X s).2 = (writebackAll d cis' (X s).2).2 := by
  unfold afterSpecial at h ⊢
  simp only [bind, StateT.bind] at h ⊢
  revert h
  generalize X s = r
  obtain ⟨r1, s1⟩ := r
  cases r1 with
  | error e =>
    intro h
    simp only at h
    split at h <;> cases h
  | ok p =>
    obtain ⟨r, cis'⟩ := p
    intro h
    have h' : r = none := h
    subst h'
    exact ⟨cis', rfl, rfl⟩

/-- a script command below `special` is not modelled: the model says so (`fault`) -/
theorem special_script_fault (inner : Inner) (mode : Mode) (c : Nat) (name : String) (args : List Arg) (cis : List CI)
    (s : Sys) (hs : name ∈ scriptNames) : (special inner mode c name args cis s).2.fault.isSome = true := by
  unfold special
  simp only [bind, StateT.bind, getConn_run]
  split
  all_goals first
    | exact absurd hs (by decide)
    | skip
  all_goals
    try unfold scriptCmd
    simp only [bind, StateT.bind]
    show (M.fault _ s).2.fault.isSome = true
    show (if s.fault.isNone then ({ s with fault := some _ } : Sys) else s).fault.isSome = true
    split
    · rfl
    · rename_i h; cases hf : s.fault <;> simp_all

theorem fault_mono_of_small {s s' : Sys} (h : Small s s') (hf : s.fault.isSome = true) : s'.fault.isSome = true :=
  h.fault hf

/-- `_run_command` returned `NoResponse` -/
def isNoneO : Option Reply → Prop
  | none => True
  | some _ => False

theorem isNoneO_iff {r : Option Reply} : isNoneO r ↔ r = none := by
  cases r <;> simp [isNoneO]

/-- a script command always has a reply, issued by the client or run by EXEC -/
theorem runScriptCmd_reply (mode : Mode) (c : Nat) (sig : Sig) (raw : List Bytes) (fs : Bool) :
    Never isNoneO (runScriptCmd mode c sig raw fs) := by
  unfold runScriptCmd; never

/-- **A queued command run by EXEC never returns `NoResponse`**: the queue holds no EXEC and no (P)SUBSCRIBE /
(P)UNSUBSCRIBE, a blocking pop answers at once inside EXEC, and a script command is run by the direct script runner,
which always answers. -/
theorem runInner_none (mode : Mode) (c : Nat) (sig : Sig) (raw : List Bytes) (s : Sys)
    (hin : (s.conn c).inTx = true) (hne : sig.name ∉ gated) :
    (runInner mode c sig raw s).1 ≠ none := by
  intro h
  cases hsn : scriptNames.contains sig.name with
  | true =>
    rw [runInner_script mode c sig raw hsn] at h
    exact runScriptCmd_reply mode c sig raw false s (isNoneO_iff.2 h)
  | false =>
  have hsc : sig.name ∉ scriptNames := scriptNames_contains_false_iff.1 hsn
  rw [runInner_not_script mode c sig raw hsn] at h
  cases hr : s.refuses c sig with
  | true => rw [runWith_refused _ mode c sig raw false hr] at h; cases h
  | false =>
  cases hreg : Cmd.regular sig.name with
  | some body => rw [runWith_regular_run _ mode c sig raw false hreg s hr] at h; cases h
  | none =>
    rw [runWith_special_run _ mode c sig raw false s hreg hr] at h
    dsimp only at h
    generalize sig.apply raw ⟨s.srv.dbs.getD (s.conn c).db [], s.srv.time⟩ = ap at h
    obtain ⟨db', res⟩ := ap
    cases res with
    | error e => cases h
    | ok a =>
      cases a with
      | short r => cases h
      | ok args cis =>
        dsimp only at h
        cases hg : runGate sig false (decide ((s.conn c).pubsub > 0)) with
        | some e => rw [hg] at h; cases h
        | none =>
          rw [hg] at h
          dsimp only at h
          obtain ⟨cis', hv, hst⟩ := afterSpecial_none _ _ _ _ h
          generalize hs1 : ({ s with srv := { s.srv with dbs := s.srv.dbs.set (s.conn c).db db'.dict } } : Sys) = s1
            at hv
          have hin1 : (s1.conn c).inTx = true := by rw [← hs1]; exact hin
          have hnone : noneS (special (fun _ _ => do fault "nested exec"; return none) mode c sig.name args cis s1).1 :=
            noneS_iff.2 ⟨cis', hv⟩
          by_cases hb : sig.name ∈ blockingNames
          · exact special_blocking_inTx _ mode c sig.name args cis s1 hb hin1 hnone
          · exact special_never_none _ mode c sig.name args cis hne hsc hb s1 hnone

/-! ## 2. EXEC -/

theorem fault_isSome_after (msg : String) (s : Sys) : (M.fault msg s).2.fault.isSome = true := by
  show (if s.fault.isNone then ({ s with fault := some msg } : Sys) else s).fault.isSome = true
  split
  · rfl
  · rename_i h; cases hf : s.fault <;> simp_all

/-- one queued command, run by EXEC on a registered connection -/
theorem queueStep_spec (mode : Mode) (c : Nat) (a : String × List Bytes) (s : Sys) (hc : s.HasConn c)
    (ha : a.1 ∉ gated) :
    Small s (queueStep (runInner mode c) c a s).2 ∧
    ((queueStep (runInner mode c) c a s).1 = none →
      SigTable.find a.1 = none ∧ (queueStep (runInner mode c) c a s).2.fault.isSome = true) := by
  unfold queueStep
  cases hf : SigTable.find a.1 with
  | none =>
    simp only [bind, StateT.bind, pure, StateT.pure]
    exact ⟨sm_fault _ s (Small.refl s), fun _ => ⟨(by first | exact hf | rfl | trivial), fault_isSome_after _ s⟩⟩
  | some sig =>
    have hn : sig.name = a.1 := SigTable.find_name hf
    simp only [bind, StateT.bind, pure, StateT.pure, modifyConn_run]
    have hin : ((s.updConn c fun x => { x with inTx := true }).conn c).inTx = true := by
      rw [Sys.conn_updConn_same (fun x => { x with inTx := true }) hc (fun _ => rfl)]
    have h1 : Small s (s.updConn c fun x => { x with inTx := true }) :=
      ⟨ConnsLe.updConn s c _ (fun _ => ⟨rfl, rfl, rfl, .inl rfl⟩), id, rfl, OutLe.refl _⟩
    have h2 := runInner_sm (s0 := s) mode c sig a.2 (by rw [hn]; exact ha) _ h1
    have hnone := runInner_none mode c sig a.2 _ hin (by rw [hn]; exact ha)
    revert h2 hnone
    generalize runInner mode c sig a.2 (s.updConn c fun x => { x with inTx := true }) = r
    obtain ⟨r1, s2⟩ := r
    intro h2 hnone
    refine ⟨h2.trans ⟨ConnsLe.updConn s2 c _ (fun _ => ⟨rfl, rfl, rfl, .inl rfl⟩), id, rfl, OutLe.refl _⟩, fun h => ?_⟩
    exact absurd h hnone

/-- **the queue, run by EXEC**: a small step; a `NoResponse` among the results comes from an unknown name in the queue
(no reachable queue holds one: `TxKnown`), and the model has then flagged the run -/
theorem runQueue_spec (mode : Mode) (c : Nat) (q : List (String × List Bytes)) (s : Sys) (hc : s.HasConn c)
    (hq : ∀ a ∈ q, a.1 ∉ gated) :
    Small s (runQueue (runInner mode c) c q s).2 ∧
    ((runQueue (runInner mode c) c q s).1.any Option.isNone = true →
      (∃ a ∈ q, SigTable.find a.1 = none) ∧
        (runQueue (runInner mode c) c q s).2.fault.isSome = true) := by
  induction q generalizing s with
  | nil => exact ⟨Small.refl s, fun h => by cases h⟩
  | cons a rest ih =>
    rw [runQueue_cons]
    simp only [bind, StateT.bind, pure, StateT.pure]
    obtain ⟨h1, h1n⟩ := queueStep_spec mode c a s hc (hq a (List.mem_cons_self ..))
    revert h1 h1n
    generalize queueStep (runInner mode c) c a s = r
    obtain ⟨r1, s1⟩ := r
    intro h1 h1n
    dsimp only at h1 h1n ⊢
    have hc1 : s1.HasConn c := (h1.conns.hasConn c).2 hc
    obtain ⟨h2, h2n⟩ := ih s1 hc1 (fun b hb => hq b (List.mem_cons_of_mem _ hb))
    revert h2 h2n
    generalize runQueue (runInner mode c) c rest s1 = r'
    obtain ⟨rs, s2⟩ := r'
    intro h2 h2n
    dsimp only at h2 h2n ⊢
    refine ⟨h1.trans h2, fun h => ?_⟩
    simp only [List.any_cons, Bool.or_eq_true] at h
    rcases h with h | h
    · have hr1 : r1 = none := by cases r1 <;> simp_all
      obtain ⟨hw, hfl⟩ := h1n hr1
      exact ⟨⟨a, List.mem_cons_self .., hw⟩, h2.fault hfl⟩
    · obtain ⟨⟨b, hb, hw⟩, hfl⟩ := h2n h
      exact ⟨⟨b, List.mem_cons_of_mem _ hb, hw⟩, hfl⟩

/-- a small step except for `crashed` -/
structure Small' (s s' : Sys) : Prop where
  conns : ConnsLe s s'
  fault : s.fault.isSome = true → s'.fault.isSome = true
  out : OutLe s s'

theorem Small.weaken {s s' : Sys} (h : Small s s') : Small' s s' := ⟨h.conns, h.fault, h.out⟩

theorem Small'.trans {a b c : Sys} (h1 : Small' a b) (h2 : Small' b c) : Small' a c :=
  ⟨h1.conns.trans h2.conns, fun h => h2.fault (h1.fault h), h1.out.trans h2.out⟩

/-- **EXEC.**  On a connection whose queue holds no EXEC and no (P)SUBSCRIBE / (P)UNSUBSCRIBE, EXEC is a small step
apart from `crashed`; and either `crashed` is untouched and EXEC has a reply, or EXEC took the assertion path — then
the queue held an unknown name (no reachable queue does) and the model has flagged the run (`fault`). -/
theorem execCmd_spec (mode : Mode) (c : Nat) (cis : List CI) (s : Sys)
    (hq : ∀ q, (s.conn c).tx = some q → ∀ a ∈ q, a.1 ∉ gated) :
    Small' s (execCmd (runInner mode c) c cis s).2 ∧
    (((execCmd (runInner mode c) c cis s).2.crashed = s.crashed ∧ ¬ noneS (execCmd (runInner mode c) c cis s).1) ∨
     ((execCmd (runInner mode c) c cis s).2.crashed = some "AssertionError" ∧
      (execCmd (runInner mode c) c cis s).2.fault.isSome = true ∧
      ∃ q, (s.conn c).tx = some q ∧ ∃ a ∈ q, SigTable.find a.1 = none)) := by
  have hupd2 : ∀ (t : Sys) (f g : Conn → Conn), (∀ x, ConnStep x (f x)) → (∀ x, ConnStep x (g x)) →
      Small t ((t.updConn c f).updConn c g) :=
    fun t f g hf hg => Small.trans ⟨ConnsLe.updConn t c f hf, id, rfl, OutLe.refl _⟩
      ⟨ConnsLe.updConn _ c g hg, id, rfl, OutLe.refl _⟩
  cases htx : (s.conn c).tx with
  | none =>
    rw [execCmd_run_none _ cis htx]
    exact ⟨(Small.refl s).weaken, .inl ⟨rfl, fun h => h⟩⟩
  | some q =>
    cases hf : (s.conn c).txFailed with
    | true =>
      rw [execCmd_run_failed _ cis htx hf]
      dsimp only
      refine ⟨Small.weaken (hupd2 s _ _ ?_ ?_), .inl ⟨rfl, fun h => h⟩⟩
      · exact fun _ => ⟨rfl, rfl, rfl, .inr (.inl rfl)⟩
      · exact fun _ => ⟨rfl, rfl, rfl, .inl rfl⟩
    | false =>
      cases hw : (s.conn c).watchNotified with
      | true =>
        rw [execCmd_run_dirty _ cis htx hf hw]
        dsimp only
        refine ⟨Small.weaken (hupd2 s _ _ ?_ ?_), .inl ⟨rfl, fun h => h⟩⟩
        · exact fun _ => ⟨rfl, rfl, rfl, .inr (.inl rfl)⟩
        · exact fun _ => ⟨rfl, rfl, rfl, .inl rfl⟩
      | false =>
        rw [execCmd_eq_sequential _ cis htx hf hw]
        simp only [bind, StateT.bind, modifyConn_run, clearWatches_run]
        have h1 : Small s ((s.updConn c fun x => { x with tx := none, txFailed := false }).updConn c
            fun x => { x with watchNotified := false, watches := [] }) :=
          hupd2 s _ _ (fun _ => ⟨rfl, rfl, rfl, .inr (.inl rfl)⟩) (fun _ => ⟨rfl, rfl, rfl, .inl rfl⟩)
        have hc : s.HasConn c := Sys.hasConn_of_tx (by rw [htx]; rfl)
        have hc1 := (h1.conns.hasConn c).2 hc
        obtain ⟨h2, h2n⟩ := runQueue_spec mode c q _ hc1 (hq q htx)
        revert h2 h2n
        generalize runQueue (runInner mode c) c q _ = r
        obtain ⟨rs, s2⟩ := r
        intro h2 h2n
        dsimp only at h2 h2n ⊢
        cases hany : rs.any Option.isNone with
        | false =>
          simp only [Bool.false_eq_true, if_false]
          exact ⟨(h1.trans h2).weaken, .inl ⟨(h1.trans h2).crashed, fun h => h⟩⟩
        | true =>
          simp only [if_true]
          obtain ⟨hw', hfl⟩ := h2n hany
          refine ⟨(h1.trans h2).weaken.trans ⟨ConnsLe.of_eq rfl, id, OutLe.of_eq rfl⟩, .inr ⟨rfl, hfl, q, rfl, hw'⟩⟩

/-! ## 3. the command run at once (`runCommand`): all cases -/

/-- a small step as far as connection records and the `fault` marker go -/
structure Core (s s' : Sys) : Prop where
  conns : ConnsLe s s'
  fault : s.fault.isSome = true → s'.fault.isSome = true

theorem Core.refl (s : Sys) : Core s s := ⟨ConnsLe.refl s, id⟩
theorem Core.trans {a b c : Sys} (h1 : Core a b) (h2 : Core b c) : Core a c :=
  ⟨h1.conns.trans h2.conns, fun h => h2.fault (h1.fault h)⟩
theorem Small.core {s s' : Sys} (h : Small s s') : Core s s' := ⟨h.conns, h.fault⟩
theorem Small'.core {s s' : Sys} (h : Small' s s') : Core s s' := ⟨h.conns, h.fault⟩

/-- what the small-step relation looks at, apart from the reply list -/
def keyOf (s : Sys) :
    List (Nat × Bool × Bool × Option (List (String × List Bytes))) × Option String × Option String :=
  (s.srv.conns.map fun x => (x.id, x.dead, x.closed, x.tx), s.fault, s.crashed)

theorem forall₂_of_map_eq : ∀ (l l' : List Conn),
    (l'.map fun x => (x.id, x.dead, x.closed, x.tx)) = (l.map fun x => (x.id, x.dead, x.closed, x.tx)) →
      Forall₂ ConnStep l l'
  | [], [], _ => .nil
  | [], _ :: _, h => by cases h
  | _ :: _, [], h => by cases h
  | a :: l, b :: l', h => by
    simp only [List.map_cons, List.cons.injEq, Prod.mk.injEq] at h
    exact .cons ⟨h.1.1, h.1.2.1, h.1.2.2.1, .inl h.1.2.2.2⟩ (forall₂_of_map_eq l l' h.2)

theorem core_of_key {s s' : Sys} (h : keyOf s' = keyOf s) : Core s s' ∧ s'.crashed = s.crashed := by
  simp only [keyOf, Prod.mk.injEq] at h
  exact ⟨⟨forall₂_of_map_eq _ _ h.1, fun hf => by rw [h.2.1]; exact hf⟩, h.2.2⟩

theorem keyOf_updConn (s : Sys) (c : Nat) (f : Conn → Conn)
    (hf : ∀ x, ((f x).id, (f x).dead, (f x).closed, (f x).tx) = (x.id, x.dead, x.closed, x.tx)) :
    keyOf (s.updConn c f) = keyOf s := by
  unfold keyOf Sys.updConn
  simp only [List.map_map]
  congr 1
  apply List.map_congr_left
  intro x _
  simp only [Function.comp]
  split
  · exact hf x
  · rfl

theorem keyOf_setTbl (s : Sys) (p : Bool) (t : Tbl) : keyOf (s.setTbl p t) = keyOf s := by
  unfold keyOf Sys.setTbl; cases p <;> rfl

theorem keyOf_emitS (s : Sys) (c : Nat) (r : Reply) : keyOf (s.emitS c r) = keyOf s := by
  unfold Sys.emitS; split <;> rfl

theorem keyOf_subState (s : Sys) (c : Nat) (p : Bool) (n : Bytes) : keyOf (s.subState c p n) = keyOf s := by
  unfold Sys.subState
  simp only
  split
  · refine (keyOf_updConn _ c _ ?_).trans (keyOf_setTbl ..)
    exact fun _ => rfl
  · rw [keyOf_setTbl]

theorem keyOf_unsubState (s : Sys) (c : Nat) (p : Bool) (n : Bytes) : keyOf (s.unsubState c p n) = keyOf s := by
  unfold Sys.unsubState
  simp only
  split
  · refine (keyOf_updConn _ c _ ?_).trans (keyOf_setTbl ..)
    exact fun _ => rfl
  · rw [keyOf_setTbl]

theorem keyOf_subscribeGen (c : Nat) (p : Bool) (names : List Bytes) (s : Sys) :
    keyOf (subscribeGen c p names s).2 = keyOf s :=
  forM_subStep_frame keyOf c p (fun s n => keyOf_subState s c p n) (fun s r => keyOf_emitS s c r) names s

theorem keyOf_unsubscribeGen (c : Nat) (p : Bool) (names : List Bytes) (s : Sys) :
    keyOf (unsubscribeGen c p names s).2 = keyOf s :=
  unsubscribeGen_frame keyOf c p (fun s n => keyOf_unsubState s c p n) (fun s r => keyOf_emitS s c r) names s

/-- (P)SUBSCRIBE / (P)UNSUBSCRIBE run at once: connection ids, `dead` flags, queues, `fault`, `crashed` untouched -/
theorem special_sub_key (inner : Inner) (mode : Mode) (c : Nat) (name : String) (args : List Arg) (cis : List CI)
    (s : Sys) (h : name ∈ SigTable.notInMulti) :
    keyOf (special inner mode c name args cis s).2 = keyOf s ∧ noneS (special inner mode c name args cis s).1 := by
  unfold special
  simp only [bind, StateT.bind, getConn_run]
  split
  all_goals first
    | exact absurd h (by decide)
    | exact ⟨keyOf_subscribeGen _ _ _ s, trivial⟩
    | exact ⟨keyOf_unsubscribeGen _ _ _ s, trivial⟩
    | skip
  rename_i h1 h2 h3 h4 _ _ _ _ _ _ _ _ _
  simp only [SigTable.notInMulti, List.mem_cons, List.not_mem_nil, or_false] at h
  rcases h with h | h | h | h
  · exact absurd h h1
  · exact absurd h h2
  · exact absurd h h3
  · exact absurd h h4

/-- what `runWith` adds behind a special body: `fault` for a model error, the write-back -/
theorem afterSpecial_spec (d : Nat) (cis : List CI) (X : M SpecialOut) (s : Sys) :
    Small (X s).2 (afterSpecial d cis X s).2 ∧ ((afterSpecial d cis X s).1 = none ↔ noneS (X s).1) := by
  unfold afterSpecial
  simp only [bind, StateT.bind]
  generalize X s = r
  obtain ⟨r1, s1⟩ := r
  cases r1 with
  | error e =>
    dsimp only
    constructor
    · have : Pres (Small s1) (do
          if e.startsWith "model:" then fault e
          writebackAll d cis
          return some (.err (strBytes e)) : M (Option Reply)) := by pres
      exact this s1 (Small.refl s1)
    · constructor
      · intro h; split at h <;> cases h
      · intro h; exact h.elim
  | ok p =>
    obtain ⟨r, cis'⟩ := p
    dsimp only
    constructor
    · have : Pres (Small s1) (do writebackAll d cis'; return r : M (Option Reply)) := by pres
      exact this s1 (Small.refl s1)
    · constructor
      · intro h
        have h' : r = none := h
        subst h'; trivial
      · intro h
        cases r with
        | none => rfl
        | some r => exact h.elim

/-- elimination principle for `_run_command` of a special command: either it answers before the body is entered
(subscriber-mode refusal, argument error, short-cut, gate), in a state that differs in the databases only, or it is
the special body entered from such a state, followed by the write-back -/
theorem runWith_special_elim (special) (mode : Mode) (c : Nat) (sig : Sig) (raw : List Bytes) (fs : Bool) (s : Sys)
    (hreg : Cmd.regular sig.name = none) (P : Option Reply × Sys → Prop)
    (h1 : ∀ r s1, s1.srv.conns = s.srv.conns → s1.fault = s.fault → s1.crashed = s.crashed → s1.out = s.out →
      P (some r, s1))
    (h2 : ∀ args cis s1, s1.srv.conns = s.srv.conns → s1.fault = s.fault → s1.crashed = s.crashed → s1.out = s.out →
      (fs = true → sig.noScript = false) →
      P (afterSpecial (s.conn c).db cis (special mode c sig.name args cis) s1)) :
    P (runWith special mode c sig raw fs s) := by
  cases hr : s.refuses c sig with
  | true => rw [runWith_refused _ mode c sig raw fs hr]; exact h1 _ s rfl rfl rfl rfl
  | false =>
    rw [runWith_special_run _ mode c sig raw fs s hreg hr]
    dsimp only
    generalize sig.apply raw ⟨s.srv.dbs.getD (s.conn c).db [], s.srv.time⟩ = ap
    obtain ⟨db', res⟩ := ap
    cases res with
    | error e => exact h1 _ _ rfl rfl rfl rfl
    | ok a =>
      cases a with
      | short r => exact h1 _ _ rfl rfl rfl rfl
      | ok args cis =>
        dsimp only
        cases hg : runGate sig fs (decide ((s.conn c).pubsub > 0)) with
        | some e => exact h1 _ _ rfl rfl rfl rfl
        | none => exact h2 args cis _ rfl rfl rfl rfl (runGate_none hg)

theorem small_of_frame {s s1 : Sys} (h1 : s1.srv.conns = s.srv.conns) (h2 : s1.fault = s.fault)
    (h3 : s1.crashed = s.crashed) (h4 : s1.out = s.out) : Small s s1 :=
  (Small.refl s).frame h1 h2 h3 h4

theorem conn_of_conns_eq' {s s1 : Sys} (h : s1.srv.conns = s.srv.conns) (c : Nat) : s1.conn c = s.conn c := by
  simp only [Sys.conn_def, h]

/-- the assertion path of EXEC on connection `c` in state `s`: the queue holds an unknown name -/
def BadQueue (s : Sys) (c : Nat) : Prop :=
  ∃ q, (s.conn c).tx = some q ∧ ∃ a ∈ q, SigTable.find a.1 = none

/-- **`_run_command` of any client command**, on a connection whose queue holds no gated name: connection ids and
`dead` flags are kept, queues are kept or reset, `fault` is never cleared; `crashed` is untouched — except when the
command is EXEC and its queue holds an unknown name (impossible from a state with well-formed queues): then the
assertion path is taken and the model has flagged the run. -/
theorem runCommand_spec (mode : Mode) (c : Nat) (sig : Sig) (raw : List Bytes) (s : Sys)
    (hq : ∀ q, (s.conn c).tx = some q → ∀ a ∈ q, a.1 ∉ gated) :
    Core s (runCommand mode c sig raw false s).2 ∧
    ((runCommand mode c sig raw false s).2.crashed = s.crashed ∨
     (sig.name = "exec" ∧ (runCommand mode c sig raw false s).2.crashed = some "AssertionError" ∧
      (runCommand mode c sig raw false s).2.fault.isSome = true ∧ BadQueue s c)) := by
  by_cases hg : sig.name ∈ gated
  · have hns : sig.name ∉ scriptNames := by
      intro h
      have : ∀ n ∈ gated, n ∉ scriptNames := by decide
      exact this _ hg h
    have hreg : Cmd.regular sig.name = none := by
      have : ∀ n ∈ gated, Cmd.regular n = none := by
        intro n hn
        simp only [gated, SigTable.notInMulti, List.mem_cons, List.not_mem_nil, or_false] at hn
        rcases hn with rfl | rfl | rfl | rfl | rfl <;> rfl
      exact this _ hg
    rw [runCommand_not_script mode c sig raw false hns]
    refine runWith_special_elim _ mode c sig raw false s hreg
      (fun r => Core s r.2 ∧ (r.2.crashed = s.crashed ∨ (sig.name = "exec" ∧ r.2.crashed = some "AssertionError" ∧
        r.2.fault.isSome = true ∧ BadQueue s c))) ?_ ?_
    · intro r s1 e1 e2 e3 e4
      exact ⟨(small_of_frame e1 e2 e3 e4).core, .inl e3⟩
    · intro args cis s1 e1 e2 e3 e4 _
      have hs1 := small_of_frame e1 e2 e3 e4
      obtain ⟨ht, _⟩ := afterSpecial_spec (s.conn c).db cis (special (runInner mode c) mode c sig.name args cis) s1
      by_cases hex : sig.name = "exec"
      · rw [special_exec _ mode c sig.name args cis hex] at ht ⊢
        have hq1 : ∀ q, (s1.conn c).tx = some q → ∀ a ∈ q, a.1 ∉ gated := by
          rw [conn_of_conns_eq' e1]; exact hq
        obtain ⟨hx, hcr⟩ := execCmd_spec mode c cis s1 hq1
        refine ⟨hs1.core.trans (hx.core.trans ht.core), ?_⟩
        rcases hcr with ⟨hcr, _⟩ | ⟨hcr, hfl, q, hq2, hbad⟩
        · exact .inl (ht.crashed.trans (hcr.trans e3))
        · refine .inr ⟨hex, ht.crashed.trans hcr, ht.fault hfl, q, ?_, hbad⟩
          rw [← conn_of_conns_eq' e1]; exact hq2
      · have hsub : sig.name ∈ SigTable.notInMulti := by
          simp only [gated, List.mem_cons] at hg
          rcases hg with hg | hg
          · exact absurd hg hex
          · exact hg
        obtain ⟨hk, _⟩ := special_sub_key (runInner mode c) mode c sig.name args cis s1 hsub
        obtain ⟨hc, hcr⟩ := core_of_key hk
        exact ⟨hs1.core.trans (hc.trans ht.core), .inl (ht.crashed.trans (hcr.trans e3))⟩
  · have h := runCommand_sm (s0 := s) mode c sig raw false hg s (Small.refl s)
    exact ⟨h.core, .inl h.crashed⟩

/-! ## 4. `_process_command` -/

/-- a name that may sit in a transaction queue: a command of the table, not EXEC / DISCARD / MULTI / WATCH, not
(P)SUBSCRIBE / (P)UNSUBSCRIBE -/
def QOk (n : String) : Prop :=
  n ∉ SigTable.notInMulti ∧ n ∉ SigTable.notQueued ∧ ∃ sig, SigTable.find n = some sig

/-- **the queue invariant**: every queued name is `QOk` -/
def TxWf (s : Sys) : Prop := TxAll QOk s

theorem TxWf.clean {s : Sys} (h : TxWf s) : TxClean s := fun x hx q hq a ha => (h x hx q hq a ha).1
theorem TxWf.noCtl {s : Sys} (h : TxWf s) : TxNoCtl s := fun x hx q hq a ha => (h x hx q hq a ha).2.1
theorem TxWf.known {s : Sys} (h : TxWf s) : TxKnown s := fun x hx q hq a ha => (h x hx q hq a ha).2.2

theorem QOk.not_gated {n : String} (h : QOk n) : n ∉ gated := by
  intro hg
  simp only [gated, List.mem_cons] at hg
  rcases hg with rfl | hg
  · exact h.2.1 (by decide)
  · exact h.1 hg

theorem TxWf.queue_not_gated {s : Sys} (h : TxWf s) (c : Nat) :
    ∀ q, (s.conn c).tx = some q → ∀ a ∈ q, a.1 ∉ gated :=
  fun _ hq a ha => (TxAll.conn h c hq a ha).not_gated

theorem TxAll.updConn {P : String → Prop} {s : Sys} (h : TxAll P s) (c : Nat) (f : Conn → Conn)
    (hf : ∀ x, ∀ q, (f x).tx = some q → ∀ a ∈ q, (∃ q0, x.tx = some q0 ∧ a ∈ q0) ∨ P a.1) :
    TxAll P (s.updConn c f) := by
  intro x' hx' q hq a ha
  simp only [Sys.updConn, List.mem_map] at hx'
  obtain ⟨x, hx, rfl⟩ := hx'
  split at hq
  · rcases hf x q hq a ha with ⟨q0, h0, ha0⟩ | hp
    · exact h x hx q0 h0 a ha0
    · exact hp
  · exact h x hx q hq a ha

theorem TxAll.emitS {P : String → Prop} {s : Sys} (h : TxAll P s) (c : Nat) (r : Reply) : TxAll P (s.emitS c r) := by
  unfold TxAll; rw [Sys.emitS_srv]; exact h

theorem AllAlive.updConn {s : Sys} (h : AllAlive s) (c : Nat) (f : Conn → Conn) (hf : ∀ x, (f x).dead = x.dead) :
    AllAlive (s.updConn c f) := by
  intro x' hx'
  simp only [Sys.updConn, List.mem_map] at hx'
  obtain ⟨x, hx, rfl⟩ := hx'
  split
  · rw [hf]; exact h x hx
  · exact h x hx

theorem AllAlive.emitS {s : Sys} (h : AllAlive s) (c : Nat) (r : Reply) : AllAlive (s.emitS c r) := by
  unfold AllAlive; rw [Sys.emitS_srv]; exact h

theorem cleanupClosed_sm {s0 : Sys} : Pres (Small s0) cleanupClosed := by
  unfold cleanupClosed; pres

/-- the clean-up of closed sockets and the clock refresh that precede every known command are a small step -/
theorem small_prologue (s : Sys) : Small s s.prologue := by
  unfold Sys.prologue Sys.refresh
  have h1 := cleanupClosed_sm (s0 := s) s (Small.refl s)
  have h2 := sm_nextClock (s0 := s) _ h1
  exact h2.frame rfl rfl rfl rfl

theorem TxWf.not_badQueue {s : Sys} (h : TxWf s) (c : Nat) : ¬ BadQueue s c := by
  rintro ⟨q, hq, a, ha, hbad⟩
  obtain ⟨sg, hsg⟩ := (TxAll.conn h c hq a ha).2.2
  rw [hsg] at hbad; cases hbad

/-- what one request does to the invariants -/
structure CmdFacts (s s' : Sys) (c : Nat) (fields : List Bytes) : Prop where
  wf : TxWf s'
  fault : s.fault.isSome = true → s'.fault.isSome = true
  crashed : s'.crashed = s.crashed
  alive : AllAlive s → s'.crashed = none → AllAlive s'

theorem cmdFacts_of_core {s s' : Sys} {c : Nat} {fields : List Bytes} (hwf : TxWf s) (h : Core s s')
    (hcr : s'.crashed = s.crashed) : CmdFacts s s' c fields :=
  ⟨hwf.le h.conns, h.fault, hcr, fun ha _ => ha.le h.conns⟩

theorem core_updConn (s : Sys) (c : Nat) (f : Conn → Conn) (hf : ∀ x, ConnStep x (f x)) : Core s (s.updConn c f) :=
  ⟨ConnsLe.updConn s c f hf, id⟩

theorem core_emitS (s : Sys) (c : Nat) (r : Reply) : Core s (s.emitS c r) :=
  ⟨ConnsLe.of_eq (by rw [Sys.emitS_srv]), fun h => by unfold Sys.emitS; split <;> exact h⟩

theorem emitS_crashed' (s : Sys) (c : Nat) (r : Reply) : (s.emitS c r).crashed = s.crashed := by
  unfold Sys.emitS; split <;> rfl

theorem prologue_tx (s : Sys) (c : Nat) : (s.prologue.conn c).tx = (s.conn c).tx := by
  unfold Sys.prologue
  rw [Sys.refresh_conn]
  rcases cleanupClosed_conn_any s c with e | e <;> rw [e] <;> rfl

theorem markTxFailed_step (x : Conn) : ConnStep x (markTxFailed x) := ⟨rfl, rfl, rfl, .inl rfl⟩
theorem discardTx_step (x : Conn) : ConnStep x (discardTx x) := ⟨rfl, rfl, rfl, .inr (.inl rfl)⟩

/-- **One request through `_process_command`, from a state with well-formed queues.**  The queues stay well-formed
(a (P)SUBSCRIBE / (P)UNSUBSCRIBE is refused, everything else appended is `QOk`), `fault` is never cleared, `crashed`
is untouched - for EVERY request, an EXEC whose queue holds script commands included -, and no connection dies
unless `crashed` is set. -/
theorem processCommand_spec (mode : Mode) (c : Nat) (fields : List Bytes) (s : Sys) (hwf : TxWf s) :
    CmdFacts s (processCommand mode c fields s).2 c fields := by
  cases fields with
  | nil => exact cmdFacts_of_core hwf (Core.refl s) rfl
  | cons nameB args =>
    cases hl : lookupSig nameB with
    | none =>
      rw [pc_unknown mode c nameB args s hl]
      refine cmdFacts_of_core hwf ((?_ : Core s _).trans (core_emitS _ c _)) ?_
      · split
        · exact core_updConn s c _ markTxFailed_step
        · exact Core.refl s
      · rw [emitS_crashed']; split <;> rfl
    | some sig =>
      have hp := small_prologue s
      have hwfp : TxWf s.prologue := hwf.le hp.conns
      by_cases ha : sig.checkArity args.length = true
      · by_cases hq : ((s.conn c).tx.isSome && !SigTable.notQueued.contains sig.name) = true
        · cases hnm : SigTable.notInMulti.contains sig.name with
          | true =>
            rw [pc_refused mode c nameB args s hl ha hq hnm]
            refine cmdFacts_of_core hwf (hp.core.trans ((core_updConn _ c _ markTxFailed_step).trans
              (core_emitS _ c _))) ?_
            rw [emitS_crashed']; exact hp.crashed
          | false =>
            rw [pc_queued mode c nameB args s hl ha hq hnm]
            obtain ⟨n, _, _, hfind⟩ := lookupSig_some hl
            have hname := SigTable.find_name hfind
            have hok : QOk sig.name := by
              simp only [Bool.and_eq_true, Bool.not_eq_true'] at hq
              exact ⟨by simpa using hnm, by simpa using hq.2, sig, by rw [hname]; exact hfind⟩
            refine ⟨?_, ?_, ?_, ?_⟩
            · refine TxAll.emitS (TxAll.updConn hwfp c _ (fun x q hq' a ha' => ?_)) c _
              cases hx : x.tx with
              | none => simp only [hx, Option.map_none] at hq'; cases hq'
              | some q0 =>
                simp only [hx, Option.map_some, Option.some.injEq] at hq'
                subst hq'
                rcases List.mem_append.1 ha' with h | h
                · exact .inl ⟨q0, rfl, h⟩
                · simp only [List.mem_singleton] at h; subst h; exact .inr hok
            · intro hf
              have : (s.prologue.updConn c fun x => { x with tx := x.tx.map (· ++ [(sig.name, args)]) }).fault
                  = s.prologue.fault := rfl
              exact (core_emitS _ c _).fault (by rw [this]; exact hp.fault hf)
            · rw [emitS_crashed']; exact hp.crashed
            · intro hal _
              refine AllAlive.emitS (AllAlive.updConn (hal.le hp.conns) c _ ?_) c _
              exact fun _ => rfl
        · have hq' : ((s.conn c).tx.isSome && !SigTable.notQueued.contains sig.name) = false := by simpa using hq
          rw [pc_run mode c nameB args s hl ha hq']
          obtain ⟨hcore, hcr⟩ := runCommand_spec mode c sig args s.prologue (hwfp.queue_not_gated c)
          unfold afterRun
          revert hcore hcr
          generalize runCommand mode c sig args false s.prologue = r
          obtain ⟨r1, s2⟩ := r
          intro hcore hcr
          dsimp only at hcore hcr ⊢
          have hcr' : s2.crashed = s.prologue.crashed := by
            rcases hcr with h | ⟨_, _, _, h4⟩
            · exact h
            · exact absurd h4 (hwfp.not_badQueue c)
          -- the state after the reply has been emitted
          have key : ∀ s3 : Sys, Core s2 s3 → s3.crashed = s2.crashed →
              CmdFacts s (if s3.crashed.isSome then s3.updConn c markDead else s3) c (nameB :: args) := by
            intro s3 h23 hc3
            have hc : Core s s3 := hp.core.trans (hcore.trans h23)
            have hcr3 : s3.crashed = s.crashed := hc3.trans (hcr'.trans hp.crashed)
            split
            · rename_i hsome
              refine ⟨TxAll.updConn (hwf.le hc.conns) c _ (fun x q hq' a ha' => .inl ⟨q, hq', ha'⟩), hc.fault, hcr3, ?_⟩
              intro _ hnone
              have : (s3.updConn c markDead).crashed = s3.crashed := rfl
              rw [this] at hnone
              rw [hnone] at hsome; cases hsome
            · exact ⟨hwf.le hc.conns, hc.fault, hcr3, fun hal _ => hal.le hc.conns⟩
          cases r1 with
          | none => exact key s2 (Core.refl s2) rfl
          | some x => exact key (s2.emitS c x) (core_emitS s2 c x) (emitS_crashed' s2 c x)
      · have ha' : sig.checkArity args.length = false := by simpa using ha
        by_cases hex : sig.name = "exec"
        · rw [pc_arity_exec mode c nameB args s hl ha' hex]
          refine cmdFacts_of_core hwf (hp.core.trans ((core_updConn _ c _ discardTx_step).trans (core_emitS _ c _))) ?_
          rw [emitS_crashed']; exact hp.crashed
        · rw [pc_arity mode c nameB args s hl ha' hex]
          refine cmdFacts_of_core hwf (hp.core.trans ((?_ : Core s.prologue _).trans (core_emitS _ c _))) ?_
          · split
            · exact core_updConn _ c _ markTxFailed_step
            · exact Core.refl _
          · rw [emitS_crashed']; split <;> exact hp.crashed

/-! ## 5. does the command have a reply? (for the reply count) -/

theorem ConnsLe.closed {s s' : Sys} (h : ConnsLe s s') (c : Nat) : (s'.conn c).closed = (s.conn c).closed :=
  (h.conn c).2.2.1

/-- **which commands, run at once, have no reply of their own**: apart from (P)SUBSCRIBE / (P)UNSUBSCRIBE (whose
replies are their acknowledgements) only a blocking pop (it parks; the wake-up / time-out event answers) and an EXEC
that takes the assertion path (its queue holds an unknown name: `BadQueue`, impossible from well-formed queues).  And what the command pushes on the reply list besides its reply are pub/sub messages. -/
theorem runCommand_reply (mode : Mode) (c : Nat) (sig : Sig) (raw : List Bytes) (s : Sys)
    (hsub : sig.name ∉ SigTable.notInMulti)
    (hq : ∀ q, (s.conn c).tx = some q → ∀ a ∈ q, a.1 ∉ gated) :
    Small' s (runCommand mode c sig raw false s).2 ∧
    (isNoneO (runCommand mode c sig raw false s).1 →
      sig.name ∈ blockingNames ∨
      (sig.name = "exec" ∧ (runCommand mode c sig raw false s).2.crashed = some "AssertionError" ∧ BadQueue s c)) := by
  by_cases hsc : sig.name ∈ scriptNames
  · have hg : sig.name ∉ gated := by
      intro hg
      have : ∀ n ∈ gated, n ∉ scriptNames := by decide
      exact this _ hg hsc
    refine ⟨(runCommand_sm (s0 := s) mode c sig raw false hg s (Small.refl s)).weaken, fun h => ?_⟩
    exfalso
    have : scriptNames.contains sig.name = true := by simpa using hsc
    unfold runCommand at h
    simp only [this, if_true] at h
    exact runScriptCmd_reply mode c sig raw false s h
  · rw [runCommand_not_script mode c sig raw false hsc]
    cases hreg : Cmd.regular sig.name with
    | some body =>
      have hg : sig.name ∉ gated := by
        intro hg
        have : ∀ n ∈ gated, Cmd.regular n = none := by
          intro n hn
          simp only [gated, SigTable.notInMulti, List.mem_cons, List.not_mem_nil, or_false] at hn
          rcases hn with rfl | rfl | rfl | rfl | rfl <;> rfl
        rw [this _ hg] at hreg; cases hreg
      have hsm := runWith_sm (s0 := s) (special (runInner mode c)) mode c sig raw false
        (fun _ args cis => special_sm _ mode c sig.name args cis hg) s (Small.refl s)
      refine ⟨hsm.weaken, fun h => ?_⟩
      exfalso
      cases hr : s.refuses c sig with
      | true => rw [runWith_refused _ mode c sig raw false hr] at h; exact h
      | false => rw [runWith_regular_run _ mode c sig raw false hreg s hr] at h; exact h
    | none =>
      refine runWith_special_elim _ mode c sig raw false s hreg
        (fun r => Small' s r.2 ∧ (isNoneO r.1 → sig.name ∈ blockingNames ∨
          (sig.name = "exec" ∧ r.2.crashed = some "AssertionError" ∧ BadQueue s c))) ?_ ?_
      · intro r s1 e1 e2 e3 e4
        exact ⟨(small_of_frame e1 e2 e3 e4).weaken, fun h => h.elim⟩
      · intro args cis s1 e1 e2 e3 e4 _
        have hs1 := small_of_frame e1 e2 e3 e4
        obtain ⟨ht, hnone⟩ := afterSpecial_spec (s.conn c).db cis (special (runInner mode c) mode c sig.name args cis) s1
        by_cases hex : sig.name = "exec"
        · rw [special_exec _ mode c sig.name args cis hex] at ht hnone ⊢
          have hq1 : ∀ q, (s1.conn c).tx = some q → ∀ a ∈ q, a.1 ∉ gated := by
            rw [conn_of_conns_eq' e1]; exact hq
          obtain ⟨hx, hcr⟩ := execCmd_spec mode c cis s1 hq1
          refine ⟨hs1.weaken.trans (hx.trans ht.weaken), fun h => ?_⟩
          have hn := hnone.1 (isNoneO_iff.1 h)
          rcases hcr with ⟨_, hnn⟩ | ⟨hcr, _, q, hq2, hbad⟩
          · exact absurd hn hnn
          · exact .inr ⟨hex, ht.crashed.trans hcr, q, by rw [← conn_of_conns_eq' e1]; exact hq2, hbad⟩
        · have hg : sig.name ∉ gated := by
            simp only [gated, List.mem_cons, not_or]
            exact ⟨hex, hsub⟩
          have hsm := special_sm (s0 := s1) (runInner mode c) mode c sig.name args cis hg s1 (Small.refl s1)
          refine ⟨hs1.weaken.trans (hsm.weaken.trans ht.weaken), fun h => ?_⟩
          have hn := hnone.1 (isNoneO_iff.1 h)
          by_cases hb : sig.name ∈ blockingNames
          · exact .inl hb
          · exact absurd hn (special_never_none _ mode c sig.name args cis hg hsc hb s1)

theorem afterRun_crashed (c : Nat) (r : Option Reply × Sys) : (afterRun c r).crashed = r.2.crashed := by
  unfold afterRun
  obtain ⟨r1, s2⟩ := r
  cases r1 with
  | none => simp only; split <;> rfl
  | some x => simp only; split <;> first | exact emitS_crashed' s2 c x | rfl

/-- **A command run at once, other than (P)SUBSCRIBE / (P)UNSUBSCRIBE, on an open connection**: the reply list grows
by exactly one reply to `c` on top of the pub/sub messages delivered meanwhile (to whatever connections) — or by the
messages alone, and then the command is a blocking pop (it parked). -/
theorem processCommand_reply (mode : Mode) (c : Nat) (nameB : Bytes) (args : List Bytes) (s : Sys) (hwf : TxWf s)
    (hcl : (s.conn c).closed = false) {sig : Sig} (hl : lookupSig nameB = some sig)
    (ha : sig.checkArity args.length = true)
    (hq : ((s.conn c).tx.isSome && !SigTable.notQueued.contains sig.name) = false)
    (hsub : sig.name ∉ SigTable.notInMulti) :
    (∃ r D, (processCommand mode c (nameB :: args) s).2.out = (c, r) :: D ++ s.out ∧ ∀ p ∈ D, IsMsg p.2) ∨
    (sig.name ∈ blockingNames ∧
      ∃ D, (processCommand mode c (nameB :: args) s).2.out = D ++ s.out ∧ ∀ p ∈ D, IsMsg p.2) := by
  have hp := small_prologue s
  have hwfp : TxWf s.prologue := hwf.le hp.conns
  rw [pc_run mode c nameB args s hl ha hq, afterRun_out]
  obtain ⟨hsm, hnone⟩ := runCommand_reply mode c sig args s.prologue hsub (hwfp.queue_not_gated c)
  revert hsm hnone
  generalize runCommand mode c sig args false s.prologue = r
  obtain ⟨r1, s2⟩ := r
  intro hsm hnone
  dsimp only at hsm hnone ⊢
  obtain ⟨D, hD, hmsg⟩ := hsm.out
  rw [prologue_out] at hD
  cases r1 with
  | some x =>
    left
    refine ⟨x, D, ?_, hmsg⟩
    have hc2 : (s2.conn c).closed = false := by
      rw [hsm.conns.closed c, hp.conns.closed c]; exact hcl
    simp only [Sys.emitS_out, hc2, Bool.false_eq_true, if_false, hD, List.cons_append]
  | none =>
    right
    rcases hnone trivial with hb | ⟨_, _, hbad⟩
    · exact ⟨hb, D, hD, hmsg⟩
    · exact absurd hbad (hwfp.not_badQueue c)

end FR.C04k
