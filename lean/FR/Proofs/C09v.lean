import FR.Proofs.ScanSys
import FR.Proofs.StrKeys
import FR.Proofs.NotifyKeys
import FR.Proofs.Discipline
/-!
# Helper lemmas for `FR/Props/C09v.lean` — the views of the key space at system level

* closed forms of `_process_command` for the key-less special commands DBSIZE / KEYS / RANDOMKEY and for an arbitrary
  regular command, on a connection in normal mode (outside MULTI, not subscribed), with no hypothesis on pending
  exceptions;
* the live view `purgeAt t dict` at different clock readings;
* the write-back of an emptied collection removes the key physically;
* read-only runs perform lazy deletions only.
-/
namespace FR.C09v
open FR FR.M FR.Cmd FR.ScanSys
set_option linter.unusedSimpArgs false
set_option linter.unusedVariables false

/-! ## 1. signatures -/

def dbsizeSig : Sig := ⟨"dbsize", [], [], false, 0, 0, false⟩
def keysSig : Sig := ⟨"keys", [.bytes], [], false, 1, 0, false⟩
def randomkeySig : Sig := ⟨"randomkey", [], [], false, 0, 0, false⟩

theorem find_dbsize : SigTable.find "dbsize" = some dbsizeSig := by decide
theorem find_keys : SigTable.find "keys" = some keysSig := by decide
theorem find_randomkey : SigTable.find "randomkey" = some randomkeySig := by decide

theorem apply_dbsize (db : Db) : dbsizeSig.apply [] db = (db, .ok (.ok [] [])) := rfl
theorem apply_randomkey (db : Db) : randomkeySig.apply [] db = (db, .ok (.ok [] [])) := rfl
theorem apply_keys (p : Bytes) (db : Db) : keysSig.apply [p] db = (db, .ok (.ok [.raw p] [])) := rfl


/-! ## 2. the three key-less special commands through `_run_command` -/

theorem writebackAll_nil (d : Nat) (s : Sys) : writebackAll d [] s = ((), s) := rfl

/-- a special command whose signature converts no key, on an unsubscribed connection -/
theorem runWith_keyless (inner : Inner) (mode : Mode) (c : Nat) (sig : Sig) (raw : List Bytes) (a : List Arg)
    (s : Sys) (hreg : Cmd.regular sig.name = none) (hap : ∀ db, sig.apply raw db = (db, .ok (.ok a [])))
    (hpub : (s.conn c).pubsub = 0) :
    runWith (special inner) mode c sig raw false s =
      afterSpecial (s.conn c).db [] (special inner mode c sig.name a []) s := by
  rw [runWith_special_run _ mode c sig raw false s hreg (Sys.refuses_of_unsubscribed sig hpub)]
  simp only [hap, gate_none sig (Or.inr trivial) _ hpub]
  have : ({ s with srv := { s.srv with dbs := s.srv.dbs.set (s.conn c).db (s.srv.dbs.getD (s.conn c).db []) } } : Sys)
      = s := by rw [set_getD_self]
  rw [this]

/-- the live keys of database `d` in dict order, and the state after `list(db)` -/
theorem special_dbsize (inner : Inner) (mode : Mode) (c : Nat) (s : Sys) :
    special inner mode c "dbsize" [] [] s =
      (.ok (some (.int ((Db.purge (s.dbAt (s.conn c).db)).dict.map Prod.fst).length), []),
        s.setDbS (s.conn c).db (Db.purge (s.dbAt (s.conn c).db))) := by
  unfold special
  simp only [bind, StateT.bind, getConn_run, liveKeys_run]
  rfl

theorem special_keys (inner : Inner) (mode : Mode) (c : Nat) (p : Bytes) (s : Sys) :
    special inner mode c "keys" [.raw p] [] s =
      (.ok (some (Reply.bulks (if p = [42] then (Db.purge (s.dbAt (s.conn c).db)).dict.map Prod.fst
          else ((Db.purge (s.dbAt (s.conn c).db)).dict.map Prod.fst).filter (Glob.globMatch p))), []),
        s.setDbS (s.conn c).db (Db.purge (s.dbAt (s.conn c).db))) := by
  unfold special
  simp only [bind, StateT.bind, getConn_run, liveKeys_run, Cmd.rawArgs]
  by_cases hp : p = [42]
  · subst hp; rfl
  · have : (p == [42]) = false := by simpa using hp
    simp only [this, hp, if_false, Bool.false_eq_true]
    rfl


theorem fault_run (msg : String) (s : Sys) : M.fault msg s = ((), s.faultS (some msg)) := rfl

/-- what RANDOMKEY answers for the live keys `K` and the recorded hints -/
def randomkeyAnswer (K : List Bytes) (picks : List (List Bytes)) : Reply :=
  if K.isEmpty then .nil
  else match picks with
    | [x] :: _ => if K.contains x then .bulk x else .err (strBytes "model: bad hint")
    | _ => .err (strBytes "model: bad hint")

/-- the hint RANDOMKEY finds is a legal one: a single live key -/
def randomkeyLegal (K : List Bytes) (picks : List (List Bytes)) : Bool :=
  K.isEmpty || (match picks with | [x] :: _ => K.contains x | _ => false)

/-- the state RANDOMKEY leaves: database purged; one hint consumed when there is a live key; a model fault recorded
when the hint is not a live key -/
def randomkeyState (s : Sys) (d : Nat) : Sys :=
  let K := (Db.purge (s.dbAt d)).dict.map Prod.fst
  let s1 := s.setDbS d (Db.purge (s.dbAt d))
  if K.isEmpty then s1
  else match s.picks with
    | [x] :: rest =>
      if K.contains x then { s1 with picks := rest }
      else (s1.faultS (some "randomkey: pick is not a live key")).faultS (some "model: bad hint")
    | _ => (s1.faultS (some "randomkey: no pick")).faultS (some "model: bad hint")

theorem special_randomkey (inner : Inner) (mode : Mode) (c : Nat) (s : Sys) :
    special inner mode c "randomkey" [] [] s = randomkeyCmd (s.conn c).db [] s := by
  unfold special
  simp only [bind, StateT.bind, getConn_run]

theorem afterSpecial_randomkey (d : Nat) (s : Sys) :
    afterSpecial d [] (randomkeyCmd d []) s =
      (some (randomkeyAnswer ((Db.purge (s.dbAt d)).dict.map Prod.fst) s.picks), randomkeyState s d) := by
  unfold afterSpecial randomkeyCmd randomkeyAnswer randomkeyState
  simp only [bind, StateT.bind, liveKeys_run]
  by_cases hK : ((Db.purge (s.dbAt d)).dict.map Prod.fst).isEmpty = true
  · simp only [hK, if_true]
    rfl
  · simp only [hK, if_false, Bool.false_eq_true]
    simp only [MonadState.get, getThe, MonadStateOf.get, StateT.get, bind, StateT.bind, pure, StateT.pure]
    have hp : (s.setDbS d (Db.purge (s.dbAt d))).picks = s.picks := rfl
    rw [hp]
    have hbad : String.startsWith "model: bad hint" "model:" = true := by decide +kernel
    rcases hpk : s.picks with _ | ⟨p, rest⟩
    · simp only [StateT.bind, StateT.pure, fault_run, bind, pure, hbad, if_true, writebackAll_nil]
    · rcases p with _ | ⟨x, _ | ⟨y, ys⟩⟩
      · simp only [StateT.bind, StateT.pure, fault_run, bind, pure, hbad, if_true, writebackAll_nil]
      · simp only
        by_cases hx : ((Db.purge (s.dbAt d)).dict.map Prod.fst).contains x = true
        · simp only [hx, if_true]; rfl
        · simp only [hx, if_false, Bool.false_eq_true, StateT.bind, StateT.pure, fault_run, bind, pure, hbad, if_true, writebackAll_nil]
      · simp only [StateT.bind, StateT.pure, fault_run, bind, pure, hbad, if_true, writebackAll_nil]


theorem runCommand_keyless (mode : Mode) (c : Nat) (sig : Sig) (raw : List Bytes) (a : List Arg) (s : Sys)
    (hns : scriptNames.contains sig.name = false) (hreg : Cmd.regular sig.name = none)
    (hap : ∀ db, sig.apply raw db = (db, .ok (.ok a []))) (hpub : (s.conn c).pubsub = 0) :
    runCommand mode c sig raw false s =
      afterSpecial (s.conn c).db [] (special (runInner mode c) mode c sig.name a []) s := by
  unfold runCommand
  rw [hns]
  exact runWith_keyless _ mode c sig raw a s hreg hap hpub

theorem afterSpecial_ok (d : Nat) (x : M SpecialOut) (s s1 : Sys) (r : Reply)
    (h : x s = (.ok (some r, []), s1)) : afterSpecial d [] x s = (some r, s1) := by
  unfold afterSpecial
  simp only [bind, StateT.bind, h]
  rfl

/-- the purge of the selected database: what `list(db)` leaves behind -/
def purgeSel (s : Sys) (d : Nat) : Sys := s.setDbS d (Db.purge (s.dbAt d))

/-- the live keys of database `d`, in dict order -/
def liveKeysOf (s : Sys) (d : Nat) : List Bytes := (Db.purge (s.dbAt d)).dict.map Prod.fst

theorem runCommand_dbsize (mode : Mode) (c : Nat) (s : Sys) (hpub : (s.conn c).pubsub = 0) :
    runCommand mode c dbsizeSig [] false s =
      (some (.int (liveKeysOf s (s.conn c).db).length), purgeSel s (s.conn c).db) := by
  rw [runCommand_keyless mode c dbsizeSig [] [] s (by decide) rfl apply_dbsize hpub]
  exact afterSpecial_ok _ _ _ _ _ (special_dbsize _ mode c s)

theorem runCommand_keys (mode : Mode) (c : Nat) (p : Bytes) (s : Sys) (hpub : (s.conn c).pubsub = 0) :
    runCommand mode c keysSig [p] false s =
      (some (Reply.bulks (if p = [42] then liveKeysOf s (s.conn c).db
          else (liveKeysOf s (s.conn c).db).filter (Glob.globMatch p))), purgeSel s (s.conn c).db) := by
  rw [runCommand_keyless mode c keysSig [p] [.raw p] s (by decide) rfl (apply_keys p) hpub]
  exact afterSpecial_ok _ _ _ _ _ (special_keys _ mode c p s)

theorem runCommand_randomkey (mode : Mode) (c : Nat) (s : Sys) (hpub : (s.conn c).pubsub = 0) :
    runCommand mode c randomkeySig [] false s =
      (some (randomkeyAnswer (liveKeysOf s (s.conn c).db) s.picks), randomkeyState s (s.conn c).db) := by
  rw [runCommand_keyless mode c randomkeySig [] [] s (by decide) rfl apply_randomkey hpub]
  have : special (runInner mode c) mode c randomkeySig.name [] [] s = randomkeyCmd (s.conn c).db [] s :=
    special_randomkey _ mode c s
  rw [afterSpecial_congr _ _ _ _ _ this]
  exact afterSpecial_randomkey _ s

/-! ## 3. the same through `_process_command` -/

/-- the end of `_process_command`: queue the reply, mark the connection dead if an exception is pending -/
def finishS (s1 : Sys) (c : Nat) (r : Reply) : Sys := markDead (s1.emitS c r) c

theorem processCommand_dbsize (mode : Mode) (c : Nat) (nameB : Bytes) (s : Sys)
    (hname : lookupSig nameB = some dbsizeSig) (htx : (s.conn c).tx = none) (hpub : (s.conn c).pubsub = 0) :
    processCommand mode c [nameB] s =
      ((), finishS (purgeSel (prologue s) (s.conn c).db) c (.int (liveKeysOf (prologue s) (s.conn c).db).length)) := by
  rw [processCommand_run mode c nameB [] dbsizeSig s hname (by decide) htx]
  have hpub' : ((prologue s).conn c).pubsub = 0 := by rw [prologue_conn_pubsub, hpub]
  rw [finish_run c _ _ _ _ (runCommand_dbsize mode c _ hpub'), prologue_conn_db]
  rfl

theorem processCommand_keys (mode : Mode) (c : Nat) (nameB p : Bytes) (s : Sys)
    (hname : lookupSig nameB = some keysSig) (htx : (s.conn c).tx = none) (hpub : (s.conn c).pubsub = 0) :
    processCommand mode c [nameB, p] s =
      ((), finishS (purgeSel (prologue s) (s.conn c).db) c
        (Reply.bulks (if p = [42] then liveKeysOf (prologue s) (s.conn c).db
          else (liveKeysOf (prologue s) (s.conn c).db).filter (Glob.globMatch p)))) := by
  rw [processCommand_run mode c nameB [p] keysSig s hname (by rfl) htx]
  have hpub' : ((prologue s).conn c).pubsub = 0 := by rw [prologue_conn_pubsub, hpub]
  rw [finish_run c _ _ _ _ (runCommand_keys mode c p _ hpub'), prologue_conn_db]
  rfl

theorem processCommand_randomkey (mode : Mode) (c : Nat) (nameB : Bytes) (s : Sys)
    (hname : lookupSig nameB = some randomkeySig) (htx : (s.conn c).tx = none) (hpub : (s.conn c).pubsub = 0) :
    processCommand mode c [nameB] s =
      ((), finishS (randomkeyState (prologue s) (s.conn c).db) c
        (randomkeyAnswer (liveKeysOf (prologue s) (s.conn c).db) (prologue s).picks)) := by
  rw [processCommand_run mode c nameB [] randomkeySig s hname (by decide) htx]
  have hpub' : ((prologue s).conn c).pubsub = 0 := by rw [prologue_conn_pubsub, hpub]
  rw [finish_run c _ _ _ _ (runCommand_randomkey mode c _ hpub'), prologue_conn_db]
  rfl

/-- **a regular command through `_process_command`**, connection outside MULTI and not subscribed; no hypothesis on a
pending exception -/
theorem processCommand_regular (mode : Mode) (c : Nat) (nameB : Bytes) (args : List Bytes) (sig : Sig) (body : Body)
    (s : Sys) (hname : lookupSig nameB = some sig) (hb : Cmd.regular sig.name = some body)
    (har : sig.checkArity args.length = true) (hns : scriptNames.contains sig.name = false)
    (htx : (s.conn c).tx = none) (hpub : (s.conn c).pubsub = 0) :
    processCommand mode c (nameB :: args) s =
      ((), finishS ((prologue s).afterRegular (s.conn c).db ((prologue s).regularOut c sig body args false)) c
        ((prologue s).regularOut c sig body args false).reply) := by
  rw [processCommand_run mode c nameB args sig s hname har htx]
  have hpub' : ((prologue s).conn c).pubsub = 0 := by rw [prologue_conn_pubsub, hpub]
  have hrun : runCommand mode c sig args false (prologue s) =
      (some ((prologue s).regularOut c sig body args false).reply,
        (prologue s).afterRegular ((prologue s).conn c).db ((prologue s).regularOut c sig body args false)) := by
    unfold runCommand
    rw [hns]
    exact runWith_regular_run _ mode c sig args false hb (prologue s) (Sys.refuses_of_unsubscribed sig hpub')
  rw [finish_run c _ _ _ _ hrun, prologue_conn_db]
  rfl


/-! ## 4. reading the closed forms -/

/-- what the client-visible mode of a connection consists of -/
def connView (x : Conn) : Nat × Option (List (String × List Bytes)) × Nat × Bool := (x.db, x.tx, x.pubsub, x.closed)

theorem connView_cleared (x : Conn) : connView x.cleared = connView x := rfl

theorem prologue_connView (s : Sys) (c : Nat) : connView ((prologue s).conn c) = connView (s.conn c) := by
  rcases prologue_conn s c with h | h <;> rw [h] <;> rfl

theorem notifyFn_connView (d : Nat) (key : Bytes) (x : Conn) : connView (notifyFn d key x) = connView x := by
  unfold notifyFn; simp only; split <;> split <;> (try split) <;> rfl

theorem afterRegular_connView (s : Sys) (d : Nat) (o : RunOut) (c : Nat) :
    connView ((s.afterRegular d o).conn c) = connView (s.conn c) :=
  Sys.afterRegular_pred s d o c (fun y => connView y = connView (s.conn c))
    (fun d key x hx => (notifyFn_connView d key x).trans hx) rfl

theorem faultS_out (s : Sys) (f : Option String) : (s.faultS f).out = s.out := by
  unfold Sys.faultS; split
  · split <;> rfl
  · rfl

theorem faultS_crashed (s : Sys) (f : Option String) : (s.faultS f).crashed = s.crashed := by
  unfold Sys.faultS; split
  · split <;> rfl
  · rfl

theorem faultS_picks (s : Sys) (f : Option String) : (s.faultS f).picks = s.picks := by
  unfold Sys.faultS; split
  · split <;> rfl
  · rfl

theorem faultS_none (s : Sys) : s.faultS none = s := rfl

theorem faultS_some_ne_none (s : Sys) (m : String) : (s.faultS (some m)).fault ≠ none := by
  unfold Sys.faultS
  simp only
  cases hf : s.fault with
  | none => simp
  | some x => simp [hf]

theorem afterRegular_out (s : Sys) (d : Nat) (o : RunOut) : (s.afterRegular d o).out = s.out := by
  unfold Sys.afterRegular
  rw [forM_notifyWatch_frame (fun s => s.out) (fun _ _ => rfl), faultS_out]

theorem afterRegular_crashed (s : Sys) (d : Nat) (o : RunOut) : (s.afterRegular d o).crashed = s.crashed := by
  unfold Sys.afterRegular
  rw [forM_notifyWatch_frame (fun s => s.crashed) (fun _ _ => rfl), faultS_crashed]

theorem afterRegular_time (s : Sys) (d : Nat) (o : RunOut) : (s.afterRegular d o).srv.time = s.srv.time := by
  unfold Sys.afterRegular
  rw [forM_notifyWatch_frame (fun s => s.srv.time) (fun _ _ => rfl), Sys.faultS_srv]

theorem afterRegular_fault (s : Sys) (d : Nat) (o : RunOut) (h : o.fault = none) :
    (s.afterRegular d o).fault = s.fault := by
  unfold Sys.afterRegular
  rw [forM_notifyWatch_frame (fun s => s.fault) (fun _ _ => rfl), h]
  rfl

theorem markDead_srv_dbs (s : Sys) (c : Nat) : (markDead s c).srv.dbs = s.srv.dbs := by
  unfold markDead; split <;> rfl
theorem markDead_out (s : Sys) (c : Nat) : (markDead s c).out = s.out := by
  unfold markDead; split <;> rfl
theorem markDead_time (s : Sys) (c : Nat) : (markDead s c).srv.time = s.srv.time := by
  unfold markDead; split <;> rfl
theorem markDead_fault (s : Sys) (c : Nat) : (markDead s c).fault = s.fault := by
  unfold markDead; split <;> rfl
theorem markDead_crashed (s : Sys) (c : Nat) : (markDead s c).crashed = s.crashed := by
  unfold markDead; split <;> rfl
theorem markDead_picks (s : Sys) (c : Nat) : (markDead s c).picks = s.picks := by
  unfold markDead; split <;> rfl
theorem markDead_connView (s : Sys) (c c' : Nat) : connView ((markDead s c).conn c') = connView (s.conn c') := by
  unfold markDead
  split
  · exact Sys.conn_updConn_pred s c c' (fun x => { x with dead := true }) (fun y => connView y = connView (s.conn c'))
      (fun _ => rfl) (fun x hx => hx) rfl
  · rfl

theorem emitS_picks (s : Sys) (c r) : (s.emitS c r).picks = s.picks := by
  unfold Sys.emitS; split <;> rfl

/-- **what one request did.**  Exactly one reply `r` was queued for the sender `c` (on top of what was queued before);
the dictionary of the selected database became `D'` and no other database changed; the server clock shows the reading
`t` the request took; no exception was raised; the connection is in the mode it was in (same database selected,
outside MULTI, not subscribed, socket open). -/
structure Answered (s s' : Sys) (c : Nat) (t : Int) (r : Reply) (D' : Dict) : Prop where
  out : s'.out = (c, r) :: s.out
  dbs : s'.srv.dbs = s.srv.dbs.set (s.conn c).db D'
  time : s'.srv.time = t
  crashed : s'.crashed = s.crashed
  db : (s'.conn c).db = (s.conn c).db
  tx : (s'.conn c).tx = none
  pubsub : (s'.conn c).pubsub = 0
  closed : (s'.conn c).closed = false

theorem answered_finish {s s1 : Sys} {c : Nat} {r : Reply} {D' : Dict}
    (htx : (s.conn c).tx = none) (hpub : (s.conn c).pubsub = 0) (hcl : (s.conn c).closed = false)
    (hout : s1.out = s.out) (hdbs : s1.srv.dbs = s.srv.dbs.set (s.conn c).db D')
    (ht : s1.srv.time = reading s) (hcr : s1.crashed = s.crashed)
    (hv : connView (s1.conn c) = connView (s.conn c)) :
    Answered s (finishS s1 c r) c (reading s) r D' := by
  have hv' : connView ((finishS s1 c r).conn c) = connView (s.conn c) := by
    unfold finishS
    rw [markDead_connView, Sys.emitS_conn, hv]
  have hcl1 : (s1.conn c).closed = false := by
    have := congrArg (fun v => v.2.2.2) hv
    exact this.trans hcl
  unfold connView at hv'
  simp only [Prod.mk.injEq] at hv'
  obtain ⟨h1, h2, h3, h4⟩ := hv'
  refine ⟨?_, ?_, ?_, ?_, h1, h2.trans htx, h3.trans hpub, h4.trans hcl⟩
  · unfold finishS; rw [markDead_out, Sys.emitS_out, hcl1, hout]; rfl
  · unfold finishS; rw [markDead_srv_dbs, Sys.emitS_srv, hdbs]
  · unfold finishS; rw [markDead_time, Sys.emitS_srv, ht]
  · unfold finishS; rw [markDead_crashed, emitS_crashed, hcr]

/-- the dictionary of database `d` purged at the clock reading of the request -/
theorem purgeSel_prologue_dbs (s : Sys) (d : Nat) :
    (purgeSel (prologue s) d).srv.dbs = s.srv.dbs.set d (purgeAt (reading s) (s.srv.dbs.getD d [])) := by
  unfold purgeSel Sys.setDbS
  rw [prologue_dbAt, prologue_dbs]
  rfl

theorem liveKeysOf_prologue (s : Sys) (d : Nat) :
    liveKeysOf (prologue s) d = (purgeAt (reading s) (s.srv.dbs.getD d [])).map Prod.fst := by
  unfold liveKeysOf
  rw [prologue_dbAt]
  rfl


/-! ## 5. the view requests, answered -/

/-- the context a request of connection `c` runs in (clock already refreshed) -/
def ctxAt (s : Sys) (c : Nat) : Ctx := FR.Ttl.ctxOf (prologue s) c

/-- the selected database as the request sees it: its dictionary at the clock reading of the request -/
def viewAt (s : Sys) (c : Nat) : Db := ⟨s.srv.dbs.getD (s.conn c).db [], reading s⟩

theorem ctxAt_time (s : Sys) (c : Nat) : (ctxAt s c).time = (viewAt s c).time := by
  show (prologue s).srv.time = reading s
  exact prologue_time s

theorem regularOut_prologue (s : Sys) (c : Nat) (sig : Sig) (body : Body) (args : List Bytes)
    (hpub : (s.conn c).pubsub = 0) :
    (prologue s).regularOut c sig body args false = runRegular sig body (ctxAt s c) none args (viewAt s c) := by
  have h1 : ((prologue s).conn c).pubsub = 0 := by rw [prologue_conn_pubsub, hpub]
  unfold Sys.regularOut ctxAt viewAt FR.Ttl.ctxOf
  rw [h1, FR.Ttl.runGate_none, prologue_dbs, prologue_conn_db, prologue_time]

theorem dbsize_answered (mode : Mode) (c : Nat) (nameB : Bytes) (s : Sys)
    (hname : lookupSig nameB = some dbsizeSig) (htx : (s.conn c).tx = none) (hpub : (s.conn c).pubsub = 0)
    (hcl : (s.conn c).closed = false) :
    Answered s (processCommand mode c [nameB] s).2 c (reading s)
      (.int ((purgeAt (reading s) (s.srv.dbs.getD (s.conn c).db [])).map Prod.fst).length)
      (purgeAt (reading s) (s.srv.dbs.getD (s.conn c).db [])) ∧
    (processCommand mode c [nameB] s).2.fault = (prologue s).fault := by
  rw [processCommand_dbsize mode c nameB s hname htx hpub, liveKeysOf_prologue]
  refine ⟨answered_finish htx hpub hcl (prologue_out s) (purgeSel_prologue_dbs s _) (prologue_time s)
    (prologue_crashed s) (prologue_connView s c), ?_⟩
  show (finishS _ _ _).fault = _
  unfold finishS
  rw [markDead_fault, emitS_fault]
  rfl

theorem keys_answered (mode : Mode) (c : Nat) (nameB p : Bytes) (s : Sys)
    (hname : lookupSig nameB = some keysSig) (htx : (s.conn c).tx = none) (hpub : (s.conn c).pubsub = 0)
    (hcl : (s.conn c).closed = false) :
    Answered s (processCommand mode c [nameB, p] s).2 c (reading s)
      (Reply.bulks (if p = [42] then (purgeAt (reading s) (s.srv.dbs.getD (s.conn c).db [])).map Prod.fst
        else ((purgeAt (reading s) (s.srv.dbs.getD (s.conn c).db [])).map Prod.fst).filter (Glob.globMatch p)))
      (purgeAt (reading s) (s.srv.dbs.getD (s.conn c).db [])) ∧
    (processCommand mode c [nameB, p] s).2.fault = (prologue s).fault := by
  rw [processCommand_keys mode c nameB p s hname htx hpub, liveKeysOf_prologue]
  refine ⟨answered_finish htx hpub hcl (prologue_out s) (purgeSel_prologue_dbs s _) (prologue_time s)
    (prologue_crashed s) (prologue_connView s c), ?_⟩
  show (finishS _ _ _).fault = _
  unfold finishS
  rw [markDead_fault, emitS_fault]
  rfl

theorem randomkeyState_out (s : Sys) (d : Nat) : (randomkeyState s d).out = s.out := by
  unfold randomkeyState
  simp only
  split
  · rfl
  · split
    · split
      · rfl
      · rw [faultS_out, faultS_out]; rfl
    · rw [faultS_out, faultS_out]; rfl

theorem randomkeyState_srv (s : Sys) (d : Nat) : (randomkeyState s d).srv = (purgeSel s d).srv := by
  unfold randomkeyState
  simp only
  split
  · rfl
  · split
    · split
      · rfl
      · rw [Sys.faultS_srv, Sys.faultS_srv]; rfl
    · rw [Sys.faultS_srv, Sys.faultS_srv]; rfl

theorem randomkeyState_crashed (s : Sys) (d : Nat) : (randomkeyState s d).crashed = s.crashed := by
  unfold randomkeyState
  simp only
  split
  · rfl
  · split
    · split
      · rfl
      · rw [faultS_crashed, faultS_crashed]; rfl
    · rw [faultS_crashed, faultS_crashed]; rfl

/-- a legal hint: no model fault is recorded; the hint is consumed iff there is a live key -/
theorem randomkeyState_legal (s : Sys) (d : Nat) (h : randomkeyLegal (liveKeysOf s d) s.picks = true) :
    (randomkeyState s d).fault = s.fault ∧
    (randomkeyState s d).picks = if (liveKeysOf s d).isEmpty then s.picks else s.picks.drop 1 := by
  unfold randomkeyLegal liveKeysOf at h
  unfold randomkeyState liveKeysOf
  simp only
  by_cases hK : ((Db.purge (s.dbAt d)).dict.map Prod.fst).isEmpty = true
  · simp only [hK, if_true]; exact ⟨rfl, rfl⟩
  · simp only [hK, Bool.false_or, if_false, Bool.false_eq_true] at h ⊢
    rcases hp : s.picks with _ | ⟨p, rest⟩
    · rw [hp] at h; cases h
    · rw [hp] at h
      rcases p with _ | ⟨x, _ | ⟨y, ys⟩⟩
      · cases h
      · simp only at h ⊢
        simp only [h, if_true]
        exact ⟨rfl, rfl⟩
      · cases h

/-- an illegal hint is reported as a model fault (unless a fault was already pending) -/
theorem randomkeyState_illegal (s : Sys) (d : Nat) (h : randomkeyLegal (liveKeysOf s d) s.picks = false)
    (hf : s.fault = none) : (randomkeyState s d).fault ≠ none := by
  unfold randomkeyLegal liveKeysOf at h
  unfold randomkeyState
  simp only
  by_cases hK : ((Db.purge (s.dbAt d)).dict.map Prod.fst).isEmpty = true
  · rw [hK, Bool.true_or] at h; cases h
  · simp only [hK, Bool.false_or, if_false, Bool.false_eq_true] at h ⊢
    have key : ∀ m : String, (((s.setDbS d (Db.purge (s.dbAt d))).faultS (some m)).faultS (some "model: bad hint")).fault
        ≠ none := fun m => faultS_some_ne_none _ _
    rcases hp : s.picks with _ | ⟨p, rest⟩
    · exact key _
    · rw [hp] at h
      rcases p with _ | ⟨x, _ | ⟨y, ys⟩⟩
      · exact key _
      · simp only at h ⊢
        simp only [h, Bool.false_eq_true, if_false]
        exact key _
      · exact key _

theorem randomkey_answered (mode : Mode) (c : Nat) (nameB : Bytes) (s : Sys)
    (hname : lookupSig nameB = some randomkeySig) (htx : (s.conn c).tx = none) (hpub : (s.conn c).pubsub = 0)
    (hcl : (s.conn c).closed = false) :
    Answered s (processCommand mode c [nameB] s).2 c (reading s)
      (randomkeyAnswer ((purgeAt (reading s) (s.srv.dbs.getD (s.conn c).db [])).map Prod.fst) s.picks)
      (purgeAt (reading s) (s.srv.dbs.getD (s.conn c).db [])) := by
  rw [processCommand_randomkey mode c nameB s hname htx hpub, liveKeysOf_prologue, prologue_picks]
  refine answered_finish htx hpub hcl ((randomkeyState_out _ _).trans (prologue_out s)) ?_ ?_
    ((randomkeyState_crashed _ _).trans (prologue_crashed s)) ?_
  · rw [randomkeyState_srv, purgeSel_prologue_dbs]
  · rw [randomkeyState_srv]; exact prologue_time s
  · have : (randomkeyState (prologue s) (s.conn c).db).conn c = (prologue s).conn c := by
      simp only [Sys.conn_def, randomkeyState_srv]
      rfl
    rw [this]; exact prologue_connView s c

/-- the model fault and the hints after RANDOMKEY -/
theorem randomkey_fault_picks (mode : Mode) (c : Nat) (nameB : Bytes) (s : Sys)
    (hname : lookupSig nameB = some randomkeySig) (htx : (s.conn c).tx = none) (hpub : (s.conn c).pubsub = 0) :
    let K := (purgeAt (reading s) (s.srv.dbs.getD (s.conn c).db [])).map Prod.fst
    (randomkeyLegal K s.picks = true →
      (processCommand mode c [nameB] s).2.fault = (prologue s).fault ∧
      (processCommand mode c [nameB] s).2.picks = if K.isEmpty then s.picks else s.picks.drop 1) ∧
    (randomkeyLegal K s.picks = false → (prologue s).fault = none →
      (processCommand mode c [nameB] s).2.fault ≠ none) := by
  intro K
  rw [processCommand_randomkey mode c nameB s hname htx hpub]
  have hK : liveKeysOf (prologue s) (s.conn c).db = K := liveKeysOf_prologue s _
  have hf : ∀ s1 r, (finishS s1 c r).fault = s1.fault := by
    intro s1 r; unfold finishS; rw [markDead_fault, emitS_fault]
  have hp : ∀ s1 r, (finishS s1 c r).picks = s1.picks := by
    intro s1 r; unfold finishS; rw [markDead_picks, emitS_picks]
  constructor
  · intro hl
    have := randomkeyState_legal (prologue s) (s.conn c).db (by rw [hK, prologue_picks]; exact hl)
    rw [hK, prologue_picks] at this
    exact ⟨(hf _ _).trans this.1, (hp _ _).trans this.2⟩
  · intro hl hnone
    have := randomkeyState_illegal (prologue s) (s.conn c).db (by rw [hK, prologue_picks]; exact hl) hnone
    show (finishS _ _ _).fault ≠ none
    rw [hf]; exact this

/-- **a regular command, answered.** -/
theorem regular_answered (mode : Mode) (c : Nat) (nameB : Bytes) (args : List Bytes) (sig : Sig) (body : Body)
    (s : Sys) (hname : lookupSig nameB = some sig) (hb : Cmd.regular sig.name = some body)
    (har : sig.checkArity args.length = true) (hns : scriptNames.contains sig.name = false)
    (htx : (s.conn c).tx = none) (hpub : (s.conn c).pubsub = 0) (hcl : (s.conn c).closed = false) :
    Answered s (processCommand mode c (nameB :: args) s).2 c (reading s)
      (runRegular sig body (ctxAt s c) none args (viewAt s c)).reply
      (runRegular sig body (ctxAt s c) none args (viewAt s c)).db.dict := by
  rw [processCommand_regular mode c nameB args sig body s hname hb har hns htx hpub,
    regularOut_prologue s c sig body args hpub]
  refine answered_finish htx hpub hcl ((afterRegular_out _ _ _).trans (prologue_out s)) ?_
    ((afterRegular_time _ _ _).trans (prologue_time s)) ((afterRegular_crashed _ _ _).trans (prologue_crashed s))
    ((afterRegular_connView _ _ _ c).trans (prologue_connView s c))
  rw [Sys.afterRegular_dbs, prologue_dbs]


/-! ## 6. the live view at one and at several clock readings -/

/-- an entry is live at clock `t`: it has no deadline, or its deadline is not before `t` -/
def LiveAt (t : Int) (it : Item) : Prop := ∀ e, it.expireat = some e → t ≤ e

theorem expired_false_iff (D : Dict) (t : Int) (it : Item) :
    (Db.expired ⟨D, t⟩ it = false) ↔ LiveAt t it := by
  unfold Db.expired LiveAt
  cases it.expireat with
  | none => simp
  | some e => simp

/-- `purgeAt t D` keeps exactly the entries that are live at `t`, in the order of `D` -/
theorem mem_purgeAt {t : Int} {D : Dict} {p : Bytes × Item} : p ∈ purgeAt t D ↔ p ∈ D ∧ LiveAt t p.2 := by
  unfold purgeAt
  rw [Db.purge_dict, List.mem_filter]
  simp only [Bool.not_eq_eq_eq_not, Bool.not_true]
  rw [expired_false_iff]

theorem purgeAt_eq_filter (t : Int) (D : Dict) : purgeAt t D = D.filter (fun p => !Db.expired ⟨D, t⟩ p.2) := rfl

theorem liveAt_mono {t t' : Int} (h : t ≤ t') {it : Item} (hl : LiveAt t' it) : LiveAt t it :=
  fun e he => Int.le_trans h (hl e he)

/-- purging at an earlier reading first does not change what is live at a later one -/
theorem purgeAt_purgeAt_le {t t' : Int} (h : t ≤ t') (D : Dict) : purgeAt t' (purgeAt t D) = purgeAt t' D := by
  unfold purgeAt
  simp only [Db.purge_dict, List.filter_filter]
  apply List.filter_congr
  intro p _
  have e1 : Db.expired ⟨D.filter (fun p => !Db.expired ⟨D, t⟩ p.2), t'⟩ p.2 = Db.expired ⟨D, t'⟩ p.2 := rfl
  rw [e1]
  cases h1 : Db.expired ⟨D, t'⟩ p.2 with
  | true => rfl
  | false =>
    have := liveAt_mono h ((expired_false_iff D t' p.2).1 h1)
    rw [(expired_false_iff D t p.2).2 this]
    rfl

/-- lazy deletions made at reading `t` are invisible at every later reading -/
theorem reads_later {D D' : Dict} {t t' : Int} (h : t ≤ t') (hr : purgeAt t D' = purgeAt t D) :
    purgeAt t' D' = purgeAt t' D := by
  rw [← purgeAt_purgeAt_le h D', hr, purgeAt_purgeAt_le h D]

theorem live_def (D : Dict) (t : Int) (k : Bytes) : Db.live ⟨D, t⟩ k = (purgeAt t D).lookup k := rfl

theorem lookup_isSome_iff_mem_keys (l : Dict) (k : Bytes) : (l.lookup k).isSome = true ↔ k ∈ l.map Prod.fst := by
  induction l with
  | nil => simp
  | cons x xs ih =>
    obtain ⟨k', it⟩ := x
    by_cases h : k = k'
    · subst h; simp
    · have h' : (k == k') = false := by simpa using h
      simp only [List.lookup_cons, h', ih, List.map_cons, List.mem_cons, h, false_or]

/-- a key is among the live keys iff its live entry exists -/
theorem mem_liveKeys_iff (D : Dict) (t : Int) (k : Bytes) :
    k ∈ (purgeAt t D).map Prod.fst ↔ (Db.live ⟨D, t⟩ k).isSome = true := by
  rw [live_def, lookup_isSome_iff_mem_keys]

theorem live_some_iff {D : Dict} (nd : NodupKeys D) (t : Int) (k : Bytes) (it : Item) :
    Db.live ⟨D, t⟩ k = some it ↔ (k, it) ∈ D ∧ LiveAt t it := by
  constructor
  · intro h
    have hm := Db.lookup_some_mem (d := purgeAt t D) h
    exact mem_purgeAt.1 hm
  · intro h
    have hm : (k, it) ∈ purgeAt t D := mem_purgeAt.2 h
    have nd' : NodupKeys (purgeAt t D) := Db.purge_nodup (db := ⟨D, t⟩) nd
    rw [live_def]
    cases hl : (purgeAt t D).lookup k with
    | none => exact absurd rfl (Db.lookup_none_iff.1 hl _ hm)
    | some it' =>
      have := Db.nodup_unique nd' hl _ hm rfl
      simp only [Prod.mk.injEq, true_and] at this
      rw [this]

/-- the live keys are pairwise different -/
theorem liveKeys_nodup {D : Dict} (nd : NodupKeys D) (t : Int) : ((purgeAt t D).map Prod.fst).Nodup :=
  Db.purge_nodup (db := ⟨D, t⟩) nd

/-- the live entry at a reading determines the live entry at every later reading -/
theorem live_later {D : Dict} (nd : NodupKeys D) {t t' : Int} (h : t ≤ t') (k : Bytes) :
    Db.live ⟨D, t'⟩ k =
      match Db.live ⟨D, t⟩ k with
      | none => none
      | some it => if Db.expired ⟨D, t'⟩ it then none else some it := by
  rw [live_def, live_def, ← purgeAt_purgeAt_le h D]
  have nd' : NodupKeys (purgeAt t D) := Db.purge_nodup (db := ⟨D, t⟩) nd
  have := Db.lookup_filter (d := purgeAt t D) (fun p => !Db.expired ⟨purgeAt t D, t'⟩ p.2) k nd'
  show ((purgeAt t D).filter (fun p => !Db.expired ⟨purgeAt t D, t'⟩ p.2)).lookup k = _
  rw [this]
  cases (purgeAt t D).lookup k with
  | none => rfl
  | some it =>
    simp only
    have e : Db.expired ⟨purgeAt t D, t'⟩ it = Db.expired ⟨D, t'⟩ it := rfl
    rw [e]
    cases Db.expired ⟨D, t'⟩ it <;> rfl

/-- two dictionaries with the same live entries at a reading have the same live entries at every later reading -/
theorem live_later_congr {D D' : Dict} (nd : NodupKeys D) (nd' : NodupKeys D') {t t' : Int} (h : t ≤ t')
    (hl : (fun k => Db.live ⟨D', t⟩ k) = fun k => Db.live ⟨D, t⟩ k) (k : Bytes) :
    Db.live ⟨D', t'⟩ k = Db.live ⟨D, t'⟩ k := by
  rw [live_later nd' h k, live_later nd h k, congrFun hl k]
  rfl

/-- a read-only body makes `runRegular` perform lazy deletions only -/
theorem runRegular_reads_of_readOnly (sig : Sig) (body : Body) (hb : NotifyKeys.Body.ReadOnly body) (ctx : Ctx)
    (gate : Option Err) (raw : List Bytes) {db : Db} (nd : NodupKeys db.dict) :
    Reads db (runRegular sig body ctx gate raw db).db := by
  rw [runRegular_eq]
  have hr := Sig.apply_reads sig raw nd
  have hk := fun args cis => Sig.apply_clean sig raw db (args := args) (cis := cis)
  revert hr hk
  generalize sig.apply raw db = r
  obtain ⟨db1, x⟩ := r
  intro hr hk
  cases x with
  | error e => exact hr
  | ok ap =>
    cases ap with
    | short r => exact hr
    | ok args cis =>
      have hk := hk args cis rfl
      cases gate with
      | some e => exact hr
      | none =>
        simp only [runTail]
        cases hbd : body ctx args cis with
        | error e => simp only; rw [writebackPure_clean hk]; exact hr
        | ok o => simp only; rw [hb ctx args cis o hbd, writebackPure_clean hk]; exact hr

theorem reads_purgeAt {D D' : Dict} {t : Int} (h : Reads ⟨D, t⟩ ⟨D', t⟩) : purgeAt t D' = purgeAt t D :=
  congrArg Db.dict h.eq


/-! ## 7. the write-back of an emptied collection removes the key -/

/-- no entry is stored under `k` (live or dead) -/
def Absent (D : Dict) (k : Bytes) : Prop := ∀ q ∈ D, q.1 ≠ k

theorem absent_iff_lookup {D : Dict} {k : Bytes} : Absent D k ↔ D.lookup k = none := Db.lookup_none_iff.symm

/-- the item carries no value, or an empty list / set / hash / sorted set -/
def NoContent (c : CI) : Prop :=
  match c.val with
  | none => True
  | some v => v.isEmptyColl = true

/-- the last modified item of key `k` in the list handed to the write-back carries no content -/
def EmptiedLast (cis : List CI) (k : Bytes) : Prop :=
  ∃ pre c post, cis = pre ++ c :: post ∧ c.key = k ∧ c.modified = true ∧ NoContent c ∧
    ∀ c' ∈ post, c'.key = k → c'.modified = true → NoContent c'

theorem absent_erase {D : Dict} {k : Bytes} (k' : Bytes) (h : Absent D k) : Absent (Db.erase D k') k :=
  fun q hq => h q (Db.mem_erase hq)

theorem absent_get {db : Db} {k : Bytes} (k' : Bytes) (h : Absent db.dict k) : Absent (db.get k').1.dict k :=
  fun q hq => h q (Db.get_dict_sub hq)

/-- writing back an item without content removes the key … -/
theorem writeback_noContent (c : CI) (db : Db) (hm : c.modified = true) (hn : NoContent c) :
    Absent (c.writeback db).1.dict c.key ∧ (c.writeback db).1 = db.pop c.key := by
  unfold NoContent at hn
  unfold CI.writeback
  simp only [hm, if_true]
  cases hv : c.val with
  | none =>
    simp only
    rw [Db.pop_eq]
    exact ⟨absent_iff_lookup.2 (Db.lookup_erase_self _ _), trivial⟩
  | some v =>
    rw [hv] at hn
    simp only at hn ⊢
    rw [hn]
    simp only [if_true]
    rw [Db.pop_eq]
    exact ⟨absent_iff_lookup.2 (Db.lookup_erase_self _ _), trivial⟩

/-- … and no other write-back brings it back, unless it is a modified item of that very key with content -/
theorem writeback_keeps_absent (c : CI) (db : Db) {k : Bytes} (h : Absent db.dict k)
    (hc : c.key = k → c.modified = true → NoContent c) : Absent (c.writeback db).1.dict k := by
  by_cases hm : c.modified = true
  · by_cases hk : c.key = k
    · have := (writeback_noContent c db hm (hc hk hm)).2
      rw [this, Db.pop_eq]
      exact absent_erase _ h
    · unfold CI.writeback
      simp only [hm, if_true]
      cases hv : c.val with
      | none => simp only; rw [Db.pop_eq]; exact absent_erase _ h
      | some v =>
        simp only
        split
        · rw [Db.pop_eq]; exact absent_erase _ h
        · intro q hq
          unfold Db.put at hq
          rcases Db.mem_setRaw hq with hq | rfl
          · exact absent_get _ h q hq
          · exact hk
  · have hm : c.modified = false := by simpa using hm
    unfold CI.writeback
    simp only [hm, Bool.false_eq_true, if_false]
    split
    · split
      · rename_i db' it heq
        have e1 : db' = (db.get c.key).1 := by rw [heq]
        have e2 : (db.get c.key).2 = some it := by rw [heq]
        subst e1
        intro q hq
        rcases Db.mem_setRaw hq with hq | rfl
        · exact absent_get _ h q hq
        · intro hk
          exact h _ (Db.get_mem e2) hk
      · rename_i db' heq
        have e1 : db' = (db.get c.key).1 := by rw [heq]
        subst e1
        exact absent_get _ h
    · exact h

theorem writebackPure_append (db : Db) (a b : List CI) :
    writebackPure db (a ++ b) =
      ((writebackPure (writebackPure db a).1 b).1, (writebackPure db a).2 ++ (writebackPure (writebackPure db a).1 b).2) := by
  induction a generalizing db with
  | nil => simp [writebackPure_nil]
  | cons c cs ih =>
    rw [List.cons_append, writebackPure_cons, writebackPure_cons, ih]
    simp only [List.append_assoc]

theorem writebackPure_keeps_absent (cis : List CI) (db : Db) {k : Bytes} (h : Absent db.dict k)
    (hc : ∀ c ∈ cis, c.key = k → c.modified = true → NoContent c) : Absent (writebackPure db cis).1.dict k := by
  induction cis generalizing db with
  | nil => exact h
  | cons c cs ih =>
    rw [writebackPure_cons]
    exact ih _ (writeback_keeps_absent c db h (hc c (by simp))) (fun c' hc' => hc c' (by simp [hc']))

/-- **write-back of an emptied key**: afterwards nothing is stored under the key, and the key was notified -/
theorem writebackPure_emptied (cis : List CI) (db : Db) {k : Bytes} (he : EmptiedLast cis k) :
    Absent (writebackPure db cis).1.dict k ∧ k ∈ (writebackPure db cis).2 := by
  obtain ⟨pre, c, post, rfl, hk, hm, hn, hpost⟩ := he
  rw [writebackPure_append, writebackPure_cons]
  simp only
  constructor
  · apply writebackPure_keeps_absent post _ _ hpost
    rw [← hk]
    exact (writeback_noContent c _ hm hn).1
  · simp [hm, hk]

/-- **THE GENERIC THEOREM.**  Whatever the command (any signature, any body): if the last item the body hands back for
key `k` is modified and carries no value or an empty collection, then after the command nothing at all is stored
under `k` — the key is not kept with an empty collection — and `k` was notified to the watchers. -/
theorem runRegular_emptied (sig : Sig) (body : Body) (ctx : Ctx) (raw : List Bytes) (db : Db)
    {args : List Arg} {cis : List CI} {o : BodyOut} (hap : (sig.apply raw db).2 = .ok (.ok args cis))
    (hb : body ctx args cis = .ok o) {k : Bytes} (he : EmptiedLast o.cis k) :
    Absent (runRegular sig body ctx none raw db).db.dict k ∧ k ∈ (runRegular sig body ctx none raw db).notified := by
  rw [runRegular_eq, hap]
  simp only [runTail, hb]
  exact writebackPure_emptied o.cis _ he

/-- replacing one item of a clean list by an item without content -/
theorem emptiedLast_set {cis : List CI} (hclean : ∀ c ∈ cis, c.modified = false) {i : Nat} (hi : i < cis.length)
    {c' : CI} (hm : c'.modified = true) (hn : NoContent c') : EmptiedLast (cis.set i c') c'.key := by
  refine ⟨cis.take i, c', cis.drop (i + 1), ?_, rfl, hm, hn, ?_⟩
  · rw [List.set_eq_take_append_cons_drop, if_pos hi]
  · intro x hx _ hxm
    have := hclean x (List.mem_of_mem_drop hx)
    rw [this] at hxm; cases hxm

/-- nothing stored under `k`: `k` is not live at any clock reading -/
theorem absent_not_live {D : Dict} {k : Bytes} (h : Absent D k) (t : Int) : Db.live ⟨D, t⟩ k = none := by
  rw [live_def, Db.lookup_none_iff]
  intro q hq
  exact h q (mem_purgeAt.1 hq).1

end FR.C09v
