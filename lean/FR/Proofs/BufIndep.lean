import FR.Proofs.History
import FR.Proofs.Parser
/-!
# Command processing is independent of the connection's input buffer (C04, lifted)

`NI c X m` : the monadic computation `m` commutes with overwriting the input buffer `Conn.buf` of connection `c`
by `X` — it returns the same value and ends in the same state up to that overwrite.  Every building block of
`FR/Sys/Server.lean` / `FR/Sys/Process.lean` that command processing uses has this property, hence so has
`processCommand`: this is `BufIndependent` of `FR/Proofs/Parser.lean`, the hypothesis of the conditional
chunking theorems of `FR/Props/C04.lean`.
-/
namespace FR.BufIndep
open FR M
set_option linter.unusedSimpArgs false
set_option linter.unusedVariables false

/-! ## The property -/

/-- overwrite the buffer of one connection record -/
def sbC (c : Nat) (X : Bytes) (x : Conn) : Conn := if x.id == c then { x with buf := X } else x

theorem sbC_id (c : Nat) (X : Bytes) (x : Conn) : (sbC c X x).id = x.id := by
  unfold sbC; split <;> rfl

/-- `sbC` is either the identity or an overwrite of `buf` -/
theorem sbC_cases (c : Nat) (X : Bytes) (x : Conn) : sbC c X x = x ∨ sbC c X x = { x with buf := X } := by
  unfold sbC; split
  · exact Or.inr rfl
  · exact Or.inl rfl

theorem setBuf_eq (c : Nat) (X : Bytes) (s : Sys) :
    setBuf c X s = { s with srv := { s.srv with conns := s.srv.conns.map (sbC c X) } } := rfl

/-- `m` commutes with overwriting the input buffer of connection `c` by `X` -/
def NI (c : Nat) (X : Bytes) {α : Type} (m : M α) : Prop :=
  ∀ s, m (setBuf c X s) = ((m s).1, setBuf c X (m s).2)

/-- the same from one particular state, with possibly different code on the two sides -/
def NIAt (c : Nat) (X : Bytes) {α : Type} (s : Sys) (m₁ m₂ : M α) : Prop :=
  m₂ (setBuf c X s) = ((m₁ s).1, setBuf c X (m₁ s).2)

namespace NI
variable {c : Nat} {X : Bytes} {α β : Type}

theorem pure (a : α) : NI c X (Pure.pure a : M α) := fun _ => rfl

theorem bind {m : M α} {f : α → M β} (hm : NI c X m) (hf : ∀ a, NI c X (f a)) : NI c X (m >>= f) := by
  intro s
  show f (m (setBuf c X s)).1 (m (setBuf c X s)).2 = _
  rw [hm s]
  exact hf _ _

/-- reading the state -/
theorem get_bind {f : Sys → M β} (hf : ∀ s, NIAt c X s (f s) (f (setBuf c X s))) : NI c X (get >>= f) :=
  fun s => hf s

/-- reading the state, when the continuation only looks at parts that the overwrite leaves alone -/
theorem get_bind_same {f : Sys → M β} (hsame : ∀ s, f (setBuf c X s) = f s) (hf : ∀ s, NI c X (f s)) :
    NI c X (get >>= f) := by
  intro s
  show f (setBuf c X s) (setBuf c X s) = _
  rw [hsame]
  exact hf s s

theorem at_of_ni {m : M α} {s : Sys} (hm : NI c X m) : NIAt c X s m m := hm s

theorem at_of_ni_same {m₁ m₂ : M α} {s : Sys} (h : m₂ = m₁) (hm : NI c X m₁) : NIAt c X s m₁ m₂ := by
  subst h; exact hm s

theorem at_set_bind {s s₁ s₂ : Sys} {g : PUnit → M β} (h : s₂ = setBuf c X s₁) (hg : NI c X (g ⟨⟩)) :
    NIAt c X s (set s₁ >>= g) (set s₂ >>= g) := by
  subst h
  exact hg s₁

theorem map {m : M α} (g : α → β) (hm : NI c X m) : NI c X (g <$> m) := by
  intro s
  show (g (m (setBuf c X s)).1, (m (setBuf c X s)).2) = _
  rw [hm s]
  rfl

theorem forM {l : List α} {f : α → M PUnit} (hf : ∀ a, NI c X (f a)) : NI c X (l.forM f) := by
  induction l with
  | nil => exact pure _
  | cons a as ih => rw [forM_cons_eq]; exact bind (hf a) (fun _ => ih)

theorem forIn {l : List α} {f : α → β → M (ForInStep β)} (hf : ∀ a b, NI c X (f a b)) (init : β) :
    NI c X (forIn l init f) := by
  induction l generalizing init with
  | nil => exact pure _
  | cons a as ih =>
    rw [List.forIn_cons]
    refine bind (hf a init) (fun r => ?_)
    cases r with
    | done b => exact pure _
    | yield b => exact ih b

theorem mapM {l : List α} {f : α → M β} (hf : ∀ a, NI c X (f a)) : NI c X (l.mapM f) := by
  induction l with
  | nil => exact pure _
  | cons a as ih =>
    rw [List.mapM_cons]
    exact bind (hf a) (fun _ => bind ih (fun _ => pure _))

/-- a `while` loop whose body is `NI` and decreases a measure whenever it continues -/
theorem loop (μ : β → Nat) (f : Unit → β → M (ForInStep β))
    (hf : ∀ b, NI c X (f () b))
    (hdec : ∀ b s b', (f () b s).1 = .yield b' → μ b' < μ b) (init : β) :
    NI c X (ForIn.forIn Lean.Loop.mk init f) := by
  induction h : μ init using Nat.strongRecOn generalizing init with
  | _ n ih =>
    rw [loop_unfold]
    intro s
    have h1 := hf init s
    have h2 := hdec init s
    show (match (f () init (setBuf c X s)).1 with
      | .done val => Pure.pure val
      | .yield val => ForIn.forIn Lean.Loop.mk val f : M β) (f () init (setBuf c X s)).2 =
      (((match (f () init s).1 with
      | .done val => Pure.pure val
      | .yield val => ForIn.forIn Lean.Loop.mk val f : M β) (f () init s).2).1,
       setBuf c X ((match (f () init s).1 with
      | .done val => Pure.pure val
      | .yield val => ForIn.forIn Lean.Loop.mk val f : M β) (f () init s).2).2)
    rw [h1]
    revert h2
    generalize f () init s = r
    obtain ⟨r1, s1⟩ := r
    intro h2
    cases r1 with
    | done v => rfl
    | yield v => exact ih (μ v) (by rw [← h]; exact h2 v rfl) v rfl s1

/-- a `while` loop with a pure body that decreases a measure whenever it continues -/
theorem loop_pure (μ : β → Nat) (f : Unit → β → M (ForInStep β))
    (hf : ∀ b, ∃ r, f () b = Pure.pure r ∧ ∀ b', r = .yield b' → μ b' < μ b) (init : β) :
    NI c X (ForIn.forIn Lean.Loop.mk init f) := by
  refine loop μ f (fun b => ?_) (fun b s b' h => ?_) init
  · obtain ⟨r, hr, _⟩ := hf b
    rw [hr]; exact pure _
  · obtain ⟨r, hr, hd⟩ := hf b
    rw [hr] at h
    exact hd b' h

end NI

/-! ## Building blocks -/

section blocks
variable {c : Nat} {X : Bytes}

theorem findConn_setBuf (c' : Nat) (s : Sys) :
    findConn (setBuf c X s) c' = (findConn s c').map (sbC c X) :=
  find_map_conns _ (sbC_id c X) c' _

/-- `getConn`: the record handed out may differ in `buf`; fine when the continuation does not look at `buf` -/
theorem ni_getConn_bind {β : Type} (c' : Nat) {f : Conn → M β}
    (hsame : ∀ conn B, f { conn with buf := B } = f conn)
    (hf : ∀ conn, NI c X (f conn)) : NI c X (getConn c' >>= f) := by
  intro s
  show f ((findConn (setBuf c X s) c').getD { id := c' }) (setBuf c X s) = _
  rw [findConn_setBuf]
  have : f (((findConn s c').map (sbC c X)).getD { id := c' }) = f ((findConn s c').getD { id := c' }) := by
    cases findConn s c' with
    | none => rfl
    | some x =>
      show f (sbC c X x) = f x
      rcases sbC_cases c X x with h | h <;> rw [h]
      exact hsame x X
  rw [this]
  exact hf _ s

theorem ni_get_same {β : Type} (g : Sys → β) (hg : ∀ s, g (setBuf c X s) = g s) :
    NI c X (g <$> (get : M Sys)) := by
  intro s
  show (g (setBuf c X s), setBuf c X s) = _
  rw [hg]; rfl

theorem ni_modify (g : Sys → Sys) (hg : ∀ s, g (setBuf c X s) = setBuf c X (g s)) : NI c X (modify g) := by
  intro s
  show (PUnit.unit, g (setBuf c X s)) = _
  rw [hg]; rfl

/-- a map over the connection records that neither looks at nor touches `buf` -/
theorem ni_mapConns (h : Conn → Conn) (hid : ∀ x, (h x).id = x.id)
    (hb : ∀ x B, h { x with buf := B } = { h x with buf := B }) :
    NI c X (modify fun s => { s with srv := { s.srv with conns := s.srv.conns.map h } }) := by
  refine ni_modify _ (fun s => ?_)
  show ({ s with srv := { s.srv with conns := (s.srv.conns.map (sbC c X)).map h } } : Sys) =
    { s with srv := { s.srv with conns := (s.srv.conns.map h).map (sbC c X) } }
  have : (s.srv.conns.map (sbC c X)).map h = (s.srv.conns.map h).map (sbC c X) := by
    rw [List.map_map, List.map_map]
    apply List.map_congr_left
    intro x _
    show h (sbC c X x) = sbC c X (h x)
    by_cases hx : (x.id == c) = true
    · have h1 : sbC c X x = { x with buf := X } := if_pos hx
      have h2 : sbC c X (h x) = { h x with buf := X } := if_pos (by rw [hid]; exact hx)
      rw [h1, h2]; exact hb x X
    · have h1 : sbC c X x = x := if_neg hx
      have h2 : sbC c X (h x) = h x := if_neg (by rw [hid]; exact hx)
      rw [h1, h2]
  rw [this]

theorem ni_modifyConn (c' : Nat) (f : Conn → Conn) (hid : ∀ x, (f x).id = x.id)
    (hb : ∀ x B, f { x with buf := B } = { f x with buf := B }) : NI c X (modifyConn c' f) := by
  refine ni_mapConns (fun x => if x.id == c' then f x else x) (fun x => ?_) (fun x B => ?_)
  · split
    · exact hid x
    · rfl
  · show (if x.id == c' then f { x with buf := B } else { x with buf := B }) = _
    split
    · exact hb x B
    · rfl

theorem ni_getDb (i : Nat) : NI c X (getDb i) := fun _ => rfl

theorem ni_setDb (i : Nat) (db : Db) : NI c X (setDb i db) := ni_modify _ (fun _ => rfl)

theorem ni_fault (msg : String) : NI c X (M.fault msg) := by
  refine ni_modify _ (fun s => ?_)
  show (if s.fault.isNone then _ else _) = setBuf c X (if s.fault.isNone then _ else _)
  split <;> rfl

theorem ni_nextClock : NI c X nextClock := by
  intro s
  have hcl : (setBuf c X s).clocks = s.clocks := rfl
  rw [nextClock_run, nextClock_run, hcl]
  cases hc : s.clocks with
  | nil =>
    show (s.srv.time, if s.fault.isNone then _ else _) = (_, setBuf c X (if s.fault.isNone then _ else _))
    split <;> rfl
  | cons t rest => rfl

theorem ni_clearWatches (c' : Nat) : NI c X (clearWatches c') :=
  ni_modifyConn c' _ (fun _ => rfl) (fun _ _ => rfl)

/-- what `notifyWatch` does to one connection record -/
def nwC (d : Nat) (key : Bytes) (x : Conn) : Conn :=
  let x := if x.watches.contains (d, key) then { x with watchNotified := true } else x
  match x.parked with
  | some p => if p.db == d then { x with parked := some { p with woken := true } } else x
  | none => x

theorem nwC_id (d : Nat) (key : Bytes) (x : Conn) : (nwC d key x).id = x.id := by
  cases x with
  | mk id db tx txFailed inTx wn watches pubsub buf paused closed dead parked =>
    cases hw : watches.contains (d, key) <;> cases parked with
    | none => simp only [nwC, hw, Bool.false_eq_true, if_false, if_true]
    | some p => by_cases hp : (p.db == d) = true <;> simp only [nwC, hw, hp, Bool.false_eq_true, if_false, if_true]

theorem nwC_buf (d : Nat) (key : Bytes) (x : Conn) (B : Bytes) :
    nwC d key { x with buf := B } = { nwC d key x with buf := B } := by
  cases x with
  | mk id db tx txFailed inTx wn watches pubsub buf paused closed dead parked =>
    cases hw : watches.contains (d, key) <;> cases parked with
    | none => simp only [nwC, hw, Bool.false_eq_true, if_false, if_true]
    | some p => by_cases hp : (p.db == d) = true <;> simp only [nwC, hw, hp, Bool.false_eq_true, if_false, if_true]

theorem ni_notifyWatch (d : Nat) (key : Bytes) : NI c X (notifyWatch d key) :=
  ni_mapConns (nwC d key) (nwC_id d key) (nwC_buf d key)

end blocks

/-! ## Automation (modelled on `pres` of `FR/Proofs/History.lean`) -/

open Lean Elab Tactic Meta in
/-- close an `NI` goal with a universally quantified hypothesis `∀ x…, NI c X (f x…)` of the context -/
elab "ni_hyp" : tactic => withMainContext do
  let g ← getMainGoal
  for ldecl in (← getLCtx) do
    if ldecl.isImplementationDetail then continue
    let ty ← instantiateMVars ldecl.type
    unless ty.isForall && ty.getForallBody.getAppFn.isConstOf ``FR.BufIndep.NI do continue
    let saved ← saveState
    try
      let gs ← withReducible <| g.apply ldecl.toExpr
      if gs.isEmpty then
        replaceMainGoal []
        return
      else saved.restore
    catch _ => saved.restore
  throwError "ni_hyp: no applicable hypothesis"

/-- leaves: the monadic primitives (extensible with further `macro_rules`) -/
syntax "ni_leaf" : tactic
macro_rules | `(tactic| ni_leaf) => `(tactic| first
  | with_reducible exact NI.pure _
  | with_reducible exact ni_fault _
  | with_reducible exact ni_nextClock
  | with_reducible exact ni_clearWatches _
  | with_reducible exact ni_notifyWatch _ _
  | with_reducible exact ni_getDb _
  | with_reducible exact ni_setDb _ _
  | ((with_reducible refine ni_modifyConn _ _ ?_ ?_) <;> first | exact fun _ => rfl | exact fun _ _ => rfl)
  | ((with_reducible refine ni_modify _ ?_); exact fun _ => rfl)
  | with_reducible assumption
  | ni_hyp)

syntax "ni_step" : tactic
macro_rules | `(tactic| ni_step) => `(tactic| first
  | ni_leaf
  | ((with_reducible refine ni_getConn_bind _ ?_ (fun conn => ?_)); exact fun _ _ => rfl)
  | ((with_reducible refine NI.get_bind_same ?_ (fun s => ?_)); exact fun _ => rfl)
  | (with_reducible refine NI.bind ?_ (fun _ => ?_))
  | (with_reducible refine NI.forM (fun _ => ?_))
  | (with_reducible refine NI.forIn (fun _ _ => ?_) _)
  | (with_reducible refine NI.mapM (fun _ => ?_))
  | (with_reducible refine NI.map _ ?_)
  | split
  | (simp only []))

/-- structural descent through a `do` block -/
syntax "ni" : tactic
macro_rules | `(tactic| ni) => `(tactic| repeat' ni_step)

/-! ## Derived blocks -/

section derived
variable {c : Nat} {X : Bytes}

theorem ni_emit (c' : Nat) (r : Reply) : NI c X (emit c' r) := by
  unfold emit; ni

macro_rules | `(tactic| ni_leaf) => `(tactic| with_reducible exact ni_emit _ _)

theorem ni_writebackAll (d : Nat) (cis : List CI) : NI c X (writebackAll d cis) := by
  unfold writebackAll; ni

theorem ni_liveKeys (d : Nat) : NI c X (liveKeys d) := by
  unfold liveKeys; ni

macro_rules | `(tactic| ni_leaf) => `(tactic| first
  | with_reducible exact ni_writebackAll _ _
  | with_reducible exact ni_liveKeys _)

theorem ni_clearDb (d : Nat) : NI c X (clearDb d) := by
  unfold clearDb; ni

theorem ni_okR (r : Reply) (cis : List CI) : NI c X (okR r cis) := NI.pure _

macro_rules | `(tactic| ni_leaf) => `(tactic| first
  | with_reducible exact ni_clearDb _
  | with_reducible exact ni_okR _ _)

end derived

/-! ## The special bodies -/

section specials
variable {c : Nat} {X : Bytes}

theorem ni_selectCmd (c' : Nat) (args : List Arg) (cis : List CI) : NI c X (selectCmd c' args cis) := by
  unfold selectCmd; ni

theorem ni_swapdbCmd (args : List Arg) (cis : List CI) : NI c X (swapdbCmd args cis) := by
  unfold swapdbCmd okR; ni

theorem ni_moveCmd (d : Nat) (args : List Arg) (cis : List CI) : NI c X (moveCmd d args cis) := by
  unfold moveCmd; ni

theorem ni_randomkeyCmd (d : Nat) (cis : List CI) : NI c X (randomkeyCmd d cis) := by
  unfold randomkeyCmd okR
  refine NI.bind (ni_liveKeys d) (fun ks => ?_)
  split
  · ni
  · refine NI.get_bind (fun s => ?_)
    have hp : (setBuf c X s).picks = s.picks := rfl
    rw [hp]
    split
    · split
      · exact NI.at_set_bind rfl (NI.pure _)
      · refine NI.at_of_ni ?_; ni
    · refine NI.at_of_ni ?_; ni

theorem ni_scanCmd (d : Nat) (args : List Arg) (cis : List CI) : NI c X (scanCmd d args cis) := by
  unfold scanCmd; ni

theorem ni_multiCmd (c' : Nat) (cis : List CI) : NI c X (multiCmd c' cis) := by
  unfold multiCmd; ni

theorem ni_discardCmd (c' : Nat) (cis : List CI) : NI c X (discardCmd c' cis) := by
  unfold discardCmd; ni

theorem ni_watchCmd (c' d : Nat) (args : List Arg) (cis : List CI) : NI c X (watchCmd c' d args cis) := by
  unfold watchCmd; ni

theorem ni_subscribeGen (c' : Nat) (pattern : Bool) (names : List Bytes) :
    NI c X (subscribeGen c' pattern names) := by
  unfold subscribeGen; ni

theorem ni_unsubscribeGen (c' : Nat) (pattern : Bool) (names : List Bytes) :
    NI c X (unsubscribeGen c' pattern names) := by
  unfold unsubscribeGen; ni

theorem ni_publish (ch msg : Bytes) : NI c X (publish ch msg) := by
  unfold publish; ni

theorem ni_bpopPass (d : Nat) (left first : Bool) (keys : List Bytes) :
    NI c X (bpopPass d left first keys) := by
  induction keys with
  | nil => unfold bpopPass; ni
  | cons k rest ih => unfold bpopPass; ni

theorem ni_brpoplpushPass (d : Nat) (src dst : Bytes) (first : Bool) :
    NI c X (brpoplpushPass d src dst first) := by
  unfold brpoplpushPass; ni

theorem ni_blocking (c' : Nat) (park : Bool) (kind : String) (keys : List Bytes) (timeout : Int)
    (pass : Bool → M (Except Err (Option Reply))) (hpass : ∀ first, NI c X (pass first)) :
    NI c X (blocking c' park kind keys timeout pass) := by
  have h1 := hpass true
  unfold blocking; ni

theorem ni_blockingAsync (c' : Nat) (kind : String) (keys : List Bytes)
    (pass : Bool → M (Except Err (Option Reply))) (hpass : ∀ first, NI c X (pass first)) :
    NI c X (blockingAsync c' kind keys pass) := by
  have h1 := hpass true
  unfold blockingAsync; ni

end specials

/-! ## EXEC, SORT, ZUNIONSTORE / ZINTERSTORE -/

section specials2
variable {c : Nat} {X : Bytes}

/-- the nested runner is independent of the buffer -/
def InnerNI (c : Nat) (X : Bytes) (inner : Inner) : Prop :=
  ∀ (sig : Sig) (raw : List Bytes), NI c X (inner sig raw)

theorem ni_runQueue (inner : Inner) (hinner : InnerNI c X inner) (c' : Nat)
    (q : List (String × List Bytes)) : NI c X (runQueue inner c' q) := by
  induction q with
  | nil => unfold runQueue; ni
  | cons a rest ih =>
    have hinner' : ∀ sig raw, NI c X (inner sig raw) := hinner
    rw [runQueue_cons]
    refine NI.bind ?_ (fun _ => NI.bind ih (fun _ => NI.pure _))
    unfold queueStep
    ni

theorem ni_execCmd (inner : Inner) (hinner : InnerNI c X inner) (c' : Nat) (cis : List CI) :
    NI c X (execCmd inner c' cis) := by
  have hq := ni_runQueue inner hinner c'
  unfold execCmd
  ni

theorem ni_lookupKey (d : Nat) (key pattern : Bytes) : NI c X (lookupKey d key pattern) := by
  unfold lookupKey; ni

macro_rules | `(tactic| ni_leaf) => `(tactic| with_reducible exact ni_lookupKey _ _ _)

theorem ni_sortCmd (c' d : Nat) (args : List Arg) (cis : List CI) : NI c X (sortCmd c' d args cis) := by
  unfold sortCmd
  split
  · extract_lets key wrong out x keyed err le jp
    split
    · ni
    · have hjp : ∀ x, NI c X (jp x) := by
        intro items?
        simp -zeta only [jp]
        split
        · ni
        · split
          · ni
          · extract_lets n start stop stop' gets sortby jp2
            have hjp2 : ∀ x, NI c X (jp2 x) := by
              intro sorted?
              simp -zeta only [jp2]
              ni
            clear_value jp2
            ni
      clear_value jp
      simp only []
      split
      · ni
      · ni
      · ni
      · refine NI.get_bind (fun st => ?_)
        have hp : (setBuf c X st).picks = st.picks := rfl
        rw [hp]
        split
        · split
          · exact NI.at_set_bind rfl (by ni)
          · refine NI.at_of_ni ?_; ni
        · refine NI.at_of_ni ?_; ni
      · ni
  · ni

theorem ni_zunioninter (u : Bool) (d : Nat) (args : List Arg) (cis : List CI) :
    NI c X (zunioninter u d args cis) := by
  unfold zunioninter
  split
  · ni
    all_goals
      refine NI.loop_pure (fun b => b.2.2.2.2) _ (fun b => ?_) _
      repeat' split
      all_goals
        refine ⟨_, rfl, fun b' h => ?_⟩
        first
          | (cases h; done)
          | (have h := ForInStep.yield.inj h; subst h; simp_all <;> omega)
  · ni

theorem ni_scriptCmd (inner : Inner) (c' : Nat) (name : String) (args : List Arg) (cis : List CI) :
    NI c X (scriptCmd inner c' name args cis) := by
  unfold scriptCmd; ni

end specials2

/-! ## `special`, `_run_command`, scripts, `_process_command` -/

section dispatch
variable {c : Nat} {X : Bytes}

macro_rules | `(tactic| ni_leaf) => `(tactic| first
  | with_reducible exact ni_selectCmd _ _ _
  | with_reducible exact ni_swapdbCmd _ _
  | with_reducible exact ni_moveCmd _ _ _
  | with_reducible exact ni_randomkeyCmd _ _
  | with_reducible exact ni_scanCmd _ _ _
  | with_reducible exact ni_sortCmd _ _ _ _
  | with_reducible exact ni_zunioninter _ _ _ _
  | with_reducible exact ni_multiCmd _ _
  | with_reducible exact ni_discardCmd _ _
  | with_reducible exact ni_watchCmd _ _ _ _
  | with_reducible exact ni_subscribeGen _ _ _
  | with_reducible exact ni_unsubscribeGen _ _ _
  | with_reducible exact ni_publish _ _
  | with_reducible exact ni_scriptCmd _ _ _ _ _
  | with_reducible exact ni_blocking _ _ _ _ _ _ (fun _ => ni_bpopPass _ _ _ _)
  | with_reducible exact ni_blockingAsync _ _ _ _ (fun _ => ni_bpopPass _ _ _ _)
  | with_reducible exact ni_blocking _ _ _ _ _ _ (fun _ => ni_brpoplpushPass _ _ _ _)
  | with_reducible exact ni_blockingAsync _ _ _ _ (fun _ => ni_brpoplpushPass _ _ _ _))

/-- Every special body is independent of the buffer (EXEC: provided the nested runner is). -/
theorem ni_special (inner : Inner) (hinner : InnerNI c X inner) (mode : Mode) (c' : Nat)
    (name : String) (args : List Arg) (cis : List CI) :
    NI c X (special inner mode c' name args cis) := by
  have hexec := ni_execCmd inner hinner c'
  unfold special
  simp only []
  refine ni_getConn_bind c' (fun _ _ => rfl) (fun conn => ?_)
  split
  all_goals ni

/-- `_run_command` is independent of the buffer when the special body it may dispatch to is -/
theorem ni_runWith (special : SpecialFn) (mode : Mode) (c' : Nat) (sig : Sig) (raw : List Bytes) (fromScript : Bool)
    (hsp : ∀ args cis, NI c X (special mode c' sig.name args cis)) :
    NI c X (runWith special mode c' sig raw fromScript) := by
  unfold runWith
  refine ni_getConn_bind c' (fun _ _ => rfl) (fun conn => ?_)
  split
  · -- refused in subscriber mode: a pure reply
    exact NI.pure _
  refine NI.bind (ni_getDb _) (fun db => ?_)
  extract_lets gate
  clear_value gate
  split
  · refine NI.get_bind_same (fun _ => rfl) (fun s => ?_)
    extract_lets ctx o jp
    have hjp : ∀ x, NI c X (jp x) := by intro x; simp -zeta only [jp]; ni
    clear_value jp
    clear_value o
    ni
  · ni

theorem ni_nextPick : NI c X nextPick := by
  unfold nextPick
  refine NI.get_bind (fun s => ?_)
  have hp : (setBuf c X s).picks = s.picks := rfl
  rw [hp]
  split
  · exact NI.at_set_bind rfl (NI.pure _)
  · exact NI.at_of_ni (NI.pure _)

macro_rules | `(tactic| ni_leaf) => `(tactic| with_reducible exact ni_nextPick)

theorem ni_shaHint : NI c X shaHint := by
  unfold shaHint; ni

macro_rules | `(tactic| ni_leaf) => `(tactic| with_reducible exact ni_shaHint)

def SpecialNI (c : Nat) (X : Bytes) (special : SpecialFn) : Prop :=
  ∀ mode c' name args cis, NI c X (special mode c' name args cis)

theorem ni_runFromScript (special : SpecialFn) (hsp : SpecialNI c X special) (mode : Mode) (c' : Nat)
    (op : LuaVal) (args : List LuaVal) : NI c X (runFromScript special mode c' op args) := by
  have hrun : ∀ sig raw, NI c X (runWith special mode c' sig raw true) :=
    fun sig raw => ni_runWith special mode c' sig raw true (fun _ _ => hsp _ _ _ _ _)
  unfold runFromScript
  ni

theorem ni_runTrace (special : SpecialFn) (hsp : SpecialNI c X special) (mode : Mode) (c' : Nat)
    (sha : Bytes) (fuel : Nat) : NI c X (runTrace special mode c' sha fuel) := by
  have hcall := ni_runFromScript special hsp mode c'
  induction fuel with
  | zero => unfold runTrace; ni
  | succ fuel ih => unfold runTrace; ni

theorem ni_evalBody (special : SpecialFn) (hsp : SpecialNI c X special) (mode : Mode) (c' : Nat)
    (script : Bytes) (numkeys : Int) (rest : List Bytes) :
    NI c X (evalBody special mode c' script numkeys rest) := by
  have htrace := ni_runTrace special hsp mode c'
  unfold evalBody; ni

theorem ni_scriptBody (special : SpecialFn) (hsp : SpecialNI c X special) (mode : Mode) (c' : Nat)
    (name : String) (args : List Arg) : NI c X (scriptBody special mode c' name args) := by
  have heval := ni_evalBody special hsp mode c'
  unfold scriptBody; ni

theorem ni_special_stub : SpecialNI c X (special (fun _ _ => do fault "nested exec"; return none)) := by
  intro mode c' name args cis
  apply ni_special
  intro sig raw
  ni

theorem ni_runScriptCmd (mode : Mode) (c' : Nat) (sig : Sig) (raw : List Bytes) (fromScript : Bool) :
    NI c X (runScriptCmd mode c' sig raw fromScript) := by
  have hbody := ni_scriptBody (c := c) (X := X) _ ni_special_stub mode c'
  unfold runScriptCmd; ni

/-- the nested runner of EXEC (level 0) -/
theorem ni_runInner (mode : Mode) (c' : Nat) : InnerNI c X (runInner mode c') := by
  intro sig raw
  refine runInner_cases (P := fun m => NI c X m) mode c' sig raw
    (fun _ => ni_runScriptCmd mode c' sig raw false) (fun _ => ?_)
  apply ni_runWith
  intro args cis
  exact ni_special_stub _ _ _ _ _

/-- `_run_command` for a command issued by a client -/
theorem ni_runCommand (mode : Mode) (c' : Nat) (sig : Sig) (raw : List Bytes) (fromScript : Bool) :
    NI c X (runCommand mode c' sig raw fromScript) := by
  unfold runCommand
  split
  · exact ni_runScriptCmd _ _ _ _ _
  · apply ni_runWith
    intro args cis
    exact ni_special _ (ni_runInner mode c') _ _ _ _ _

theorem ni_cleanupClosed : NI c X cleanupClosed := by
  unfold cleanupClosed; ni

/-- `_process_command`, for any request, on any connection `c'`: it commutes with overwriting the input buffer of
any connection `c` (in particular `c' = c`) -/
theorem ni_processCommand (mode : Mode) (c' : Nat) (fields : List Bytes) :
    NI c X (processCommand mode c' fields) := by
  have hrun := ni_runCommand (c := c) (X := X) mode c'
  have hcl := ni_cleanupClosed (c := c) (X := X)
  unfold processCommand
  ni

end dispatch

/-- `BufIndependent` (the hypothesis of the conditional chunking theorems) holds for every mode and connection -/
theorem bufIndependent (mode : Mode) (c : Nat) : BufIndependent mode c := by
  intro fields X s
  exact ni_processCommand (c := c) (X := X) mode c fields s

/-! ## Chunk-insensitivity of `sendall`, unconditionally -/

section chunks

theorem dead_appendBuf (c : Nat) (b : Bytes) (s : Sys) : (connOf (appendBuf c b s) c).dead = (connOf s c).dead := by
  cases h : findConn s c with
  | none => rw [show appendBuf c b s = s from modifyConn_noconn c _ s h]
  | some x => rw [connOf_appendBuf_some h, connOf_some h]

theorem drain_dead (mode : Mode) (c : Nat) (f : Nat) (s : Sys) (h : (connOf s c).dead = true) :
    (drain mode c f).run s = ((), s) := by
  cases f with
  | zero => rfl
  | succ f => rw [drain_succ, h, Bool.or_true, if_pos rfl]

/-- `sendall a; sendall b = sendall (a ++ b)` for any split, provided the connection is alive after `a` -/
theorem sendall_append (mode : Mode) (c : Nat) (a b : Bytes) (s : Sys)
    (halive : (connOf ((sendall mode c a).run s).2 c).dead = false) :
    (do sendall mode c a; sendall mode c b : M Unit).run s = (sendall mode c (a ++ b)).run s :=
  sendall_append_aux (bufIndependent mode c) a b s halive

/-- a connection that is dead stays dead through `sendall` -/
theorem sendall_dead_stays (mode : Mode) (c : Nat) (a : Bytes) (s : Sys) (h : (connOf s c).dead = true) :
    (connOf ((sendall mode c a).run s).2 c).dead = true := by
  rw [sendall_run, if_pos h]
  exact h

/-- the other case: the connection dies while the first chunk is processed.  The one-shot `sendall` then stops at the
same request and merely leaves the second chunk in the buffer (the chunked one raises on the second write). -/
theorem sendall_append_of_dead (mode : Mode) (c : Nat) (a b : Bytes) (s : Sys)
    (h0 : (connOf s c).dead = false)
    (h1 : (connOf ((sendall mode c a).run s).2 c).dead = true) :
    (sendall mode c (a ++ b)).run s = ((), appendBuf c b ((sendall mode c a).run s).2) := by
  have hd : ¬ ((connOf s c).dead = true) := by rw [h0]; exact Bool.false_ne_true
  rw [sendall_run mode c a, if_neg hd] at h1 ⊢
  rw [sendall_run mode c (a ++ b), if_neg hd, ← appendBuf_appendBuf]
  have hle := buf_appendBuf_le c a s
  rw [drain_append (bufIndependent mode c) b ((connOf s c).buf.length + a.length + 1) (appendBuf c a s)
    ((connOf s c).buf.length + (a ++ b).length + 1)
    ((connOf ((drain mode c ((connOf s c).buf.length + a.length + 1)).run (appendBuf c a s)).2 c).buf.length
      + b.length + 1)
    (by omega) (by simp only [List.length_append]; omega) (by omega)]
  exact drain_dead mode c _ _ (by rw [dead_appendBuf]; exact h1)

/-- if the one-shot `sendall (a ++ b)` leaves the connection alive, it was alive after `a` -/
theorem alive_prefix (mode : Mode) (c : Nat) (a b : Bytes) (s : Sys)
    (h : (connOf ((sendall mode c (a ++ b)).run s).2 c).dead = false) :
    (connOf ((sendall mode c a).run s).2 c).dead = false := by
  cases h0 : (connOf s c).dead with
  | true => rw [sendall_dead_stays mode c (a ++ b) s h0] at h; cases h
  | false =>
    cases h1 : (connOf ((sendall mode c a).run s).2 c).dead with
    | false => rfl
    | true =>
      rw [sendall_append_of_dead mode c a b s h0 h1, dead_appendBuf, h1] at h
      cases h

/-- sending the chunks one after the other -/
def sendChunks (mode : Mode) (c : Nat) (cs : List Bytes) : M Unit := cs.forM (sendall mode c)

theorem sendChunks_cons (mode : Mode) (c : Nat) (a : Bytes) (cs : List Bytes) (s : Sys) :
    (sendChunks mode c (a :: cs)).run s = (sendChunks mode c cs).run ((sendall mode c a).run s).2 := rfl

theorem sendChunks_single (mode : Mode) (c : Nat) (a : Bytes) (s : Sys) :
    (sendChunks mode c [a]).run s = (sendall mode c a).run s := rfl

/-- the connection is alive after every chunk but (possibly) the last -/
def AliveThrough (mode : Mode) (c : Nat) : List Bytes → Sys → Prop
  | [], _ => True
  | [_], _ => True
  | a :: b :: rest, s =>
    (connOf ((sendall mode c a).run s).2 c).dead = false ∧
      AliveThrough mode c (b :: rest) ((sendall mode c a).run s).2

theorem sendChunks_eq (mode : Mode) (c : Nat) (cs : List Bytes) (hne : cs ≠ []) (s : Sys)
    (h : AliveThrough mode c cs s) :
    (sendChunks mode c cs).run s = (sendall mode c cs.flatten).run s := by
  induction cs generalizing s with
  | nil => exact absurd rfl hne
  | cons a rest ih =>
    cases rest with
    | nil => rw [sendChunks_single]; simp only [List.flatten_cons, List.flatten_nil, List.append_nil]
    | cons b rest =>
      obtain ⟨h1, h2⟩ := h
      rw [sendChunks_cons, ih (by simp) _ h2, List.flatten_cons (l := a), ← sendall_append mode c a _ s h1]
      rfl

/-- if the one-shot send of the whole stream leaves the connection alive, it is alive after every chunk -/
theorem aliveThrough_of_final (mode : Mode) (c : Nat) (cs : List Bytes) (s : Sys)
    (h : (connOf ((sendall mode c cs.flatten).run s).2 c).dead = false) : AliveThrough mode c cs s := by
  induction cs generalizing s with
  | nil => trivial
  | cons a rest ih =>
    cases rest with
    | nil => trivial
    | cons b rest =>
      rw [List.flatten_cons] at h
      have h1 := alive_prefix mode c a _ s h
      refine ⟨h1, ih _ ?_⟩
      have := sendall_append mode c a (b :: rest).flatten s h1
      rw [← this] at h
      exact h

end chunks

end FR.BufIndep
