import FR.Proofs.PubSubHist
import FR.Proofs.C04kHist
/-!
# C04, "in request order" - helper lemmas

`Grows o0 s`: the reply list of `s` is `o0` with something pushed on top.  The invariant only depends on the pub/sub
`view` of a state (`PubSubHist.Frame`), so the generic tower of `FR/Proofs/PubSubHist.lean` pushes it through
`_process_command`, the parser loop, `sendall`, and the wake-up / time-out events - for EVERY request, mode, state.
-/
namespace FR.C04o
open FR FR.M FR.PubSubHist

/-- the reply list of `s` extends `o0` (newest first: `o0` is a suffix) -/
def Grows (o0 : List (Nat × Reply)) (s : Sys) : Prop := ∃ pre, s.out = pre ++ o0

variable {o0 : List (Nat × Reply)}

theorem Grows.refl (s : Sys) : Grows s.out s := ⟨[], rfl⟩

theorem Grows.of_out_eq {s s' : Sys} (h : Grows o0 s) (e : s'.out = s.out) : Grows o0 s' := by
  obtain ⟨pre, hp⟩ := h; exact ⟨pre, e.trans hp⟩

instance : Frame (Grows o0) where
  frame _ _ e h := h.of_out_eq (congrArg View.out e)

theorem gr_emit (c : Nat) (r : Reply) : Pres (Grows o0) (emit c r) := by
  intro s h
  rw [emit_run]
  obtain ⟨pre, hp⟩ := h
  unfold Sys.emitS
  split
  · exact ⟨pre, hp⟩
  · exact ⟨(c, r) :: pre, by simp [hp]⟩

theorem gr_publish (ch msg : Bytes) : Pres (Grows o0) (publish ch msg) := by
  intro s h
  obtain ⟨pre, hp⟩ := h
  rw [publish_run]
  exact ⟨((deliveries s.srv ch msg).filter fun d => !(s.conn d.1).closed).reverse ++ pre, by simp [hp]⟩

theorem gr_modify (g : Sys → Sys) (h : ∀ s, (g s).out = s.out) : Pres (Grows o0) (modify g) :=
  fun s hs => hs.of_out_eq (h s)

theorem gr_modifyConn (c : Nat) (f : Conn → Conn) : Pres (Grows o0) (modifyConn c f) :=
  fun _ hs => hs.of_out_eq rfl

local macro_rules | `(tactic| pres_leaf) => `(tactic| first
  | with_reducible exact gr_modifyConn _ _
  | ((with_reducible refine gr_modify _ ?_); first | exact fun _ => rfl | (intro _; split <;> rfl)))

theorem gr_subscribeGen (c : Nat) (p : Bool) (names : List Bytes) : Pres (Grows o0) (subscribeGen c p names) := by
  have hemit := gr_emit (o0 := o0) c
  unfold subscribeGen; pres

theorem gr_unsubscribeGen (c : Nat) (p : Bool) (names : List Bytes) : Pres (Grows o0) (unsubscribeGen c p names) := by
  have hemit := gr_emit (o0 := o0) c
  unfold unsubscribeGen; pres

theorem gr_hyps (c : Nat) : Hyps (Grows o0) c :=
  ⟨gr_emit c, gr_publish, gr_subscribeGen c, gr_unsubscribeGen c⟩

theorem gr_clean : Pres (Grows o0) cleanupClosed :=
  fun s h => h.of_out_eq (FR.ErrSys.cleanupClosed_out s)

/-- **`_process_command` only prepends to the reply list** - any mode, connection, request, state -/
theorem processCommand_grows (mode : Mode) (c : Nat) (fields : List Bytes) :
    Pres (Grows o0) (processCommand mode c fields) := processCommand_pres (gr_hyps c) gr_clean mode fields

theorem drain_grows (mode : Mode) (c : Nat) (fuel : Nat) : Pres (Grows o0) (drain mode c fuel) :=
  drain_pres (gr_hyps c) gr_clean mode fuel

theorem sendall_grows (mode : Mode) (c : Nat) (data : Bytes) : Pres (Grows o0) (sendall mode c data) :=
  sendall_pres (gr_hyps c) gr_clean mode data

theorem sendallGuarded_grows (mode : Mode) (c : Nat) (data : Bytes) : Pres (Grows o0) (sendallGuarded mode c data) :=
  sendallGuarded_pres (gr_hyps c) gr_clean mode data

theorem wakeConn_grows (c : Nat) : Pres (Grows o0) (wakeConn c) := wakeConn_pres (gr_emit c)
theorem timeoutConn_grows (c : Nat) : Pres (Grows o0) (timeoutConn c) := timeoutConn_pres (gr_emit c)

theorem wakeConnAsync_grows (mode : Mode) (c : Nat) : Pres (Grows o0) (wakeConnAsync mode c) :=
  wakeConnAsync_pres (gr_hyps c) gr_clean mode

theorem timeoutConnAsync_grows (mode : Mode) (c : Nat) : Pres (Grows o0) (timeoutConnAsync mode c) :=
  timeoutConnAsync_pres (gr_hyps c) gr_clean mode

theorem openConn_out (c : Nat) (s : Sys) : (openConn c s).2.out = s.out := rfl
theorem gcConn_out (c : Nat) (s : Sys) : (gcConn c s).2.out = s.out := rfl
theorem closeConn_out (c : Nat) (s : Sys) : (closeConn c s).2.out = s.out := rfl


/-! ## a registered connection stays registered -/

/-- connection `c0` is registered -/
def Has (c0 : Nat) (s : Sys) : Prop := s.HasConn c0

variable {c0 : Nat}

theorem hasConn_of_view (c0 : Nat) (s : Sys) : s.HasConn c0 ↔ c0 ∈ (view s).conns.map (·.1) := by
  unfold Sys.HasConn view ckey
  simp only [List.map_map, List.mem_map, Function.comp]

instance : Frame (Has c0) where
  frame s s' e h := by
    unfold Has at *
    rw [hasConn_of_view] at *
    rw [e]; exact h

theorem Has.of_conns {s s' : Sys} (h : Has c0 s) (e : s'.srv.conns = s.srv.conns) : Has c0 s' := by
  unfold Has Sys.HasConn at *; rw [e]; exact h

theorem has_emit (c : Nat) (r : Reply) : Pres (Has c0) (emit c r) := by
  intro s h
  rw [emit_run]
  exact h.of_conns (by rw [Sys.emitS_srv])

theorem has_publish (ch msg : Bytes) : Pres (Has c0) (publish ch msg) := by
  intro s h
  rw [publish_run]
  exact h.of_conns rfl

theorem has_modify (g : Sys → Sys) (h : ∀ s, (g s).srv.conns = s.srv.conns) : Pres (Has c0) (modify g) :=
  fun s hs => hs.of_conns (h s)

theorem has_modifyConn (c : Nat) (f : Conn → Conn) (hf : ∀ x, (f x).id = x.id) : Pres (Has c0) (modifyConn c f) := by
  intro s hs
  rw [modifyConn_run]
  exact (Sys.hasConn_updConn f hf).2 hs

local macro_rules | `(tactic| pres_leaf) => `(tactic| first
  | ((with_reducible refine has_modifyConn _ _ ?_); exact fun _ => rfl)
  | ((with_reducible refine has_modify _ ?_); first | exact fun _ => rfl | (intro _; split <;> rfl)))

theorem has_subscribeGen (c : Nat) (p : Bool) (names : List Bytes) : Pres (Has c0) (subscribeGen c p names) := by
  have hemit := has_emit (c0 := c0) c
  unfold subscribeGen; pres

theorem has_unsubscribeGen (c : Nat) (p : Bool) (names : List Bytes) : Pres (Has c0) (unsubscribeGen c p names) := by
  have hemit := has_emit (c0 := c0) c
  unfold unsubscribeGen; pres

theorem has_hyps (c : Nat) : Hyps (Has c0) c :=
  ⟨has_emit c, has_publish, has_subscribeGen c, has_unsubscribeGen c⟩

theorem has_clean : Pres (Has c0) cleanupClosed :=
  fun s h => (cleanupClosed_hasConn s c0).2 h

/-- **`_process_command` never un-registers a connection** - any mode, request, state, connections `c`, `c0` -/
theorem processCommand_hasConn (mode : Mode) (c : Nat) (fields : List Bytes) (s : Sys) (c0 : Nat) (h : s.HasConn c0) :
    (processCommand mode c fields s).2.HasConn c0 :=
  processCommand_pres (I := Has c0) (has_hyps c) has_clean mode fields s h

/-! ## lists: the replies of one connection, oldest first -/

/-- the replies sent to connection `c`, oldest first -/
def repliesOf (c : Nat) (out : List (Nat × Reply)) : List Reply := ((out.filter (·.1 == c)).reverse).map (·.2)

theorem repliesOf_append (c : Nat) (a b : List (Nat × Reply)) :
    repliesOf c (a ++ b) = repliesOf c b ++ repliesOf c a := by
  unfold repliesOf
  rw [List.filter_append, List.reverse_append, List.map_append]

theorem repliesOf_nil (c : Nat) : repliesOf c [] = [] := rfl

theorem repliesOf_cons_self (c : Nat) (r : Reply) (l : List (Nat × Reply)) :
    repliesOf c ((c, r) :: l) = repliesOf c l ++ [r] := by
  unfold repliesOf
  simp

theorem repliesOf_all (c : Nat) (l : List (Nat × Reply)) (h : ∀ a ∈ l, a.1 = c) :
    (repliesOf c l).length = l.length := by
  unfold repliesOf
  rw [List.length_map, List.length_reverse, List.filter_eq_self.2 (fun a ha => by simp [h a ha])]

end FR.C04o
