import FR.Proofs.StrKeys
import FR.Proofs.Lists
import FR.Proofs.Lrem
import FR.Proofs.HashSetAlg
/-!
# Lists: refinement of the list command bodies (run through the generic runner with their real signatures)
to abstract lists on the key space — helper lemmas for `FR.Props.C02l`

Part 1: vocabulary (`listView`, `putList`).  Part 2: the generic single-key evaluation of `runL`.
Part 3: `Signature.apply` for the signature shapes of the list commands.  Part 4: pure list algebra.
Part 5: one `*_runL` lemma per command, for ALL raw argument lists (arity and conversion errors included).
-/
namespace FR.ListKeys
open FR FR.StrKeys FR.Spec FR.Proofs
set_option linter.unusedSimpArgs false
set_option linter.unusedVariables false

abbrev Live := Bytes → Option Item

/-! ## Part 1: vocabulary -/

/-- what a list command sees at `k`: the stored list and its deadline; the EMPTY list without deadline for a
missing key; `none` when the key holds another type -/
def listView (live : Live) (k : Bytes) : Option (List Bytes × Option Int) :=
  match live k with
  | none => some ([], none)
  | some it =>
    match it.value with
    | .list l => some (l, it.expireat)
    | _ => none

/-- `k` now holds the list `l` with deadline `e`; the key is DELETED when `l` is empty -/
def putList (live : Live) (k : Bytes) (l : List Bytes) (e : Option Int) : Live :=
  upd live k (if l = [] then none else some ⟨.list l, e⟩)

theorem putList_self (live : Live) (k : Bytes) (l : List Bytes) (e : Option Int) :
    putList live k l e k = if l = [] then none else some ⟨.list l, e⟩ := by
  simp [putList]

theorem putList_ne (live : Live) {k k' : Bytes} (l : List Bytes) (e : Option Int) (h : k' ≠ k) :
    putList live k l e k' = live k' := by
  simp [putList, upd, h]

theorem listView_missing {live : Live} {k : Bytes} (h : live k = none) : listView live k = some ([], none) := by
  simp [listView, h]

theorem listView_list {live : Live} {k : Bytes} {l : List Bytes} {e : Option Int}
    (h : live k = some ⟨.list l, e⟩) : listView live k = some (l, e) := by
  simp [listView, h]

/-- under the invariant "no stored empty collection" the empty view is exactly the missing key -/
theorem listView_nil_iff {time : Int} {live : Live} (ok : LiveOK time live) (k : Bytes) (e : Option Int) :
    listView live k = some ([], e) ↔ live k = none ∧ e = none := by
  unfold listView
  cases h : live k with
  | none => simp; exact eq_comm
  | some it =>
    obtain ⟨v, e'⟩ := it
    have hn := ok.nonempty k _ h
    cases v <;> simp [Value.isEmptyColl] at hn ⊢
    intro hl; exact absurd hl hn

theorem listView_ne_nil {time : Int} {live : Live} (ok : LiveOK time live) {k : Bytes} {l : List Bytes}
    {e : Option Int} (hv : listView live k = some (l, e)) (hl : (live k).isSome = true) : l ≠ [] := by
  intro h; subst h
  have := ((listView_nil_iff ok k e).1 hv).1
  rw [this] at hl; cases hl

/-- writing back what is there changes nothing -/
theorem putList_view {time : Int} {live : Live} (ok : LiveOK time live) {k : Bytes} {l : List Bytes}
    {e : Option Int} (hv : listView live k = some (l, e)) : putList live k l e = live := by
  funext k'
  unfold putList upd
  by_cases hk : k' = k
  · subst hk
    simp only [if_true]
    unfold listView at hv
    cases h : live k' with
    | none =>
      rw [h] at hv
      simp only [Option.some.injEq, Prod.mk.injEq] at hv
      rw [← hv.1]; rfl
    | some it =>
      obtain ⟨v, e'⟩ := it
      rw [h] at hv
      have hn := ok.nonempty k' _ h
      cases v <;> simp [Value.isEmptyColl] at hv hn
      obtain ⟨rfl, rfl⟩ := hv
      simp [hn]
  · simp [hk]

theorem putList_putList (live : Live) (k : Bytes) (l l' : List Bytes) (e e' : Option Int) :
    putList (putList live k l e) k l' e' = putList live k l' e' := by
  funext k'
  unfold putList upd
  by_cases hk : k' = k <;> simp [hk]

theorem listView_putList_self (live : Live) (k : Bytes) (l : List Bytes) (e : Option Int) :
    listView (putList live k l e) k = some (l, if l = [] then none else e) := by
  unfold listView
  rw [putList_self]
  by_cases hl : l = [] <;> simp [hl]

theorem listView_putList_ne (live : Live) {k k' : Bytes} (l : List Bytes) (e : Option Int) (h : k' ≠ k) :
    listView (putList live k l e) k' = listView live k' := by
  unfold listView
  rw [putList_ne _ _ _ h]

def errR (m : Err) : Reply := .err (strBytes m)

/-- the arity error of the command `name` -/
def arityErr (name : String) : Reply := errR (Msgs.fmt1 Msgs.WRONG_ARGS_MSG name)

/-! ## Part 2: generic evaluation on one typed list key -/

/-- the result of `Signature.apply` for ONE list key (first argument) and converted arguments `args`;
`short = true` for `Key(list, None)`: a missing key is answered nil at once -/
def listApplied (short : Bool) (live : Live) (k : Bytes) (args : List Arg) : Except Err Sig.Applied :=
  match live k with
  | none => if short then .ok (.short .nil) else .ok (.ok args [⟨k, some (.list []), none, false, false⟩])
  | some it =>
    if it.value.ty = .list then .ok (.ok args [⟨k, some it.value, it.expireat, false, false⟩])
    else .error Msgs.WRONGTYPE_MSG

/-- the `CommandItem` of a list key -/
def lci (k : Bytes) (l : List Bytes) (e : Option Int) : CI := ⟨k, some (.list l), e, false, false⟩

theorem listKey_runL (sig : Sig) (body : Body) (ctx : Ctx) (time : Int) (live : Live)
    (ok : LiveOK time live) (k : Bytes) (raw : List Bytes) (args : List Arg)
    (hap : applyL sig raw live = listApplied false live k args)
    (G : List Bytes → Option Int → Reply × Live)
    (hfin : ∀ (l : List Bytes) (e : Option Int), expiredAt time e = false → listView live k = some (l, e) →
      fin time live (body ctx args [lci k l e]) = G l e) :
    runL sig body ctx raw time live =
      match listView live k with
      | none => (wrongtype, live)
      | some (l, e) => G l e := by
  rw [runL_eq, hap]
  unfold listApplied
  cases h : live k with
  | none =>
    rw [listView_missing h]
    exact hfin [] none rfl (listView_missing h)
  | some it =>
    obtain ⟨v, e⟩ := it
    cases v with
    | list l =>
      rw [listView_list h]
      simp only [Value.ty, if_true]
      exact hfin l e (ok.fresh k _ h) (listView_list h)
    | _ => simp [Value.ty, wrongtype, listView, h]

/-- the same for `Key(list, None)` -/
theorem listKeyShort_runL (sig : Sig) (body : Body) (ctx : Ctx) (time : Int) (live : Live)
    (ok : LiveOK time live) (k : Bytes) (raw : List Bytes) (args : List Arg)
    (hap : applyL sig raw live = listApplied true live k args)
    (G : List Bytes → Option Int → Reply × Live)
    (hfin : ∀ (l : List Bytes) (e : Option Int), expiredAt time e = false → listView live k = some (l, e) →
      l ≠ [] → fin time live (body ctx args [lci k l e]) = G l e) :
    runL sig body ctx raw time live =
      match live k with
      | none => (.nil, live)
      | some _ =>
        match listView live k with
        | none => (wrongtype, live)
        | some (l, e) => G l e := by
  rw [runL_eq, hap]
  unfold listApplied
  cases h : live k with
  | none => rfl
  | some it =>
    obtain ⟨v, e⟩ := it
    cases v with
    | list l =>
      rw [listView_list h]
      simp only [Value.ty, if_true]
      exact hfin l e (ok.fresh k _ h) (listView_list h)
        (listView_ne_nil ok (listView_list h) (by rw [h]; rfl))
    | _ => simp [Value.ty, wrongtype, listView, h]

/-- a read: the item is handed back untouched -/
theorem fin_read (time : Int) (live : Live) (r : Reply) (c : CI) (hc : c.modified = false) :
    fin time live (ret r [c]) = (r, live) := by
  simp [ret, wbL, hc]

/-- a write of the list `l'` under the old deadline -/
theorem fin_write (time : Int) (live : Live) (r : Reply) (k : Bytes) (l' : List Bytes) (e : Option Int)
    (x : Bool) (he : expiredAt time e = false) :
    fin time live (ret r [⟨k, some (.list l'), e, true, x⟩]) = (r, putList live k l' e) := by
  by_cases hl : l' = []
  · subst hl; simp [ret, wbL, itemOfCI, Value.isEmptyColl, putList]
  · have : l'.isEmpty = false := by simpa using hl
    simp [ret, wbL, itemOfCI, Value.isEmptyColl, putList, hl, he, this]

theorem setList_lci (k : Bytes) (l l' : List Bytes) (e : Option Int) :
    Cmd.setList [lci k l e] 0 l' = [⟨k, some (.list l'), e, true, false⟩] := rfl

theorem listOf_lci (k : Bytes) (l : List Bytes) (e : Option Int) : Cmd.listOf (ciAt [lci k l e] 0) = l := rfl

theorem truthy_lci (k : Bytes) (l : List Bytes) (e : Option Int) : (ciAt [lci k l e] 0).truthy = !l.isEmpty := rfl

/-! ## Part 3: `Signature.apply` for the signature shapes of the list commands -/

def KL : ArgTy := .key (some .list) .unspecified
def KLn : ArgTy := .key (some .list) .nil

syntax "apply_simp" "[" Lean.Parser.Tactic.simpLemma,* "]" : tactic
macro_rules
  | `(tactic| apply_simp [$ts,*]) =>
    `(tactic| simp [applyL, listApplied, KL, KLn, K, Sig.checkArity, Sig.types, pass1L, pass2L, Conv.decode,
        Ty.default, Except.map, Sig.missingReply, $ts,*])

/-- a fixed-arity signature refuses every other number of arguments -/
theorem applyL_arity_fixed (s : Sig) (raw : List Bytes) (live : Live) (hrep : s.rep = [])
    (hn : raw.length ≠ s.fixed.length) : applyL s raw live = .error s.wrongArgs := by
  unfold applyL Sig.checkArity
  simp [hrep, hn]

theorem runL_arity_fixed (s : Sig) (body : Body) (ctx : Ctx) (raw : List Bytes) (time : Int) (live : Live)
    (hrep : s.rep = []) (hn : raw.length ≠ s.fixed.length) :
    runL s body ctx raw time live = (errR s.wrongArgs, live) := by
  rw [runL_eq, applyL_arity_fixed s raw live hrep hn]; rfl

/-- a variadic signature refuses fewer arguments than its fixed part -/
theorem runL_arity_short (s : Sig) (body : Body) (ctx : Ctx) (raw : List Bytes) (time : Int) (live : Live)
    (hn : raw.length < s.fixed.length) :
    runL s body ctx raw time live = (errR s.wrongArgs, live) := by
  rw [runL_eq]
  have : applyL s raw live = .error s.wrongArgs := by
    unfold applyL Sig.checkArity
    have h1 : (raw.length != s.fixed.length) = true := by simp; omega
    simp [h1, hn]
  rw [this]; rfl

theorem applyL_KL (n : String) (ns : Bool) (a b : Nat) (c : Bool) (k : Bytes) (live : Live) :
    applyL ⟨n, [KL], [], ns, a, b, c⟩ [k] live = listApplied false live k [.key 0] := by
  cases h : live k with
  | none => apply_simp [h]
  | some it => by_cases ht : it.value.ty = .list <;> apply_simp [h, ht]

theorem applyL_KL_bytes3 (n : String) (ns : Bool) (a b : Nat) (c : Bool) (k x y z : Bytes) (live : Live) :
    applyL ⟨n, [KL, .bytes, .bytes, .bytes], [], ns, a, b, c⟩ [k, x, y, z] live =
      listApplied false live k [.key 0, .raw x, .raw y, .raw z] := by
  cases h : live k with
  | none => apply_simp [h]
  | some it => by_cases ht : it.value.ty = .list <;> apply_simp [h, ht]

theorem applyL_KL_int_int (n : String) (ns : Bool) (a b : Nat) (c : Bool) (k sb eb : Bytes) (s e : Int)
    (hs : Conv.int sb = .ok s) (he : Conv.int eb = .ok e) (live : Live) :
    applyL ⟨n, [KL, .int, .int], [], ns, a, b, c⟩ [k, sb, eb] live =
      listApplied false live k [.key 0, .int s, .int e] := by
  cases h : live k with
  | none => apply_simp [h, hs, he]
  | some it => by_cases ht : it.value.ty = .list <;> apply_simp [h, ht, hs, he]

theorem applyL_KL_int_int_err1 (n : String) (ns : Bool) (a b : Nat) (c : Bool) (k sb eb : Bytes) (m : Err)
    (hs : Conv.int sb = .error m) (live : Live) :
    applyL ⟨n, [KL, .int, .int], [], ns, a, b, c⟩ [k, sb, eb] live = .error m := by
  apply_simp [hs]

theorem applyL_KL_int_int_err2 (n : String) (ns : Bool) (a b : Nat) (c : Bool) (k sb eb : Bytes) (s : Int) (m : Err)
    (hs : Conv.int sb = .ok s) (he : Conv.int eb = .error m) (live : Live) :
    applyL ⟨n, [KL, .int, .int], [], ns, a, b, c⟩ [k, sb, eb] live = .error m := by
  apply_simp [hs, he]

theorem applyL_KL_int_bytes (n : String) (ns : Bool) (a b : Nat) (c : Bool) (k ib v : Bytes) (i : Int)
    (hi : Conv.int ib = .ok i) (live : Live) :
    applyL ⟨n, [KL, .int, .bytes], [], ns, a, b, c⟩ [k, ib, v] live =
      listApplied false live k [.key 0, .int i, .raw v] := by
  cases h : live k with
  | none => apply_simp [h, hi]
  | some it => by_cases ht : it.value.ty = .list <;> apply_simp [h, ht, hi]

theorem applyL_KL_int_bytes_err (n : String) (ns : Bool) (a b : Nat) (c : Bool) (k ib v : Bytes) (m : Err)
    (hi : Conv.int ib = .error m) (live : Live) :
    applyL ⟨n, [KL, .int, .bytes], [], ns, a, b, c⟩ [k, ib, v] live = .error m := by
  apply_simp [hi]

/-- `Key(list, None), Int`: the missing key is answered before the integer is even converted -/
theorem applyL_KLn_int (n : String) (ns : Bool) (a b : Nat) (c : Bool) (k ib : Bytes) (live : Live) :
    applyL ⟨n, [KLn, .int], [], ns, a, b, c⟩ [k, ib] live =
      match live k with
      | none => .ok (.short .nil)
      | some _ =>
        match Conv.int ib with
        | .error m => .error m
        | .ok i => listApplied true live k [.key 0, .int i] := by
  cases h : live k with
  | none => apply_simp [h]
  | some it =>
    cases hi : Conv.int ib with
    | error m => apply_simp [h, hi]
    | ok i => by_cases ht : it.value.ty = .list <;> apply_simp [h, ht, hi]

/-- `Key(list), bytes, *bytes` (the push family) -/
theorem applyL_push (n : String) (ns : Bool) (a b : Nat) (c : Bool) (k v : Bytes) (vs : List Bytes) (live : Live) :
    applyL ⟨n, [KL, .bytes], [.bytes], ns, a, b, c⟩ (k :: v :: vs) live =
      listApplied false live k (.key 0 :: .raw v :: vs.map .raw) := by
  have ht : (⟨n, [KL, .bytes], [.bytes], ns, a, b, c⟩ : Sig).types (k :: v :: vs).length =
      KL :: .bytes :: List.replicate vs.length ArgTy.bytes := by
    simp [Sig.types, Nat.mod_one, map_const_range]
  unfold applyL
  rw [ht]
  have h1 : (⟨n, [KL, .bytes], [.bytes], ns, a, b, c⟩ : Sig).checkArity (k :: v :: vs).length = true := by
    simp [Sig.checkArity]
  have h2 : (!(⟨n, [KL, .bytes], [.bytes], ns, a, b, c⟩ : Sig).rep.isEmpty &&
      ((k :: v :: vs).length - (⟨n, [KL, .bytes], [.bytes], ns, a, b, c⟩ : Sig).fixed.length) %
        (⟨n, [KL, .bytes], [.bytes], ns, a, b, c⟩ : Sig).rep.length != 0) = false := by
    simp [Nat.mod_one]
  simp only [h1, h2, Bool.not_true, Bool.false_eq_true, if_false]
  cases h : live k with
  | none =>
    simp [pass1L, pass2L, KL, Conv.decode, pass1L_bytes_tail, pass2L_bytes_tail, h, listApplied, Ty.default]
  | some it =>
    by_cases hty : it.value.ty = .list <;>
      simp [pass1L, pass2L, KL, Conv.decode, pass1L_bytes_tail, pass2L_bytes_tail, h, hty, listApplied]

/-! ### `Key(), *Int` (LPOP / RPOP) -/

/-- convert a list of integers from left to right; the first failure wins -/
def decodeInts : List Bytes → Except Err (List Int)
  | [] => .ok []
  | b :: bs =>
    match Conv.int b with
    | .error m => .error m
    | .ok n =>
      match decodeInts bs with
      | .error m => .error m
      | .ok ns => .ok (n :: ns)

theorem decodeInts_length {bs : List Bytes} {ns : List Int} (h : decodeInts bs = .ok ns) : ns.length = bs.length := by
  induction bs generalizing ns with
  | nil => simp [decodeInts] at h; subst h; rfl
  | cons b bs ih =>
    unfold decodeInts at h
    cases hb : Conv.int b with
    | error m => rw [hb] at h; cases h
    | ok n =>
      rw [hb] at h
      cases hr : decodeInts bs with
      | error m => rw [hr] at h; cases h
      | ok ms =>
        rw [hr] at h
        simp only [Except.ok.injEq] at h
        subst h
        simp [ih hr]

theorem pass1L_ints (live : Live) (bs : List Bytes) (acc : List Arg) :
    pass1L live (bs.zip (List.replicate bs.length ArgTy.int)) acc =
      match decodeInts bs with
      | .error m => .error m
      | .ok ns => .ok (.inr (acc.reverse ++ ns.map .int)) := by
  induction bs generalizing acc with
  | nil => simp [pass1L, decodeInts]
  | cons b bs ih =>
    simp only [List.length_cons, List.replicate_succ, List.zip_cons_cons, pass1L, Conv.decode, decodeInts]
    cases hb : Conv.int b with
    | error m => simp [Except.map]
    | ok n =>
      simp only [Except.map]
      rw [ih]
      cases decodeInts bs with
      | error m => rfl
      | ok ns => simp

theorem pass2L_ints (live : Live) (ns : List Int) (accA : List Arg) (accC : List CI) :
    pass2L live ((ns.map Arg.int).zip (List.replicate ns.length ArgTy.int)) accA accC =
      .ok (accA.reverse ++ ns.map .int, accC.reverse) := by
  induction ns generalizing accA with
  | nil => simp [pass2L]
  | cons n ns ih =>
    simp only [List.map_cons, List.length_cons, List.replicate_succ, List.zip_cons_cons, pass2L]
    rw [ih]; simp

theorem applyL_pop (n : String) (ns : Bool) (a b : Nat) (c : Bool) (k : Bytes) (rest : List Bytes) (live : Live) :
    applyL ⟨n, [K], [.int], ns, a, b, c⟩ (k :: rest) live =
      match decodeInts rest with
      | .error m => .error m
      | .ok cs => .ok (.ok (.key 0 :: cs.map .int) [ciA live k]) := by
  have ht : (⟨n, [K], [.int], ns, a, b, c⟩ : Sig).types (k :: rest).length =
      K :: List.replicate rest.length ArgTy.int := by
    simp [Sig.types, Nat.mod_one, map_const_range]
  unfold applyL
  rw [ht]
  have h1 : (⟨n, [K], [.int], ns, a, b, c⟩ : Sig).checkArity (k :: rest).length = true := by
    simp [Sig.checkArity]
  have h2 : (!(⟨n, [K], [.int], ns, a, b, c⟩ : Sig).rep.isEmpty &&
      ((k :: rest).length - (⟨n, [K], [.int], ns, a, b, c⟩ : Sig).fixed.length) %
        (⟨n, [K], [.int], ns, a, b, c⟩ : Sig).rep.length != 0) = false := by
    simp [Nat.mod_one]
  simp only [h1, h2, Bool.not_true, Bool.false_eq_true, if_false]
  simp only [List.zip_cons_cons, pass1L, K, bne_self_eq_false, Bool.false_eq_true, if_false]
  rw [pass1L_ints]
  cases hd : decodeInts rest with
  | error m => rfl
  | ok cs =>
    simp only [List.reverse_cons, List.reverse_nil, List.nil_append, List.singleton_append, List.zip_cons_cons]
    have hl := decodeInts_length hd
    rw [← hl]
    cases h : live k <;> simp [pass2L, pass2L_ints, ciA, h]

/-! ### two list keys (RPOPLPUSH, LMOVE) -/

/-- the result of `Signature.apply` for `Key(list, None), Key(list), …` -/
def moveApplied (live : Live) (s d : Bytes) (tail : List Arg) : Except Err Sig.Applied :=
  match live s with
  | none => .ok (.short .nil)
  | some its =>
    if its.value.ty = .list then
      match live d with
      | none => .ok (.ok (.key 0 :: .key 1 :: tail)
          [⟨s, some its.value, its.expireat, false, false⟩, ⟨d, some (.list []), none, false, false⟩])
      | some itd =>
        if itd.value.ty = .list then
          .ok (.ok (.key 0 :: .key 1 :: tail)
            [⟨s, some its.value, its.expireat, false, false⟩, ⟨d, some itd.value, itd.expireat, false, false⟩])
        else .error Msgs.WRONGTYPE_MSG
    else .error Msgs.WRONGTYPE_MSG

theorem applyL_KLn_KL (n : String) (ns : Bool) (a b : Nat) (c : Bool) (s d : Bytes) (live : Live) :
    applyL ⟨n, [KLn, KL], [], ns, a, b, c⟩ [s, d] live = moveApplied live s d [] := by
  unfold moveApplied
  cases hs : live s with
  | none => apply_simp [hs]
  | some its =>
    by_cases hts : its.value.ty = .list
    · cases hd : live d with
      | none => apply_simp [hs, hts, hd]
      | some itd => by_cases htd : itd.value.ty = .list <;> apply_simp [hs, hts, hd, htd]
    · apply_simp [hs, hts]

theorem applyL_KLn_KL_ss (n : String) (ns : Bool) (a b : Nat) (c : Bool) (s d x y : Bytes) (live : Live) :
    applyL ⟨n, [KLn, KL, .sstr, .sstr], [], ns, a, b, c⟩ [s, d, x, y] live =
      moveApplied live s d [.raw x, .raw y] := by
  unfold moveApplied
  cases hs : live s with
  | none => apply_simp [hs]
  | some its =>
    by_cases hts : its.value.ty = .list
    · cases hd : live d with
      | none => apply_simp [hs, hts, hd]
      | some itd => by_cases htd : itd.value.ty = .list <;> apply_simp [hs, hts, hd, htd]
    · apply_simp [hs, hts]

/-! ## Part 4: pure list algebra -/

/-- Redis index normalisation and bounds check: the element at index `i` (negative = from the end) -/
def lindexSpec (l : List Bytes) (i : Int) : Option Bytes :=
  if 0 ≤ norm i l.length then l[(norm i l.length).toNat]? else none

/-- insert `v` BEFORE / AFTER the FIRST occurrence of `pivot`; `none` when there is none -/
def insertSpec (after : Bool) (pivot v : Bytes) : List Bytes → Option (List Bytes)
  | [] => none
  | x :: xs =>
    if x == pivot then some (if after then x :: v :: xs else v :: x :: xs)
    else (insertSpec after pivot v xs).map (x :: ·)

theorem indexOf_go_shift (pivot : Bytes) (l : List Bytes) (n : Nat) :
    Py.indexOf?.go pivot l n = (Py.indexOf?.go pivot l 0).map (· + n) := by
  induction l generalizing n with
  | nil => rfl
  | cons x xs ih =>
    simp only [Py.indexOf?.go]
    split
    · simp
    · rw [ih (n + 1), ih (0 + 1)]
      cases Py.indexOf?.go pivot xs 0 with
      | none => rfl
      | some i => simp; omega

theorem insertSpec_eq (after : Bool) (pivot v : Bytes) (l : List Bytes) :
    insertSpec after pivot v l =
      (Py.indexOf? l pivot).map fun i => Py.insertAt l (if after then i + 1 else i) v := by
  induction l with
  | nil => rfl
  | cons x xs ih =>
    unfold insertSpec Py.indexOf?
    simp only [Py.indexOf?.go]
    by_cases hx : (x == pivot) = true
    · simp only [hx, if_true, Option.map_some]
      cases after <;> simp [Py.insertAt]
    · simp only [hx, Bool.false_eq_true, if_false]
      rw [ih, indexOf_go_shift]
      unfold Py.indexOf?
      cases Py.indexOf?.go pivot xs 0 with
      | none => rfl
      | some i => cases after <;> simp [Py.insertAt]

theorem lrangeSpec_nil (s e : Int) : lrangeSpec ([] : List Bytes) s e = [] := by
  simp [lrangeSpec]

theorem lrangeSpec_sublist (l : List Bytes) (s e : Int) : (lrangeSpec l s e).Sublist l := by
  rw [← ltrim_eq_spec]
  split
  · exact List.drop_sublist _ _
  · exact (List.take_sublist _ _).trans (List.drop_sublist _ _)

theorem lrangeSpec_same_length {l : List Bytes} {s e : Int} (h : (lrangeSpec l s e).length = l.length) :
    lrangeSpec l s e = l :=
  (lrangeSpec_sublist l s e).eq_of_length h

theorem lremKeep_nil (l : List Bytes) : lremKeep l [] = l := by
  unfold lremKeep
  simp only [List.contains_nil, Bool.not_false]
  rw [List.filter_eq_self.2 (fun _ _ => rfl)]
  simp [List.zipIdx_map_fst]

theorem lremRm_length_eq (l : List Bytes) (count : Int) (v : Bytes) :
    (lremRm l count v).length = l.length - (lremSpec l count v).length := by
  have h : (lremKeep l (lremRm l count v)).length = l.length - (lremRm l count v).length :=
    (lrem_count_semantics l count v).2.1
  have hs : ((lremRm l count v).length ≤ l.length) := by
    have := lremKeep_length l (lremRm l count v)
      ((lremRm_sublist l count v).trans (occurrences_sublist l v))
    omega
  rw [← lrem_eq_spec]
  omega

/-! ## Part 5: the commands -/

/-- apply `f` to the list at `k` (the empty list for a missing key); WRONGTYPE for another type -/
def onList (live : Live) (k : Bytes) (f : List Bytes → Option Int → Reply × Live) : Reply × Live :=
  match listView live k with
  | none => (wrongtype, live)
  | some (l, e) => f l e

/-- convert an integer argument; a conversion error is the reply and nothing changes -/
def withInt (live : Live) (b : Bytes) (f : Int → Reply × Live) : Reply × Live :=
  match Conv.int b with
  | .error m => (errR m, live)
  | .ok n => f n

/-! ### LPUSH / RPUSH / LPUSHX / RPUSHX -/

def sigPush (name : String) : Sig := ⟨name, [KL, .bytes], [.bytes], false, 1, 0, true⟩

/-- the list after pushing `vs` one by one at the head / at the tail -/
def pushed (left : Bool) (l vs : List Bytes) : List Bytes := if left then vs.reverse ++ l else l ++ vs

/-- the push family on the key space; `x`: only if the key exists -/
def pushL (left x : Bool) (live : Live) (k : Bytes) (vs : List Bytes) : Reply × Live :=
  onList live k fun l e =>
    if x = true ∧ l = [] then (.int 0, live)
    else (.int (pushed left l vs).length, putList live k (pushed left l vs) e)

def pushBody (left x : Bool) : Body :=
  match left, x with
  | true, false => Cmd.lpush
  | false, false => Cmd.rpush
  | true, true => Cmd.lpushx
  | false, true => Cmd.rpushx

theorem pushBody_eval (left x : Bool) (ctx : Ctx) (k : Bytes) (l : List Bytes) (e : Option Int) (vs : List Bytes) :
    pushBody left x ctx (.key 0 :: vs.map .raw) [lci k l e] =
      if x = true ∧ l = [] then ret (.int 0) [lci k l e]
      else ret (.int (pushed left l vs).length) [⟨k, some (.list (pushed left l vs)), e, true, false⟩] := by
  cases left <;> cases x <;>
    simp [pushBody, Cmd.lpush, Cmd.rpush, Cmd.lpushx, Cmd.rpushx, rawArgs_map_raw, listOf_lci, truthy_lci, setList_lci,
      pushed, Cmd.pushLeft, Cmd.pushRight] <;>
    (by_cases hl : l = [] <;> simp [hl, listOf_lci, setList_lci, rawArgs_map_raw])

/-- LPUSH / RPUSH / LPUSHX / RPUSHX for EVERY argument list -/
def pushCmd (left x : Bool) (name : String) (live : Live) : List Bytes → Reply × Live
  | k :: v :: vs => pushL left x live k (v :: vs)
  | _ => (arityErr name, live)

theorem push_runL (left x : Bool) (name : String) (ctx : Ctx) (time : Int) (live : Live) (ok : LiveOK time live)
    (raw : List Bytes) :
    runL (sigPush name) (pushBody left x) ctx raw time live = pushCmd left x name live raw := by
  match raw with
  | [] => exact runL_arity_short _ _ _ _ _ _ (by simp [sigPush])
  | [k] => exact runL_arity_short _ _ _ _ _ _ (by simp [sigPush])
  | k :: v :: vs =>
    unfold pushCmd pushL onList
    refine listKey_runL (sigPush name) (pushBody left x) ctx time live ok k _ _ (applyL_push ..) _ ?_
    intro l e he hv
    have := pushBody_eval left x ctx k l e (v :: vs)
    simp only [List.map_cons] at this
    rw [this]
    split
    · exact fin_read _ _ _ _ rfl
    · exact fin_write _ _ _ _ _ _ _ he

/-! ### LLEN -/

def sigLlen : Sig := ⟨"llen", [KL], [], false, 1, 0, false⟩

def llenCmd (live : Live) : List Bytes → Reply × Live
  | [k] => onList live k fun l _ => (.int l.length, live)
  | _ => (arityErr "llen", live)

theorem llen_runL (ctx : Ctx) (time : Int) (live : Live) (ok : LiveOK time live) (raw : List Bytes) :
    runL sigLlen Cmd.llen ctx raw time live = llenCmd live raw := by
  match raw with
  | [] => exact runL_arity_fixed _ _ _ _ _ _ rfl (by simp [sigLlen])
  | _ :: _ :: _ => exact runL_arity_fixed _ _ _ _ _ _ rfl (by simp [sigLlen])
  | [k] =>
    unfold llenCmd onList
    refine listKey_runL sigLlen Cmd.llen ctx time live ok k _ _ (applyL_KL ..) _ ?_
    intro l e he hv
    exact fin_read _ _ _ _ rfl

/-! ### LINDEX -/

def sigLindex : Sig := ⟨"lindex", [KLn, .int], [], false, 2, 0, false⟩

/-- LINDEX: a missing key is answered nil BEFORE the index is converted; a conversion error comes before the
type check -/
def lindexCmd (live : Live) : List Bytes → Reply × Live
  | [k, ib] =>
    match live k with
    | none => (.nil, live)
    | some _ => withInt live ib fun i => onList live k fun l _ => (Reply.ofOptBulk (lindexSpec l i), live)
  | _ => (arityErr "lindex", live)

theorem lindex_runL (ctx : Ctx) (time : Int) (live : Live) (ok : LiveOK time live) (raw : List Bytes) :
    runL sigLindex Cmd.lindex ctx raw time live = lindexCmd live raw := by
  match raw with
  | [] => exact runL_arity_fixed _ _ _ _ _ _ rfl (by simp [sigLindex])
  | [_] => exact runL_arity_fixed _ _ _ _ _ _ rfl (by simp [sigLindex])
  | _ :: _ :: _ :: _ => exact runL_arity_fixed _ _ _ _ _ _ rfl (by simp [sigLindex])
  | [k, ib] =>
    simp only [lindexCmd, withInt]
    cases hk : live k with
    | none => rw [runL_eq, sigLindex, applyL_KLn_int, hk]
    | some it =>
      cases hi : Conv.int ib with
      | error m => rw [runL_eq, sigLindex, applyL_KLn_int, hk]; simp only [hi]; rfl
      | ok i =>
        have hap : applyL sigLindex [k, ib] live = listApplied true live k [.key 0, .int i] := by
          rw [sigLindex, applyL_KLn_int, hk]; simp only [hi]
        have := listKeyShort_runL sigLindex Cmd.lindex ctx time live ok k _ _ hap
          (fun l _ => (Reply.ofOptBulk (lindexSpec l i), live)) (by
            intro l e he hv hl
            simp only [Cmd.lindex, listOf_lci, FR.Proofs.lindex_spec]
            exact fin_read _ _ _ _ rfl)
        rw [this, hk]
        rfl

/-! ### LRANGE -/

def sigLrange : Sig := ⟨"lrange", [KL, .int, .int], [], false, 3, 0, false⟩

def lrangeCmd (live : Live) : List Bytes → Reply × Live
  | [k, sb, eb] =>
    withInt live sb fun s => withInt live eb fun e =>
      onList live k fun l _ => (Reply.bulks (lrangeSpec l s e), live)
  | _ => (arityErr "lrange", live)

theorem lrange_runL (ctx : Ctx) (time : Int) (live : Live) (ok : LiveOK time live) (raw : List Bytes) :
    runL sigLrange Cmd.lrange ctx raw time live = lrangeCmd live raw := by
  match raw with
  | [] => exact runL_arity_fixed _ _ _ _ _ _ rfl (by simp [sigLrange])
  | [_] => exact runL_arity_fixed _ _ _ _ _ _ rfl (by simp [sigLrange])
  | [_, _] => exact runL_arity_fixed _ _ _ _ _ _ rfl (by simp [sigLrange])
  | _ :: _ :: _ :: _ :: _ => exact runL_arity_fixed _ _ _ _ _ _ rfl (by simp [sigLrange])
  | [k, sb, eb] =>
    simp only [lrangeCmd, withInt]
    cases hs : Conv.int sb with
    | error m => rw [runL_eq, sigLrange, applyL_KL_int_int_err1 _ _ _ _ _ _ _ _ m hs]; rfl
    | ok s =>
      cases he : Conv.int eb with
      | error m => rw [runL_eq, sigLrange, applyL_KL_int_int_err2 _ _ _ _ _ _ _ _ s m hs he]; rfl
      | ok e =>
        unfold onList
        refine listKey_runL sigLrange Cmd.lrange ctx time live ok k _ _
          (applyL_KL_int_int _ _ _ _ _ _ _ _ s e hs he live) _ ?_
        intro l e' he' hv
        rw [FR.Proofs.lrange_body, listOf_lci]
        exact fin_read _ _ _ _ rfl

/-! ### LTRIM -/

def sigLtrim : Sig := ⟨"ltrim", [KL, .int, .int], [], false, 3, 0, false⟩

/-- LTRIM keeps exactly the LRANGE window (an empty window deletes the key) -/
def ltrimCmd (live : Live) : List Bytes → Reply × Live
  | [k, sb, eb] =>
    withInt live sb fun s => withInt live eb fun e =>
      onList live k fun l exp => (.ok, putList live k (lrangeSpec l s e) exp)
  | _ => (arityErr "ltrim", live)

theorem ltrim_runL (ctx : Ctx) (time : Int) (live : Live) (ok : LiveOK time live) (raw : List Bytes) :
    runL sigLtrim Cmd.ltrim ctx raw time live = ltrimCmd live raw := by
  match raw with
  | [] => exact runL_arity_fixed _ _ _ _ _ _ rfl (by simp [sigLtrim])
  | [_] => exact runL_arity_fixed _ _ _ _ _ _ rfl (by simp [sigLtrim])
  | [_, _] => exact runL_arity_fixed _ _ _ _ _ _ rfl (by simp [sigLtrim])
  | _ :: _ :: _ :: _ :: _ => exact runL_arity_fixed _ _ _ _ _ _ rfl (by simp [sigLtrim])
  | [k, sb, eb] =>
    simp only [ltrimCmd, withInt]
    cases hs : Conv.int sb with
    | error m => rw [runL_eq, sigLtrim, applyL_KL_int_int_err1 _ _ _ _ _ _ _ _ m hs]; rfl
    | ok s =>
      cases he : Conv.int eb with
      | error m => rw [runL_eq, sigLtrim, applyL_KL_int_int_err2 _ _ _ _ _ _ _ _ s m hs he]; rfl
      | ok e =>
        unfold onList
        refine listKey_runL sigLtrim Cmd.ltrim ctx time live ok k _ _
          (applyL_KL_int_int _ _ _ _ _ _ _ _ s e hs he live) _ ?_
        intro l e' he' hv
        rw [FR.Proofs.ltrim_body]
        simp only [truthy_lci, listOf_lci]
        by_cases hl : l = []
        · subst hl
          simp only [List.isEmpty_nil, Bool.not_true, Bool.not_false, if_true]
          rw [fin_read _ _ _ _ rfl, lrangeSpec_nil, putList_view ok hv]
        · have : l.isEmpty = false := by simpa using hl
          simp only [this, Bool.not_false, Bool.not_true, Bool.false_eq_true, if_false]
          by_cases hlen : (lrangeSpec l s e).length = l.length
          · have hb : ((lrangeSpec l s e).length != l.length) = false := by simp [hlen]
            simp only [hb, Bool.false_eq_true, if_false]
            rw [fin_read _ _ _ _ rfl, lrangeSpec_same_length hlen, putList_view ok hv]
          · have hb : ((lrangeSpec l s e).length != l.length) = true := by simp [hlen]
            simp only [hb, if_true]
            exact fin_write _ _ _ _ _ _ _ he'

/-! ### LINSERT -/

def sigLinsert : Sig := ⟨"linsert", [KL, .bytes, .bytes, .bytes], [], false, 4, 0, false⟩

/-- LINSERT: the type check comes first, then the keyword (case-insensitive), then the missing key (0, nothing
created), then the FIRST occurrence of the pivot (-1 and no change when there is none) -/
def linsertCmd (live : Live) : List Bytes → Reply × Live
  | [k, wh, pivot, v] =>
    onList live k fun l e =>
      if casematch wh "before" = false ∧ casematch wh "after" = false then (synErr, live)
      else if l = [] then (.int 0, live)
      else
        match insertSpec (casematch wh "after") pivot v l with
        | none => (.int (-1), live)
        | some l' => (.int l'.length, putList live k l' e)
  | _ => (arityErr "linsert", live)

theorem linsert_runL (ctx : Ctx) (time : Int) (live : Live) (ok : LiveOK time live) (raw : List Bytes) :
    runL sigLinsert Cmd.linsert ctx raw time live = linsertCmd live raw := by
  match raw with
  | [] => exact runL_arity_fixed _ _ _ _ _ _ rfl (by simp [sigLinsert])
  | [_] => exact runL_arity_fixed _ _ _ _ _ _ rfl (by simp [sigLinsert])
  | [_, _] => exact runL_arity_fixed _ _ _ _ _ _ rfl (by simp [sigLinsert])
  | [_, _, _] => exact runL_arity_fixed _ _ _ _ _ _ rfl (by simp [sigLinsert])
  | _ :: _ :: _ :: _ :: _ :: _ => exact runL_arity_fixed _ _ _ _ _ _ rfl (by simp [sigLinsert])
  | [k, wh, pivot, v] =>
    simp only [linsertCmd, onList]
    refine listKey_runL sigLinsert Cmd.linsert ctx time live ok k _ _ (applyL_KL_bytes3 ..) _ ?_
    intro l e he hv
    simp only [Cmd.linsert, truthy_lci, listOf_lci]
    by_cases hsyn : casematch wh "before" = false ∧ casematch wh "after" = false
    · simp [hsyn.1, hsyn.2, synErr]
    · have hb : (!casematch wh "before" && !casematch wh "after") = false := by
        cases h1 : casematch wh "before" <;> cases h2 : casematch wh "after" <;> simp_all
      simp only [hb, Bool.false_eq_true, if_false, if_neg hsyn]
      by_cases hl : l = []
      · subst hl
        simp only [List.isEmpty_nil, Bool.not_true, Bool.not_false, if_true]
        exact fin_read _ _ _ _ rfl
      · have : l.isEmpty = false := by simpa using hl
        simp only [this, Bool.not_false, Bool.not_true, Bool.false_eq_true, if_false, if_neg hl]
        rw [insertSpec_eq]
        cases hi : Py.indexOf? l pivot with
        | none => exact fin_read _ _ _ _ rfl
        | some i =>
          simp only [Option.map_some, setList_lci]
          exact fin_write _ _ _ _ _ _ _ he

/-! ### LSET -/

def sigLset : Sig := ⟨"lset", [KL, .int, .bytes], [], false, 3, 0, false⟩

def lsetCmd (live : Live) : List Bytes → Reply × Live
  | [k, ib, v] =>
    withInt live ib fun i =>
      onList live k fun l e =>
        if l = [] then (errR Msgs.NO_KEY_MSG, live)
        else if 0 ≤ norm i l.length ∧ norm i l.length < l.length then
          (.ok, putList live k (l.set (norm i l.length).toNat v) e)
        else (errR Msgs.INDEX_ERROR_MSG, live)
  | _ => (arityErr "lset", live)

theorem lset_runL (ctx : Ctx) (time : Int) (live : Live) (ok : LiveOK time live) (raw : List Bytes) :
    runL sigLset Cmd.lset ctx raw time live = lsetCmd live raw := by
  match raw with
  | [] => exact runL_arity_fixed _ _ _ _ _ _ rfl (by simp [sigLset])
  | [_] => exact runL_arity_fixed _ _ _ _ _ _ rfl (by simp [sigLset])
  | [_, _] => exact runL_arity_fixed _ _ _ _ _ _ rfl (by simp [sigLset])
  | _ :: _ :: _ :: _ :: _ => exact runL_arity_fixed _ _ _ _ _ _ rfl (by simp [sigLset])
  | [k, ib, v] =>
    simp only [lsetCmd, withInt]
    cases hi : Conv.int ib with
    | error m => rw [runL_eq, sigLset, applyL_KL_int_bytes_err _ _ _ _ _ _ _ _ m hi]; rfl
    | ok i =>
      simp only [onList]
      refine listKey_runL sigLset Cmd.lset ctx time live ok k _ _
        (applyL_KL_int_bytes _ _ _ _ _ _ _ _ i hi live) _ ?_
      intro l e he hv
      simp only [Cmd.lset, truthy_lci, listOf_lci]
      by_cases hl : l = []
      · subst hl
        simp [errR]
      · have : l.isEmpty = false := by simpa using hl
        simp only [this, Bool.not_false, Bool.not_true, Bool.false_eq_true, if_false, if_neg hl]
        rw [FR.Proofs.lset_spec]
        by_cases hr : 0 ≤ norm i l.length ∧ norm i l.length < l.length
        · simp only [if_pos hr, setList_lci]
          exact fin_write _ _ _ _ _ _ _ he
        · simp only [if_neg hr]; rfl

/-! ### LREM -/

def sigLrem : Sig := ⟨"lrem", [KL, .int, .bytes], [], false, 3, 0, false⟩

/-- LREM: the list becomes `lremSpec l count v` (first `count` / last `-count` / all occurrences deleted), the reply
is the number of deleted elements, an emptied list deletes the key -/
def lremCmd (live : Live) : List Bytes → Reply × Live
  | [k, cb, v] =>
    withInt live cb fun count =>
      onList live k fun l e =>
        (.int ((l.length - (lremSpec l count v).length : Nat) : Int), putList live k (lremSpec l count v) e)
  | _ => (arityErr "lrem", live)

theorem lrem_runL (ctx : Ctx) (time : Int) (live : Live) (ok : LiveOK time live) (raw : List Bytes) :
    runL sigLrem Cmd.lrem ctx raw time live = lremCmd live raw := by
  match raw with
  | [] => exact runL_arity_fixed _ _ _ _ _ _ rfl (by simp [sigLrem])
  | [_] => exact runL_arity_fixed _ _ _ _ _ _ rfl (by simp [sigLrem])
  | [_, _] => exact runL_arity_fixed _ _ _ _ _ _ rfl (by simp [sigLrem])
  | _ :: _ :: _ :: _ :: _ => exact runL_arity_fixed _ _ _ _ _ _ rfl (by simp [sigLrem])
  | [k, cb, v] =>
    simp only [lremCmd, withInt]
    cases hi : Conv.int cb with
    | error m => rw [runL_eq, sigLrem, applyL_KL_int_bytes_err _ _ _ _ _ _ _ _ m hi]; rfl
    | ok count =>
      simp only [onList]
      refine listKey_runL sigLrem Cmd.lrem ctx time live ok k _ _
        (applyL_KL_int_bytes _ _ _ _ _ _ _ _ count hi live) _ ?_
      intro l e he hv
      rw [FR.Proofs.lrem_body]
      simp only [listOf_lci]
      have hlen := lremRm_length_eq l count v
      have hkeep := FR.Proofs.lrem_eq_spec l count v
      by_cases hrm : lremRm l count v = []
      · rw [hrm] at hkeep hlen
        rw [lremKeep_nil] at hkeep
        simp only [hrm, List.isEmpty_nil, if_true]
        rw [fin_read _ _ _ _ rfl, ← hkeep, putList_view ok hv]
        simp only [List.length_nil] at hlen
        rw [← hkeep] at hlen
        simp
      · have : (lremRm l count v).isEmpty = false := by simpa using hrm
        simp only [this, Bool.false_eq_true, if_false, setList_lci]
        rw [fin_write _ _ _ _ _ _ _ he, hkeep, hlen]

/-! ### LPOP / RPOP -/

def sigPop (name : String) : Sig := ⟨name, [K], [.int], false, 1, 0, true⟩

/-- pop from the list at `k`: one element (`count = none`, reply a bulk string) or up to `n` elements (reply an
array; `RPOP` lists them from the tail).  A missing key is nil. -/
def popOn (left : Bool) (live : Live) (k : Bytes) (count : Option Nat) : Reply × Live :=
  onList live k fun l e =>
    if l = [] then (.nil, live)
    else
      match count with
      | none =>
        (Reply.ofOptBulk (if left then l.head? else l.getLast?),
          putList live k (if left then l.tail else l.dropLast) e)
      | some n =>
        (Reply.bulks (if left then l.take n else l.reverse.take n),
          putList live k (if left then l.drop n else l.take (l.length - n)) e)

/-- LPOP / RPOP with the converted counts `cs` -/
def popL (left : Bool) (version : Nat) (live : Live) (k : Bytes) : List Int → Reply × Live
  | [] => popOn left live k none
  | [n] =>
    if n < 0 then (errR Msgs.INDEX_ERROR_MSG, live)
    else if n = 0 ∧ version = 6 then (.nil, live)
    else popOn left live k (some n.toNat)
  | _ :: _ :: _ => (synErr, live)

def popCmd (left : Bool) (name : String) (version : Nat) (live : Live) : List Bytes → Reply × Live
  | k :: rest =>
    match decodeInts rest with
    | .error m => (errR m, live)
    | .ok cs => popL left version live k cs
  | [] => (arityErr name, live)

theorem filterMap_ints (cs : List Int) :
    (cs.map Arg.int).filterMap (fun a => match a with | .int n => some n | _ => none) = cs := by
  induction cs with
  | nil => rfl
  | cons c cs ih => simp [ih]

/-- the inner function of `_list_pop` -/
def popGo (left : Bool) (c : CI) (count : Nat) (single : Bool) : Except Err BodyOut :=
  if !c.truthy then ret .nil [c]
  else
    match c.val with
    | some (.list l) =>
      ret (if single then Reply.ofOptBulk (if left then Cmd.popLeftN l count else Cmd.popRightN l count).1.head?
           else Reply.bulks (if left then Cmd.popLeftN l count else Cmd.popRightN l count).1)
        (Cmd.setList [c] 0 (if left then Cmd.popLeftN l count else Cmd.popRightN l count).2)
    | _ => .error Msgs.WRONGTYPE_MSG

theorem listPop_eval (left : Bool) (ctx : Ctx) (c : CI) (cs : List Int) :
    Cmd.listPop left ctx (.key 0 :: cs.map .int) [c] =
      match cs with
      | [] => popGo left c 1 true
      | [n] =>
        if n < 0 then .error Msgs.INDEX_ERROR_MSG
        else if (n == 0 && ctx.version == 6) = true then ret .nil [c]
        else popGo left c n.toNat false
      | _ :: _ :: _ => .error Msgs.SYNTAX_ERROR_MSG := by
  match cs with
  | [] =>
    simp only [Cmd.listPop, List.map_nil, List.filterMap_nil, List.length_nil, Nat.not_lt_zero, gt_iff_lt, if_false,
      popGo, ciAt, List.getD_cons_zero]
    cases c.truthy <;> simp
    cases c.val with
    | none => rfl
    | some v => cases v <;> cases left <;> rfl
  | [n] =>
    simp only [Cmd.listPop, List.map_cons, List.map_nil, List.filterMap_cons, List.filterMap_nil, List.length_cons,
      List.length_nil, gt_iff_lt, Nat.lt_irrefl, if_false, popGo, ciAt, List.getD_cons_zero]
    by_cases hn : n < 0
    · simp [hn]
    · simp only [hn, if_false]
      by_cases hz : (n == 0 && ctx.version == 6) = true
      · simp only [hz, if_true]
      · simp only [hz, if_false]
        cases c.truthy <;> simp
        cases c.val with
        | none => rfl
        | some v => cases v <;> cases left <;> rfl
  | a :: b :: rest =>
    simp only [Cmd.listPop, List.map_cons, List.filterMap_cons, List.length_cons]
    rw [if_pos (by omega)]

theorem popGo_fin (left : Bool) (time : Int) (live : Live) (ok : LiveOK time live) (k : Bytes) (n : Nat)
    (single : Bool) :
    fin time live (popGo left (ciA live k) n single) =
      onList live k fun l e =>
        if l = [] then (.nil, live)
        else
          (if single then Reply.ofOptBulk (if left then Cmd.popLeftN l n else Cmd.popRightN l n).1.head?
           else Reply.bulks (if left then Cmd.popLeftN l n else Cmd.popRightN l n).1,
           putList live k (if left then Cmd.popLeftN l n else Cmd.popRightN l n).2 e) := by
  unfold onList popGo ciA
  cases h : live k with
  | none =>
    rw [listView_missing h]
    simp [CI.truthy, ret, wbL]
  | some it =>
    obtain ⟨v, e⟩ := it
    have hne := ok.nonempty k _ h
    have hf := ok.fresh k _ h
    have ht : CI.truthy ⟨k, some v, e, false, false⟩ = true := truthy_live hne
    simp only [ht, Bool.not_true, Bool.false_eq_true, if_false]
    cases v with
    | list l =>
      rw [listView_list h]
      have hl : l ≠ [] := by
        intro hl; subst hl; simp [Value.isEmptyColl] at hne
      simp only [if_neg hl]
      exact fin_write _ _ _ _ _ _ _ hf
    | _ => simp [listView, h, wrongtype]

theorem head_take_one (l : List Bytes) : (l.take 1).head? = l.head? := by
  cases l <;> rfl

theorem popRight_one (l : List Bytes) :
    (Cmd.popRightN l 1).1.head? = l.getLast? ∧ (Cmd.popRightN l 1).2 = l.dropLast := by
  simp only [Cmd.popRightN, List.dropLast_eq_take]
  refine ⟨?_, trivial⟩
  rw [List.head?_reverse, List.getLast?_drop]
  split
  · rename_i h
    have : l = [] := by
      cases l with
      | nil => rfl
      | cons x xs => simp at h; omega
    subst this; rfl
  · rfl

theorem pop_runL (left : Bool) (name : String) (ctx : Ctx) (time : Int) (live : Live) (ok : LiveOK time live)
    (raw : List Bytes) :
    runL (sigPop name) (Cmd.listPop left) ctx raw time live = popCmd left name ctx.version live raw := by
  match raw with
  | [] => exact runL_arity_short _ _ _ _ _ _ (by simp [sigPop])
  | k :: rest =>
    simp only [popCmd]
    rw [runL_eq, sigPop, applyL_pop]
    cases hd : decodeInts rest with
    | error m => rfl
    | ok cs =>
      simp only
      rw [listPop_eval]
      match cs with
      | [] =>
        simp only [popL, popOn]
        rw [popGo_fin left time live ok k 1 true]
        unfold onList
        cases listView live k with
        | none => rfl
        | some p =>
          obtain ⟨l, e⟩ := p
          simp only
          by_cases hl : l = []
          · simp [hl]
          · simp only [if_neg hl, if_true]
            cases left
            · simp [(popRight_one l).1, (popRight_one l).2]
            · simp [Cmd.popLeftN, head_take_one]
      | [n] =>
        simp only [popL]
        by_cases hn : n < 0
        · simp [hn, errR]
        · simp only [hn, if_false]
          by_cases hz : n = 0 ∧ ctx.version = 6
          · have : (n == 0 && ctx.version == 6) = true := by simp [hz.1, hz.2]
            simp only [this, if_true, if_pos hz]
            exact fin_read _ _ _ _ (ciA_modified live k)
          · have : ¬ ((n == 0 && ctx.version == 6) = true) := by
              simpa using fun h1 h2 => hz ⟨h1, h2⟩
            simp only [this, if_false, if_neg hz, popOn, Bool.false_eq_true]
            rw [popGo_fin left time live ok k n.toNat false]
            unfold onList
            cases listView live k with
            | none => rfl
            | some p =>
              obtain ⟨l, e⟩ := p
              simp only
              by_cases hl : l = []
              · simp [hl]
              · simp only [if_neg hl]
                cases left
                · have h1 := popRightN_popped l n.toNat
                  simp only [Cmd.popRightN] at h1
                  simp [Cmd.popRightN, h1]
                · simp [Cmd.popLeftN]
      | _ :: _ :: _ => simp [popL, synErr]

/-! ### RPOPLPUSH / LMOVE -/

def sigRpoplpush : Sig := ⟨"rpoplpush", [KLn, KL], [], false, 2, 0, false⟩
def sigLmove : Sig := ⟨"lmove", [KLn, KL, .sstr, .sstr], [], false, 4, 0, false⟩

/-- move one element from the head / tail of the source list `sl` to the head / tail of the destination list `dl`;
with source = destination the list is rotated -/
def moveOn (fromLeft toLeft : Bool) (live : Live) (s d : Bytes) (sl : List Bytes) (es : Option Int)
    (dl : List Bytes) (ed : Option Int) : Reply × Live :=
  match (if fromLeft then sl.head? else sl.getLast?) with
  | none => (.nil, live)
  | some el =>
    if s = d then
      (.bulk el, putList live s
        (if toLeft then el :: (if fromLeft then sl.tail else sl.dropLast)
         else (if fromLeft then sl.tail else sl.dropLast) ++ [el]) es)
    else
      (.bulk el, putList (putList live s (if fromLeft then sl.tail else sl.dropLast) es) d
        (if toLeft then el :: dl else dl ++ [el]) ed)

/-- the common frame of the two-key commands: a missing source is nil (whatever the destination holds), then the
type checks of source and destination -/
def moveL (live : Live) (s d : Bytes)
    (f : List Bytes → Option Int → List Bytes → Option Int → Reply × Live) : Reply × Live :=
  match live s with
  | none => (.nil, live)
  | some _ =>
    match listView live s with
    | none => (wrongtype, live)
    | some (sl, es) =>
      match listView live d with
      | none => (wrongtype, live)
      | some (dl, ed) => f sl es dl ed

theorem moveKey_runL (sig : Sig) (body : Body) (ctx : Ctx) (time : Int) (live : Live)
    (ok : LiveOK time live) (s d : Bytes) (raw : List Bytes) (tail : List Arg)
    (hap : applyL sig raw live = moveApplied live s d tail)
    (G : List Bytes → Option Int → List Bytes → Option Int → Reply × Live)
    (hfin : ∀ (sl : List Bytes) (es : Option Int) (dl : List Bytes) (ed : Option Int),
      expiredAt time es = false → expiredAt time ed = false →
      listView live s = some (sl, es) → listView live d = some (dl, ed) → sl ≠ [] →
      fin time live (body ctx (.key 0 :: .key 1 :: tail) [lci s sl es, lci d dl ed]) = G sl es dl ed) :
    runL sig body ctx raw time live = moveL live s d G := by
  rw [runL_eq, hap]
  unfold moveApplied moveL
  cases hs : live s with
  | none => rfl
  | some its =>
    obtain ⟨vs, es⟩ := its
    cases vs with
    | list sl =>
      rw [listView_list hs]
      simp only [Value.ty, if_true]
      have hsl : sl ≠ [] := listView_ne_nil ok (listView_list hs) (by rw [hs]; rfl)
      cases hd : live d with
      | none =>
        rw [listView_missing hd]
        exact hfin sl es [] none (ok.fresh s _ hs) rfl (listView_list hs) (listView_missing hd) hsl
      | some itd =>
        obtain ⟨vd, ed⟩ := itd
        cases vd with
        | list dl =>
          rw [listView_list hd]
          simp only [Value.ty, if_true]
          exact hfin sl es dl ed (ok.fresh s _ hs) (ok.fresh d _ hd) (listView_list hs) (listView_list hd) hsl
        | _ => simp [Value.ty, wrongtype, listView, hd]
    | _ => simp [Value.ty, wrongtype, listView, hs]

theorem fin_write2 (time : Int) (live : Live) (r : Reply) (s d : Bytes) (a b : List Bytes) (es ed : Option Int)
    (x y : Bool) (hs : expiredAt time es = false) (hd : expiredAt time ed = false) :
    fin time live (ret r [⟨s, some (.list a), es, true, x⟩, ⟨d, some (.list b), ed, true, y⟩]) =
      (r, putList (putList live s a es) d b ed) := by
  have h1 := fin_write time live r s a es x hs
  have h2 := fin_write time (putList live s a es) r d b ed y hd
  simp only [ret, fin_ok, List.foldl_cons, List.foldl_nil, Prod.mk.injEq, true_and] at h1 h2 ⊢
  rw [h1, h2]

theorem fin_read2 (time : Int) (live : Live) (r : Reply) (c1 c2 : CI) (h1 : c1.modified = false := by rfl)
    (h2 : c2.modified = false := by rfl) : fin time live (ret r [c1, c2]) = (r, live) := by
  simp [ret, wbL, h1, h2]

theorem moveCore_eval (fromLeft toLeft : Bool) (s d : Bytes) (sl : List Bytes) (es : Option Int)
    (dl : List Bytes) (ed : Option Int) :
    Cmd.moveCore [lci s sl es, lci d dl ed] 0 1 fromLeft toLeft =
      match (if fromLeft then sl.head? else sl.getLast?) with
      | none => ret .nil [lci s sl es, lci d dl ed]
      | some el =>
        if s = d then
          ret (.bulk el)
            [⟨s, some (.list (if toLeft then el :: (if fromLeft then sl.tail else sl.dropLast)
                else (if fromLeft then sl.tail else sl.dropLast) ++ [el])), es, true, false⟩,
             ⟨d, some (.list (if toLeft then el :: (if fromLeft then sl.tail else sl.dropLast)
                else (if fromLeft then sl.tail else sl.dropLast) ++ [el])), ed, true, false⟩]
        else
          ret (.bulk el)
            [⟨s, some (.list (if fromLeft then sl.tail else sl.dropLast)), es, true, false⟩,
             ⟨d, some (.list (if toLeft then el :: dl else dl ++ [el])), ed, true, false⟩] := by
  unfold Cmd.moveCore
  have c0 : ciAt [lci s sl es, lci d dl ed] 0 = lci s sl es := rfl
  have c1 : ciAt [lci s sl es, lci d dl ed] 1 = lci d dl ed := rfl
  simp only [c0, c1]
  have hl : Cmd.listOf (lci s sl es) = sl := rfl
  have hl' : Cmd.listOf (lci d dl ed) = dl := rfl
  have hk : ((lci s sl es).key == (lci d dl ed).key) = decide (s = d) := by
    show (s == d) = decide (s = d)
    by_cases h : s = d <;> simp [h]
  simp only [hl, hl', hk]
  cases fromLeft
  · simp only [Bool.false_eq_true, if_false, (popRight_one sl).1, (popRight_one sl).2]
    cases sl.getLast? with
    | none => rfl
    | some el =>
      simp only
      by_cases hsd : s = d
      · simp only [hsd, decide_true, if_true]; rfl
      · simp only [hsd, decide_false, Bool.false_eq_true, if_false]; rfl
  · simp only [if_true, Cmd.popLeftN, head_take_one, List.drop_one]
    cases sl.head? with
    | none => rfl
    | some el =>
      simp only
      by_cases hsd : s = d
      · simp only [hsd, decide_true, if_true]; rfl
      · simp only [hsd, decide_false, Bool.false_eq_true, if_false]; rfl

theorem moveCore_fin (fromLeft toLeft : Bool) (time : Int) (live : Live) (s d : Bytes) (sl : List Bytes)
    (es : Option Int) (dl : List Bytes) (ed : Option Int)
    (hs : expiredAt time es = false) (hd : expiredAt time ed = false)
    (hsame : s = d → ed = es) :
    fin time live (Cmd.moveCore [lci s sl es, lci d dl ed] 0 1 fromLeft toLeft) =
      moveOn fromLeft toLeft live s d sl es dl ed := by
  rw [moveCore_eval]
  unfold moveOn
  cases (if fromLeft then sl.head? else sl.getLast?) with
  | none => exact fin_read2 _ _ _ _ _
  | some el =>
    simp only
    by_cases hsd : s = d
    · subst hsd
      have := hsame rfl
      subst this
      simp only [if_true]
      rw [fin_write2 _ _ _ _ _ _ _ _ _ _ _ hs hs, putList_putList]
    · simp only [if_neg hsd]
      exact fin_write2 _ _ _ _ _ _ _ _ _ _ _ hs hd

theorem view_same {live : Live} {s d : Bytes} {sl dl : List Bytes} {es ed : Option Int}
    (hs : listView live s = some (sl, es)) (hd : listView live d = some (dl, ed)) (h : s = d) : ed = es := by
  subst h
  rw [hs] at hd
  simp only [Option.some.injEq, Prod.mk.injEq] at hd
  exact hd.2.symm

/-- RPOPLPUSH src dst = LMOVE src dst RIGHT LEFT -/
def rpoplpushCmd (live : Live) : List Bytes → Reply × Live
  | [s, d] => moveL live s d (moveOn false true live s d)
  | _ => (arityErr "rpoplpush", live)

theorem rpoplpush_runL (ctx : Ctx) (time : Int) (live : Live) (ok : LiveOK time live) (raw : List Bytes) :
    runL sigRpoplpush Cmd.rpoplpush ctx raw time live = rpoplpushCmd live raw := by
  match raw with
  | [] => exact runL_arity_fixed _ _ _ _ _ _ rfl (by simp [sigRpoplpush])
  | [_] => exact runL_arity_fixed _ _ _ _ _ _ rfl (by simp [sigRpoplpush])
  | _ :: _ :: _ :: _ => exact runL_arity_fixed _ _ _ _ _ _ rfl (by simp [sigRpoplpush])
  | [s, d] =>
    simp only [rpoplpushCmd]
    refine moveKey_runL sigRpoplpush Cmd.rpoplpush ctx time live ok s d _ [] (applyL_KLn_KL ..) _ ?_
    intro sl es dl ed hes hed hvs hvd hsl
    exact moveCore_fin false true time live s d sl es dl ed hes hed (view_same hvs hvd)

/-- LMOVE: the direction words are matched case-insensitively, AFTER the missing-source short cut and the type
checks -/
def lmoveCmd (live : Live) : List Bytes → Reply × Live
  | [s, d, a, b] =>
    moveL live s d fun sl es dl ed =>
      if casematch a "left" = false ∧ casematch a "right" = false then (synErr, live)
      else if casematch b "left" = false ∧ casematch b "right" = false then (synErr, live)
      else moveOn (casematch a "left") (casematch b "left") live s d sl es dl ed
  | _ => (arityErr "lmove", live)

theorem lmove_runL (ctx : Ctx) (time : Int) (live : Live) (ok : LiveOK time live) (raw : List Bytes) :
    runL sigLmove Cmd.lmove ctx raw time live = lmoveCmd live raw := by
  match raw with
  | [] => exact runL_arity_fixed _ _ _ _ _ _ rfl (by simp [sigLmove])
  | [_] => exact runL_arity_fixed _ _ _ _ _ _ rfl (by simp [sigLmove])
  | [_, _] => exact runL_arity_fixed _ _ _ _ _ _ rfl (by simp [sigLmove])
  | [_, _, _] => exact runL_arity_fixed _ _ _ _ _ _ rfl (by simp [sigLmove])
  | _ :: _ :: _ :: _ :: _ :: _ => exact runL_arity_fixed _ _ _ _ _ _ rfl (by simp [sigLmove])
  | [s, d, a, b] =>
    simp only [lmoveCmd]
    refine moveKey_runL sigLmove Cmd.lmove ctx time live ok s d _ [.raw a, .raw b] (applyL_KLn_KL_ss ..) _ ?_
    intro sl es dl ed hes hed hvs hvd hsl
    simp only [Cmd.lmove]
    have e1 : ∀ (x : Bytes) (w : String), (casenorm x != strBytes w) = !casematch x w := fun x w => rfl
    have e2 : ∀ (x : Bytes) (w : String), (casenorm x == strBytes w) = casematch x w := fun x w => rfl
    simp only [e1, e2]
    by_cases h1 : casematch a "left" = false ∧ casematch a "right" = false
    · simp [h1.1, h1.2, synErr]
    · have hb1 : (!casematch a "left" && !casematch a "right") = false := by
        cases h : casematch a "left" <;> cases h' : casematch a "right" <;> simp_all
      simp only [hb1, Bool.false_eq_true, if_false, if_neg h1]
      by_cases h2 : casematch b "left" = false ∧ casematch b "right" = false
      · simp [h2.1, h2.2, synErr]
      · have hb2 : (!casematch b "left" && !casematch b "right") = false := by
          cases h : casematch b "left" <;> cases h' : casematch b "right" <;> simp_all
        simp only [hb2, Bool.false_eq_true, if_false, if_neg h2]
        exact moveCore_fin _ _ time live s d sl es dl ed hes hed (view_same hvs hvd)

/-! ## Part 6: all list commands at once -/

/-- the list commands of the property that run through the generic runner -/
def listCmds : List String :=
  ["lpush", "rpush", "lpushx", "rpushx", "lpop", "rpop", "lrange", "lindex", "llen", "linsert", "lset", "lrem",
   "ltrim", "rpoplpush", "lmove"]

/-- THE ABSTRACT LIST SEMANTICS: reply and key space after the list command `name` with the raw arguments `raw`,
as a function of the emulated version and the key space before -/
def listCmd (version : Nat) (name : String) (raw : List Bytes) (live : Live) : Reply × Live :=
  match name with
  | "lpush" => pushCmd true false "lpush" live raw
  | "rpush" => pushCmd false false "rpush" live raw
  | "lpushx" => pushCmd true true "lpushx" live raw
  | "rpushx" => pushCmd false true "rpushx" live raw
  | "lpop" => popCmd true "lpop" version live raw
  | "rpop" => popCmd false "rpop" version live raw
  | "lrange" => lrangeCmd live raw
  | "lindex" => lindexCmd live raw
  | "llen" => llenCmd live raw
  | "linsert" => linsertCmd live raw
  | "lset" => lsetCmd live raw
  | "lrem" => lremCmd live raw
  | "ltrim" => ltrimCmd live raw
  | "rpoplpush" => rpoplpushCmd live raw
  | "lmove" => lmoveCmd live raw
  | _ => (.nil, live)

open FR.HashSet (sigOf) in
/-- the registered signature and body of every list command are the ones evaluated above -/
theorem tables :
    (sigOf "lpush" = sigPush "lpush" ∧ Cmd.regular "lpush" = some (pushBody true false)) ∧
    (sigOf "rpush" = sigPush "rpush" ∧ Cmd.regular "rpush" = some (pushBody false false)) ∧
    (sigOf "lpushx" = sigPush "lpushx" ∧ Cmd.regular "lpushx" = some (pushBody true true)) ∧
    (sigOf "rpushx" = sigPush "rpushx" ∧ Cmd.regular "rpushx" = some (pushBody false true)) ∧
    (sigOf "lpop" = sigPop "lpop" ∧ Cmd.regular "lpop" = some (Cmd.listPop true)) ∧
    (sigOf "rpop" = sigPop "rpop" ∧ Cmd.regular "rpop" = some (Cmd.listPop false)) ∧
    (sigOf "lrange" = sigLrange ∧ Cmd.regular "lrange" = some Cmd.lrange) ∧
    (sigOf "lindex" = sigLindex ∧ Cmd.regular "lindex" = some Cmd.lindex) ∧
    (sigOf "llen" = sigLlen ∧ Cmd.regular "llen" = some Cmd.llen) ∧
    (sigOf "linsert" = sigLinsert ∧ Cmd.regular "linsert" = some Cmd.linsert) ∧
    (sigOf "lset" = sigLset ∧ Cmd.regular "lset" = some Cmd.lset) ∧
    (sigOf "lrem" = sigLrem ∧ Cmd.regular "lrem" = some Cmd.lrem) ∧
    (sigOf "ltrim" = sigLtrim ∧ Cmd.regular "ltrim" = some Cmd.ltrim) ∧
    (sigOf "rpoplpush" = sigRpoplpush ∧ Cmd.regular "rpoplpush" = some Cmd.rpoplpush) ∧
    (sigOf "lmove" = sigLmove ∧ Cmd.regular "lmove" = some Cmd.lmove) :=
  ⟨⟨rfl, rfl⟩, ⟨rfl, rfl⟩, ⟨rfl, rfl⟩, ⟨rfl, rfl⟩, ⟨rfl, rfl⟩, ⟨rfl, rfl⟩, ⟨rfl, rfl⟩, ⟨rfl, rfl⟩, ⟨rfl, rfl⟩,
    ⟨rfl, rfl⟩, ⟨rfl, rfl⟩, ⟨rfl, rfl⟩, ⟨rfl, rfl⟩, ⟨rfl, rfl⟩, ⟨rfl, rfl⟩⟩

/-- the body registered under `name` (a failing dummy for an unregistered name, as in `FR.HashSet.run`) -/
def bodyOf (name : String) : Body := (Cmd.regular name).getD (fun _ _ _ => .error "model: no body")

/-- ALL LIST COMMANDS, ALL ARGUMENT LISTS: the abstract runner computes `listCmd` -/
theorem list_runL (name : String) (hname : name ∈ listCmds) (ctx : Ctx) (time : Int) (live : Live)
    (ok : LiveOK time live) (raw : List Bytes) :
    runL (FR.HashSet.sigOf name) (bodyOf name) ctx raw time live = listCmd ctx.version name raw live := by
  simp only [listCmds, List.mem_cons, List.mem_nil_iff, or_false] at hname
  rcases hname with rfl | rfl | rfl | rfl | rfl | rfl | rfl | rfl | rfl | rfl | rfl | rfl | rfl | rfl | rfl
  · exact push_runL true false "lpush" ctx time live ok raw
  · exact push_runL false false "rpush" ctx time live ok raw
  · exact push_runL true true "lpushx" ctx time live ok raw
  · exact push_runL false true "rpushx" ctx time live ok raw
  · exact pop_runL true "lpop" ctx time live ok raw
  · exact pop_runL false "rpop" ctx time live ok raw
  · exact lrange_runL ctx time live ok raw
  · exact lindex_runL ctx time live ok raw
  · exact llen_runL ctx time live ok raw
  · exact linsert_runL ctx time live ok raw
  · exact lset_runL ctx time live ok raw
  · exact lrem_runL ctx time live ok raw
  · exact ltrim_runL ctx time live ok raw
  · exact rpoplpush_runL ctx time live ok raw
  · exact lmove_runL ctx time live ok raw

/-! ### `listCmd` per command -/
section eqs
variable (v : Nat) (raw : List Bytes) (live : Live)
theorem listCmd_lpush : listCmd v "lpush" raw live = pushCmd true false "lpush" live raw := rfl
theorem listCmd_rpush : listCmd v "rpush" raw live = pushCmd false false "rpush" live raw := rfl
theorem listCmd_lpushx : listCmd v "lpushx" raw live = pushCmd true true "lpushx" live raw := rfl
theorem listCmd_rpushx : listCmd v "rpushx" raw live = pushCmd false true "rpushx" live raw := rfl
theorem listCmd_lpop : listCmd v "lpop" raw live = popCmd true "lpop" v live raw := rfl
theorem listCmd_rpop : listCmd v "rpop" raw live = popCmd false "rpop" v live raw := rfl
theorem listCmd_lrange : listCmd v "lrange" raw live = lrangeCmd live raw := rfl
theorem listCmd_lindex : listCmd v "lindex" raw live = lindexCmd live raw := rfl
theorem listCmd_llen : listCmd v "llen" raw live = llenCmd live raw := rfl
theorem listCmd_linsert : listCmd v "linsert" raw live = linsertCmd live raw := rfl
theorem listCmd_lset : listCmd v "lset" raw live = lsetCmd live raw := rfl
theorem listCmd_lrem : listCmd v "lrem" raw live = lremCmd live raw := rfl
theorem listCmd_ltrim : listCmd v "ltrim" raw live = ltrimCmd live raw := rfl
theorem listCmd_rpoplpush : listCmd v "rpoplpush" raw live = rpoplpushCmd live raw := rfl
theorem listCmd_lmove : listCmd v "lmove" raw live = lmoveCmd live raw := rfl
end eqs

theorem sound_of (name : String) (b : Body) (h : Cmd.regular name = some b) : Body.ExpModSound (bodyOf name) := by
  unfold bodyOf; rw [h]; exact regular_expModSound name b h

theorem bodyOf_sound (name : String) (hname : name ∈ listCmds) : Body.ExpModSound (bodyOf name) := by
  simp only [listCmds, List.mem_cons, List.mem_nil_iff, or_false] at hname
  rcases hname with rfl | rfl | rfl | rfl | rfl | rfl | rfl | rfl | rfl | rfl | rfl | rfl | rfl | rfl | rfl <;>
    exact sound_of _ _ rfl

/-- REFINEMENT at the level of `runRegular`: reply and key space after a list command are `listCmd` of the key space
before -/
theorem run_refines (name : String) (hname : name ∈ listCmds) (ctx : Ctx) (raw : List Bytes) (db : Db)
    (nd : NodupKeys db.dict) (ne : NoEmpty db.dict) :
    ((runRegular (FR.HashSet.sigOf name) (bodyOf name) ctx none raw db).reply,
      (runRegular (FR.HashSet.sigOf name) (bodyOf name) ctx none raw db).db.live) =
      listCmd ctx.version name raw db.live :=
  (refines _ _ (bodyOf_sound name hname) ctx raw nd).trans (list_runL name hname ctx db.time db.live (liveOK ne) raw)

end FR.ListKeys
